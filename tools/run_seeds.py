#!/venv/bin/python
"""Runs the checks against every seeded change (scratch copy of /repo's python sources + the patch;
/repo itself is never touched) and prints which properties' checks fire.
usage: tools/run_seeds.py [seed ids...] [--props C01,C13] [--tier quick]"""
import json, os, shutil, subprocess, sys, tempfile
from concurrent.futures import ThreadPoolExecutor

VERIF = os.path.dirname(os.path.dirname(os.path.abspath(__file__)))
ALL = [f"C{i:02d}" for i in range(1, 21)]


def available_props():
    return [p for p in ALL if os.path.exists(os.path.join(VERIF, "sa", "props", p.lower() + ".py"))]


def make_copy(patch=None):
    d = tempfile.mkdtemp(prefix="sa_seed_", dir="/tmp")
    subprocess.run(["rsync", "-a", "--include=*/", "--include=*.py", "--exclude=*", "--exclude=data/", "--prune-empty-dirs",
                    "/repo/spil", "/repo/spil_hamlet_conf", "/repo/spil_plugins", d + "/"], check=True)
    if patch:
        r = subprocess.run(["git", "apply", "--unsafe-paths", "--directory", d, patch], cwd=d, capture_output=True, text=True)
        if r.returncode != 0:
            r = subprocess.run(["patch", "-p1", "-s", "-i", patch], cwd=d, capture_output=True, text=True)
            if r.returncode != 0:
                shutil.rmtree(d)
                return None, r.stdout + r.stderr
    return d, ""


SEED_DIR = "seeded"


def run_seed(seed, props, tier):
    sd = os.path.join(VERIF, SEED_DIR, seed)
    d, err = make_copy(os.path.join(sd, "patch.diff"))
    if d is None:
        return seed, {"_error": err}
    out = {}
    try:
        for p in props:
            r = subprocess.run(["/venv/bin/python", "-m", "sa.check", p, "--tier", tier, "--repo", d, "--no-evidence"],
                               cwd=VERIF, capture_output=True, text=True)
            lines = [l for l in r.stdout.splitlines() if l.startswith(("VIOLATION", "ANALYSIS-ERROR", "  "))]
            out[p] = (r.returncode, lines)
    finally:
        shutil.rmtree(d, ignore_errors=True)
    return seed, out


def main():
    args = sys.argv[1:]
    props = available_props()
    tier = "quick"
    seeds = []
    verbose = False
    i = 0
    while i < len(args):
        if args[i] == "--props":
            props = args[i + 1].split(","); i += 2
        elif args[i] == "--tier":
            tier = args[i + 1]; i += 2
        elif args[i] == "-v":
            verbose = True; i += 1
        elif args[i] == "--dir":
            global SEED_DIR
            SEED_DIR = args[i + 1]; i += 2
        else:
            seeds.append(args[i]); i += 1
    if not seeds:
        seeds = sorted(x for x in os.listdir(os.path.join(VERIF, SEED_DIR)) if os.path.isdir(os.path.join(VERIF, SEED_DIR, x)))
    caught = 0
    with ThreadPoolExecutor(max_workers=14) as ex:
        results = list(ex.map(lambda s: run_seed(s, props, tier), seeds))
    summary = {}
    for seed, out in results:
        if "_error" in out:
            print(f"{seed}: PATCH DID NOT APPLY: {out['_error'][:200]}")
            continue
        own = seed.split("-")[0]
        fired = [p for p, (rc, _) in out.items() if rc == 1]
        broken = [p for p, (rc, _) in out.items() if rc == 2]
        status = "CAUGHT" if fired else "missed"
        if fired:
            caught += 1
        mark = "*" if own in fired else " "
        print(f"{seed}: {status}{mark} fired={','.join(fired) or '-'}" + (f" analysis-error={','.join(broken)}" if broken else ""))
        import re as _re
        rules = sorted({m.group(0) for p_, (rc_, ls_) in out.items() if rc_ == 1 for l_ in ls_ for m in [_re.search(r"R-[A-Z0-9]+", l_)] if m})
        summary[seed] = {"fired": fired, "analysis_error": broken, "rules": rules}
        if verbose:
            for p, (rc, lines) in out.items():
                if rc != 0:
                    for l in lines[:6]:
                        print(f"      [{p}] {l.strip()[:220]}")
    print(f"caught {caught}/{len(results)}")
    json.dump(summary, open("/tmp/seed_summary.json", "w"), indent=1)


if __name__ == "__main__":
    main()
