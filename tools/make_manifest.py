#!/venv/bin/python
"""Generates /verif/MANIFEST.json from the property modules (run after adding / changing a check)."""
import importlib, json, os, subprocess, sys
VERIF = os.path.dirname(os.path.dirname(os.path.abspath(__file__)))
sys.path.insert(0, VERIF)
props = [json.loads(l) for l in open(os.path.join(VERIF, "properties.jsonl"))]
NOT_APPLICABLE = {}  # property id -> reason (none: every property has a clause decided by shape; see DESIGN.md 7)
fix_commits = subprocess.run(["git", "-C", "/repo", "log", "--format=%h %s"], capture_output=True, text=True).stdout.splitlines()
checks = []
for p in props:
    pid = p["id"]
    if pid in NOT_APPLICABLE:
        continue
    mod = importlib.import_module(f"sa.props.{pid.lower()}")
    checks.append({
        "property_id": pid,
        "quick_cmd": f"/venv/bin/python -m sa.check {pid} --tier quick",
        "thorough_cmd": f"/venv/bin/python -m sa.check {pid} --tier thorough",
        "evidence_file": f"/verif/evidence/{pid}.json",
        "replay_cmd_template": "/venv/bin/python -m sa.check --replay {path}",
        "engine": "sa",
        "level_claimed": {
            "category": "other",
            "text": "Static rule instances decided from /repo's source on every run (no code executed): each instance is a construct, call site, "
                    "CFG path or folded configuration row that the rule is obliged to check; a violation names file, line, rule and chain. "
                    "Decides: " + mod.DECIDES + " Does not decide: " + mod.DOES_NOT_DECIDE + ". This is the right level because these clauses are "
                    "facts about every path / every argument / every table row, which sampling cannot reach and which need no run.",
            "design_ref": f"DESIGN.md section 4 ({pid}) and Appendix A",
        },
        "level_note": "Trusted: CPython ast / re._parser; the external summary tables (stdlib behaviour); the frozen discharge tables in "
                      "sa/tables.py (each entry with its reason and a side condition re-verified on every run); resolva as pinned in /venv; "
                      "spil.conf imported before any path configuration module. Not a proof of the behavioural statement: the undecided "
                      "clauses are listed in the evidence (does_not_decide).",
        "technique": "static analysis: repo-specific AST rules over a resolved call graph, per-function CFG (dominators, must-pass-through), "
                     "def-use / alias data flow, exception-escape analysis, and constant folding of the configuration modules",
    })
man = {
    "version": 1,
    "setup_cmd": "/venv/bin/python -m compileall -q /verif/sa",
    "hooks": {
        "guard": "MICHAELHAUSSMANN_SPIL_VERIF",
        "enable": "nothing to enable: the checks read /repo's sources and never run them; no instrumentation was added to /repo",
        "baseline_off_cmd": "cd /repo && /venv/bin/python -m pytest -ra -q -p no:cacheprovider --timeout=900 --continue-on-collection-errors",
        "source_commits": [],
        "add_only": True,
    },
    "engines": [{
        "name": "sa", "path": "/verif/sa",
        "serves_properties": [c["property_id"] for c in checks],
        "kind_free_text": "custom static analyser (stdlib only, /venv/bin/python): program model with the conf-loader and Sid-factory "
                          "indirections resolved, call graph, statement CFG, reaching definitions / aliasing, exception effects, constant folder "
                          "for the configuration modules, template algebra with re._parser; rule catalogue in sa/rules; self-test bank of "
                          "AST-edited variants in sa/selftest.py (thorough tier)",
    }],
    "checks": checks,
    "notes": "Every check prints OK / KNOWN-FINDING / VIOLATION / ANALYSIS-ERROR lines; exit 2 (ANALYSIS-ERROR) means the analyser could not "
             "answer (vanished anchor, rule below its instance floor, unfoldable configuration value) and is never a verdict. Known findings: "
             "/verif/known_findings.json. Seeded changes used to test the checks: /verif/seeded (tools/run_seeds.py). fix: commits in /repo: "
             + "; ".join(l for l in fix_commits if " fix:" in l),
    "not_applicable": [{"property_id": k, "reason": v} for k, v in NOT_APPLICABLE.items()],
}
json.dump(man, open(os.path.join(VERIF, "MANIFEST.json"), "w"), indent=1)
print("checks:", len(checks), "not_applicable:", len(NOT_APPLICABLE))
