#!/venv/bin/python
"""usage: refresh_repaired.py [repaired|evolutions]
Re-runs all checks on every repaired commit (repaired/<id>) or well-formed configuration evolution (evolutions/<id>) and records in its meta.json which checks still report it
(conservative_alarm.checks / .rules) together with the hand-written reason from repaired/TRIAGE.json.  A reporting variant without a
triage entry is an untriaged false alarm: the tool fails."""
import json, os, subprocess, sys
V = os.path.dirname(os.path.dirname(os.path.abspath(__file__)))
BANK = sys.argv[1] if len(sys.argv) > 1 else "repaired"
tri = json.load(open(os.path.join(V, BANK, "TRIAGE.json")))
subprocess.run([os.path.join(V, "tools", "run_seeds.py"), "--dir", BANK], capture_output=True, text=True)
summ = json.load(open("/tmp/seed_summary.json"))
bad = 0
silent = 0
for k, v in sorted(summ.items()):
    mp = os.path.join(V, BANK, k, "meta.json")
    m = json.load(open(mp))
    if v["fired"]:
        if k not in tri:
            print(f"!! {BANK}/{k}: reported by {v['fired']} and not triaged")
            bad += 1
            continue
        m["conservative_alarm"] = {"checks": v["fired"], "rules": v.get("rules", []), "kind": tri[k]["kind"], "why": tri[k]["why"]}
    else:
        m.pop("conservative_alarm", None)
        silent += 1
        if k in tri:
            print(f"note: {BANK}/{k} is silent now; its TRIAGE.json entry is obsolete")
    json.dump(m, open(mp, "w"), indent=1)
print(f"{BANK}: {len(summ)} commits, {silent} silent, {len(summ) - silent - bad} with a documented alarm, {bad} untriaged")
sys.exit(1 if bad else 0)
