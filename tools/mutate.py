#!/venv/bin/python
"""Mutation sweep over /repo (development aid, not a registered check): syntactic mutants of the anchored modules are
generated from the AST, each is applied to a scratch copy, all twenty quick checks are run on it (one process,
sa.allprops) and, when no check fires, the pinned suite is run as well.  Output: /tmp/mutants.json and a summary.
A mutant that keeps the suite green and that no check reports is either equivalent or a blind spot: triage by hand.

usage: mutate.py [--jobs N] [--limit N] [--ops OP,OP] [--files glob]"""
import argparse, ast, fnmatch, json, os, random, shutil, subprocess, sys, tempfile
from concurrent.futures import ThreadPoolExecutor

REPO = "/repo"
V = os.path.dirname(os.path.dirname(os.path.abspath(__file__)))
FILES = ["spil/sid/sid.py", "spil/sid/core/*.py", "spil/sid/read/*.py", "spil/sid/read/finders/find_all.py", "spil/sid/read/finders/find_glob.py",
         "spil/sid/read/finders/find_list.py", "spil/sid/read/finders/find_constants.py", "spil/sid/read/getters/*.py", "spil/sid/read/unfolders/*.py",
         "spil/sid/pathops/*.py", "spil/sid/write/*.py", "spil/conf/util.py", "spil/conf/sid_conf_load.py", "spil/conf/data_conf_load.py",
         "spil/util/caching.py", "spil_hamlet_conf/spil_sid_conf.py", "spil_hamlet_conf/spil_fs_conf.py", "spil_hamlet_conf/spil_fs_server_conf.py",
         "spil_hamlet_conf/spil_data_conf.py", "spil_hamlet_conf/hamlet_plugins/next_get.py"]


sys.path.insert(0, V)
from sa.mutgen import Edit, gen_edits, apply_edit  # noqa: E402


def work(args):
    k, rel, e, wdir = args
    path = os.path.join(wdir, rel)
    orig = open(os.path.join(REPO, rel)).read()
    rec = {"id": k, "file": rel, "line": e.node.lineno, "op": e.op, "what": e.what, "func": getattr(e, "func", "")}
    try:
        mutated = apply_edit(orig, e)
        try:
            compile(mutated, rel, "exec")
        except SyntaxError as se:
            rec["status"] = "syntax"
            return rec
        open(path, "w").write(mutated)
        r = subprocess.run(["/venv/bin/python", "-m", "sa.allprops", "--repo", wdir], cwd=V, capture_output=True, text=True, timeout=300)
        try:
            res = json.loads(r.stdout.strip().splitlines()[-1])
        except Exception:
            res = {"error": r.stderr[-300:]}
        rec["fired"] = sorted(p for p, v in res.items() if isinstance(v, dict) and v.get("verdict") == "fire")
        rec["errors"] = sorted(p for p, v in res.items() if isinstance(v, dict) and v.get("verdict") == "error")
        rec["rules"] = sorted({x for v in res.values() if isinstance(v, dict) for x in v.get("rules", [])})
        if not rec["fired"]:
            b = subprocess.run([os.path.join(V, "tools", "baseline.sh"), wdir], capture_output=True, text=True, timeout=900)
            rec["baseline"] = (b.stdout.strip().splitlines() or ["?"])[0]
            rec["tests_green"] = "stable_missing 0" in rec["baseline"]
        rec["status"] = "done"
    except Exception as ex:
        rec["status"] = f"crash {type(ex).__name__}: {ex}"
    finally:
        open(path, "w").write(orig)
    return rec


def main():
    ap = argparse.ArgumentParser()
    ap.add_argument("--jobs", type=int, default=10)
    ap.add_argument("--limit", type=int, default=0)
    ap.add_argument("--ops", default="")
    ap.add_argument("--files", default="")
    ap.add_argument("--seed", type=int, default=1)
    ap.add_argument("--out", default="/tmp/mutants.json")
    ap.add_argument("--reference", action="store_true", help="write sa/mutant_reference.json (the caught mutants, by key) from this sweep")
    a = ap.parse_args()
    import glob
    rels = []
    for pat in ([a.files] if a.files else FILES):
        rels += [os.path.relpath(p, REPO) for p in sorted(glob.glob(os.path.join(REPO, pat)))]
    rels = [r for r in dict.fromkeys(rels) if "find_cache" not in r and "__init__" not in r]
    todo = []
    for rel in rels:
        src = open(os.path.join(REPO, rel)).read()
        for e in gen_edits(rel, src):
            if a.ops and e.op not in a.ops.split(","):
                continue
            todo.append((rel, e))
    random.Random(a.seed).shuffle(todo)
    if a.limit:
        todo = todo[:a.limit]
    print(f"{len(todo)} mutants over {len(rels)} files", flush=True)
    base = tempfile.mkdtemp(prefix="mut_", dir="/tmp")
    wdirs = []
    for j in range(a.jobs):
        d = os.path.join(base, f"w{j}")
        subprocess.run(["rsync", "-a", "--exclude", ".git", "--exclude", "__pycache__", REPO + "/", d + "/"], check=True)
        wdirs.append(d)
    # a worker directory is used by one mutant at a time: partition the list
    chunks = [[] for _ in wdirs]
    for i, (rel, e) in enumerate(todo):
        chunks[i % len(wdirs)].append((i, rel, e, wdirs[i % len(wdirs)]))
    out = []

    def run_chunk(ch):
        res = []
        for job in ch:
            res.append(work(job))
        return res

    with ThreadPoolExecutor(max_workers=len(wdirs)) as ex:
        for res in ex.map(run_chunk, chunks):
            out += res
    shutil.rmtree(base, ignore_errors=True)
    out.sort(key=lambda r: r["id"])
    json.dump(out, open(a.out, "w"), indent=1)
    done = [r for r in out if r.get("status") == "done"]
    caught = [r for r in done if r["fired"]]
    green_uncaught = [r for r in done if not r["fired"] and r.get("tests_green")]
    red_uncaught = [r for r in done if not r["fired"] and not r.get("tests_green")]
    print(f"mutants {len(out)}  evaluated {len(done)}  caught by a check {len(caught)}  uncaught+tests green {len(green_uncaught)}  "
          f"uncaught+tests red {len(red_uncaught)}")
    if a.reference:
        keys = {}
        for r in caught:
            k = (r["file"], r["func"], r["op"], r["what"])
            keys.setdefault(k, r)
        # a key that names two different edits of one function cannot be re-created unambiguously: leave those out
        dup = {}
        for r in done:
            k = (r["file"], r["func"], r["op"], r["what"])
            dup[k] = dup.get(k, 0) + 1
        ref = [{"file": k[0], "func": k[1], "op": k[2], "what": k[3], "fired": r["fired"]} for k, r in sorted(keys.items()) if dup[k] == 1]
        head = subprocess.run(["git", "-C", REPO, "rev-parse", "--short", "HEAD"], capture_output=True, text=True).stdout.strip()
        json.dump({"repo_head": head, "sweep": {"mutants": len(out), "caught": len(caught), "survivors_tests_green": len(green_uncaught),
                                                 "uncaught_tests_red": len(red_uncaught)}, "mutants": ref},
                  open(os.path.join(V, "sa", "mutant_reference.json"), "w"), indent=0)
        print(f"reference: {len(ref)} caught mutants with an unambiguous key")
    for r in green_uncaught:
        print(f"  SURVIVOR {r['file']}:{r['line']} {r['op']}: {r['what']}")


if __name__ == "__main__":
    main()
