#!/venv/bin/python
"""harvest_seeds.py <round> <first new index> <prop ids...>: confirm the seeds a sub-agent left in /tmp/wt/<P>/_out/mutN
(tools/verify_seed.sh: patch applies, pinned baseline keeps every stable test, demo exits 0 clean and 1 with the patch) and
copy the confirmed ones to /verif/seeded/<P>-<index>/ with a meta.json.  Run one property per process to parallelise."""
import json, os, re, shutil, subprocess, sys
V = os.path.dirname(os.path.dirname(os.path.abspath(__file__)))
rnd, first = int(sys.argv[1]), int(sys.argv[2])
head = subprocess.run(["git", "-C", "/repo", "rev-parse", "--short", "HEAD"], capture_output=True, text=True).stdout.strip()
ASKED = {6: "one change; preferably two cooperating sites that each look fine alone, or a multi-step sequence / unusual input / configuration value",
         3: "asked to hide the regression in a refactoring",
         5: "mut1 error handling / defensive code, mut2 the way a dependency, builtin or stdlib call is used, mut3 data- or configuration-shaped",
         4: "mut1 a restructuring that looks behaviour-preserving, mut2 added code, mut3 an interaction of two sites / calls / configuration"}
for P in sys.argv[3:]:
    wt = f"/tmp/wt/{P}"
    stash = f"/tmp/h{rnd}_{P}"
    if os.path.isdir(os.path.join(wt, "_out")):
        shutil.rmtree(stash, ignore_errors=True)
        shutil.copytree(os.path.join(wt, "_out"), stash)
    for n in (1, 2, 3):
        sd = os.path.join(stash, f"mut{n}")
        if not (os.path.exists(os.path.join(sd, "patch.diff")) and os.path.exists(os.path.join(sd, "demo.py"))):
            print(f"{P} mut{n}: not delivered")
            continue
        sid = f"{P}-{first + n - 1}"
        r = subprocess.run([os.path.join(V, "tools", "verify_seed.sh"), wt, sd, sid], capture_output=True, text=True)
        line = [l for l in r.stdout.splitlines() if l.startswith("RESULT")]
        line = line[-1] if line else "RESULT ?"
        m = re.search(r"apply=(\w+)(?: clean_demo_exit=(\d+) mutant_demo_exit=(\d+) baseline=\[(.*)\])?", line)
        ok = bool(m) and m.group(1) == "ok" and m.group(2) == "0" and m.group(3) == "1" and "stable_missing 0" in (m.group(4) or "")
        print(f"{sid}: {'CONFIRMED' if ok else 'REJECTED'}  {line}")
        if not ok:
            continue
        try:
            meta = json.load(open(os.path.join(sd, "meta.json")))
        except Exception:
            meta = {}
        dst = os.path.join(V, "seeded", sid)
        os.makedirs(dst, exist_ok=True)
        shutil.copy(os.path.join(sd, "patch.diff"), dst)
        shutil.copy(os.path.join(sd, "demo.py"), dst)
        out = {"id": sid, "property": P, "round": rnd, "summary": meta.get("summary", ""), "needs_to_manifest": meta.get("needs_to_manifest", ""),
               "files_touched": meta.get("files_touched", []),
               "origin": f"fresh sub-agent (round {rnd}: {ASKED.get(rnd, 'free choice')}) given only the property text and a scratch "
                         f"worktree of /repo at {head}; nothing from /verif",
               "confirmed": {"base_commit": head, "patch_applies": True, "baseline_with_patch": m.group(4), "demo_exit_clean": 0,
                             "demo_exit_with_patch": 1, "how": "tools/verify_seed.sh <worktree> <seed dir> <id>"}}
        json.dump(out, open(os.path.join(dst, "meta.json"), "w"), indent=1)
