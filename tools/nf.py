#!/venv/bin/python
"""nf.py <repo dir> <function qualname>: print the normal form of a function (debug aid)"""
import ast, sys, warnings
sys.path.insert(0, "/verif")
warnings.simplefilter("ignore")
from sa.context import Ctx
ctx = Ctx(sys.argv[1])
print("normal form:", {k: v for k, v in ctx.normal_form.items() if k != "callers"})
for q in sys.argv[2:]:
    f = ctx.p.functions.get(q)
    print(ast.unparse(f.node) if f else f"{q}: not found")
