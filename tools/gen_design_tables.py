#!/venv/bin/python
"""Regenerates the seed table of DESIGN.md from seeded/*/meta.json."""
import json, os, re
V = os.path.dirname(os.path.dirname(os.path.abspath(__file__)))
rows = ["| seed | change (needs to manifest) | checks that fire |", "|---|---|---|"]
n = own = 0
for d in sorted(os.listdir(os.path.join(V, "seeded"))):
    m = json.load(open(os.path.join(V, "seeded", d, "meta.json")))
    s = " ".join((m.get("summary") or "").split())
    need = " ".join((m.get("needs_to_manifest") or "").split())
    txt = (s[:170] + ("…" if len(s) > 170 else "")) + (" — *" + need[:110] + ("…" if len(need) > 110 else "") + "*" if need else "")
    txt = txt.replace("|", "\\|")
    fired = m.get("expected_checks", [])
    n += 1
    own += 1 if m.get("property") in fired else 0
    rows.append(f"| {d} | {txt} | {', '.join(fired) or '**missed**'} |")
neutral = sorted(os.listdir(os.path.join(V, "seeded_neutralised"))) if os.path.isdir(os.path.join(V, "seeded_neutralised")) else []
benign = len(os.listdir(os.path.join(V, "benign"))) if os.path.isdir(os.path.join(V, "benign")) else 0
head = (f"{n} confirmed seeded changes; {sum(1 for r in rows[2:] if '**missed**' not in r)} are caught by at least one check, "
        f"{own} by the check of the very property they were written against. Neutralised (must stay silent): {', '.join(neutral) or 'none'}. "
        f"Behaviour-preserving refactorings that must stay silent: {benign}.\n\n")
p = os.path.join(V, "DESIGN.md")
s = open(p).read()
_new = "<!-- SEED-TABLE-BEGIN -->\n" + head + "\n".join(rows) + "\n<!-- SEED-TABLE-END -->"
s = re.sub(r"<!-- SEED-TABLE-BEGIN -->.*<!-- SEED-TABLE-END -->", lambda m: _new, s, flags=re.S)
# ---- rules per property, from sa/props/cNN.py and the RuleResult names in sa/rules/*.py
import ast as _ast, glob as _glob
rule_names = {}
for fn in _glob.glob(os.path.join(V, "sa", "rules", "*.py")):
    mod = os.path.basename(fn)[:-3]
    tree = _ast.parse(open(fn).read())
    for f in tree.body:
        if isinstance(f, _ast.FunctionDef):
            for x in _ast.walk(f):
                if isinstance(x, _ast.Call) and getattr(x.func, "id", "") == "RuleResult" and x.args and isinstance(x.args[0], _ast.Constant):
                    rule_names.setdefault(f"{mod}.{f.name}", x.args[0].value)
                    break
trows = ["| property | rules (entry of R-EXC in brackets; several functions may report under one rule name) |", "|---|---|"]
for i in range(1, 21):
    src = open(os.path.join(V, "sa", "props", f"c{i:02d}.py")).read()
    names = []
    for m_ in re.finditer(r"lambda: (\w+)\.(\w+)\(ctx(?:, '([^']*)')?\)", src):
        mod, fn, arg = m_.groups()
        nm = f"R-EXC[{arg}]" if (mod, fn) == ("exc", "run") else rule_names.get(f"{mod}.{fn}", f"{mod}.{fn}")
        if fn == "rule_fwd_assid":
            nm = "R-FWD(as_sid)"
        elif fn == "rule_fwd_chain":
            nm = "R-FWD(chains)"
        elif fn == "rule_fwd_config":
            nm = "R-FWD(config)"
        if nm not in names:
            names.append(nm)
    trows.append(f"| C{i:02d} | {' '.join(names)} |")
_t = "<!-- RULE-TABLE-BEGIN -->\n" + "\n".join(trows) + "\n<!-- RULE-TABLE-END -->"
if "<!-- RULE-TABLE-BEGIN -->" in s:
    s = re.sub(r"<!-- RULE-TABLE-BEGIN -->.*<!-- RULE-TABLE-END -->", lambda m: _t, s, flags=re.S)
else:
    s = re.sub(r"\| property \| rules \(entry of R-EXC in brackets\) \|\n\|---\|---\|\n(\| C\d\d \|.*\n)+", lambda m: _t + "\n", s)
open(p, "w").write(s)
print(n, "seeds;", own, "caught by own property")
