#!/venv/bin/python
"""Regenerates the seed table of DESIGN.md from seeded/*/meta.json."""
import json, os, re
V = os.path.dirname(os.path.dirname(os.path.abspath(__file__)))
rows = ["| seed | change (needs to manifest) | checks that fire |", "|---|---|---|"]
n = own = 0
for d in sorted(os.listdir(os.path.join(V, "seeded"))):
    m = json.load(open(os.path.join(V, "seeded", d, "meta.json")))
    s = " ".join((m.get("summary") or "").split())
    need = " ".join((m.get("needs_to_manifest") or "").split())
    txt = (s[:170] + ("…" if len(s) > 170 else "")) + (" — *" + need[:110] + ("…" if len(need) > 110 else "") + "*" if need else "")
    txt = txt.replace("|", "\\|")
    fired = m.get("expected_checks", [])
    n += 1
    own += 1 if m.get("property") in fired else 0
    rows.append(f"| {d} | {txt} | {', '.join(fired) or '**missed**'} |")
neutral = sorted(os.listdir(os.path.join(V, "seeded_neutralised"))) if os.path.isdir(os.path.join(V, "seeded_neutralised")) else []
benign = len(os.listdir(os.path.join(V, "benign"))) if os.path.isdir(os.path.join(V, "benign")) else 0
head = (f"{n} confirmed seeded changes; {sum(1 for r in rows[2:] if '**missed**' not in r)} are caught by at least one check, "
        f"{own} by the check of the very property they were written against. Neutralised (must stay silent): {', '.join(neutral) or 'none'}. "
        f"Behaviour-preserving refactorings that must stay silent: {benign}.\n\n")
p = os.path.join(V, "DESIGN.md")
s = open(p).read()
_new = "<!-- SEED-TABLE-BEGIN -->\n" + head + "\n".join(rows) + "\n<!-- SEED-TABLE-END -->"
s = re.sub(r"<!-- SEED-TABLE-BEGIN -->.*<!-- SEED-TABLE-END -->", lambda m: _new, s, flags=re.S)
open(p, "w").write(s)
print(n, "seeds;", own, "caught by own property")
