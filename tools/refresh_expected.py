#!/venv/bin/python
"""Re-runs all checks on every variant of seeded/ and seeded_fixes/ and records in each meta.json which
checks fire (expected_checks).  Refuses to drop the variant's own property from the list."""
import json, os, subprocess, sys
V = os.path.dirname(os.path.dirname(os.path.abspath(__file__)))
bad = 0
for d in ("seeded", "seeded_fixes"):
    subprocess.run([os.path.join(V, "tools", "run_seeds.py"), "--dir", d], capture_output=True, text=True)
    summ = json.load(open("/tmp/seed_summary.json"))
    for k, v in summ.items():
        mp = os.path.join(V, d, k, "meta.json")
        m = json.load(open(mp))
        own = m.get("property")
        if own and own not in v["fired"]:
            print(f"!! {d}/{k}: own property {own} no longer fires (fired: {v['fired']})")
            bad += 1
        if not v["fired"]:
            print(f"!! {d}/{k}: nothing fires")
            bad += 1
        m["expected_checks"] = v["fired"]
        json.dump(m, open(mp, "w"), indent=1)
print("refreshed;", bad, "problems")
sys.exit(1 if bad else 0)
