#!/bin/bash
# tv.sh <bank>/<id> <prop> [extra args]: apply a variant to a scratch copy of /repo's python sources and run one check on it.
# Leaves the copy in /tmp/tv_<id> (remove with rm -rf /tmp/tv_*).
V=/verif; id=$(basename $1); d=/tmp/tv_$id
rm -rf $d; mkdir -p $d
rsync -a --include='*/' --include='*.py' --exclude='*' --exclude='data/' --prune-empty-dirs /repo/spil /repo/spil_hamlet_conf /repo/spil_plugins $d/
(cd $d && (git apply --unsafe-paths --directory $d $V/$1/patch.diff 2>/dev/null || patch -p1 -s -i $V/$1/patch.diff)) || echo "PATCH FAILED"
shift; p=$1; shift
cd $V && /venv/bin/python -m sa.check $p --repo $d --no-evidence "$@" 2>&1 | grep -v "Warning\|^  \"\"\"" | cut -c1-400
