#!/bin/bash
# usage: verify_seed.sh <worktree> <seed dir containing patch.diff demo.py> <name>
# Confirms: patch applies on the clean tree; pinned baseline keeps every stable test; the demo passes on the
# clean tree and fails with the patch.  Prints one RESULT line.  Leaves the worktree clean.
# The demo is run from <worktree>/_out/mut1/demo.py (the layout the seeds were written in).
WT=$1; SD=$(realpath $2); NAME=$3
cd $WT || exit 2
git checkout -q -- . 2>/dev/null
rm -rf $WT/_out; mkdir -p $WT/_out/mut1; cp $SD/demo.py $SD/patch.diff $WT/_out/mut1/; touch $WT/_out/__init__.py $WT/_out/mut1/__init__.py
D=$WT/_out/mut1
clean_demo=$(cd $WT && PYTHONPATH=$WT timeout 300 /venv/bin/python $D/demo.py >/dev/null 2>&1; echo $?)
if ! git apply --check $D/patch.diff 2>/dev/null; then echo "RESULT $NAME apply=FAIL"; rm -rf $WT/_out; exit 0; fi
git apply $D/patch.diff
mv $WT/_out /tmp/_out_hidden_$$
base=$(/verif/tools/baseline.sh $WT 2>/dev/null | head -1)
mv /tmp/_out_hidden_$$ $WT/_out
mut_demo=$(cd $WT && PYTHONPATH=$WT timeout 300 /venv/bin/python $D/demo.py >/dev/null 2>&1; echo $?)
git checkout -q -- .
rm -rf $WT/_out
echo "RESULT $NAME apply=ok clean_demo_exit=$clean_demo mutant_demo_exit=$mut_demo baseline=[$base]"
