#!/bin/bash
# usage: verify_seed.sh <worktree> <seed dir containing patch.diff demo.py> <name>
# Confirms: patch applies on the clean tree; pinned baseline keeps every stable test; the demo passes on the
# clean tree and fails with the patch.  Prints one RESULT line.  Leaves the worktree clean.
WT=$1; SD=$(realpath $2); NAME=$3
cd $WT || exit 2
git checkout -q -- . 2>/dev/null
clean_demo=$(cd $WT && PYTHONPATH=$WT timeout 300 /venv/bin/python $SD/demo.py >/dev/null 2>&1; echo $?)
if ! git apply --check $SD/patch.diff 2>/dev/null; then echo "RESULT $NAME apply=FAIL"; exit 0; fi
git apply $SD/patch.diff
HID=""
case $SD in $WT/*) HID=$WT/_out; mv $WT/_out /tmp/_out_hidden_$$ ;; esac
base=$(/verif/tools/baseline.sh $WT 2>/dev/null | head -1)
[ -n "$HID" ] && mv /tmp/_out_hidden_$$ $WT/_out
mut_demo=$(cd $WT && PYTHONPATH=$WT timeout 300 /venv/bin/python $SD/demo.py >/dev/null 2>&1; echo $?)
git checkout -q -- .
echo "RESULT $NAME apply=ok clean_demo_exit=$clean_demo mutant_demo_exit=$mut_demo baseline=[$base]"
