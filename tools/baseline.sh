#!/bin/bash
# Runs the pinned baseline suite of /repo (or $1) and compares with BASELINE.json stable_pass.
R=${1:-/repo}
OUT=$(mktemp /tmp/junit.XXXXXX.xml)
cd "$R" && /venv/bin/python -m pytest -ra -q -p no:cacheprovider --timeout=900 --continue-on-collection-errors --junitxml=$OUT >/tmp/baseline.log 2>&1
/venv/bin/python - "$OUT" <<'PY'
import sys,json,xml.etree.ElementTree as ET
base=json.load(open('/root/.vp/BASELINE.json'))
want=set(base['stable_pass'])
t=ET.parse(sys.argv[1])
passed=set();failed=set()
for tc in t.iter('testcase'):
    name=tc.get('classname')+'::'+tc.get('name')
    bad=any(c.tag in('failure','error') for c in tc)
    skipped=any(c.tag=='skipped' for c in tc)
    (failed if bad else passed).add(name) if not skipped else None
missing=sorted(want-passed)
print('passed',len(passed),'failed',len(failed),'stable_missing',len(missing))
for m in missing: print('  MISSING',m)
for f in sorted(failed): print('  failed',f)
sys.exit(1 if missing else 0)
PY
rc=$?
rm -f $OUT
exit $rc
