#!/venv/bin/python
"""Copies behaviour-preserving refactorings produced by sub-agents (/tmp/wt/out_<id>/refN/{patch.diff,note.json})
into /verif/benign/<id>-refN/ after checking that the patch applies to the current /repo python sources."""
import json, os, shutil, subprocess, sys, tempfile
V = os.path.dirname(os.path.dirname(os.path.abspath(__file__)))
for aid in sys.argv[1:]:
    base = f"/tmp/wt/out_{aid}"
    for r in sorted(os.listdir(base)) if os.path.isdir(base) else []:
        pp = os.path.join(base, r, "patch.diff")
        if not os.path.exists(pp) or os.path.getsize(pp) == 0:
            continue
        note = {}
        try:
            note = json.load(open(os.path.join(base, r, "note.json")))
        except Exception as e:
            note = {"summary": f"(note unreadable: {e})"}
        chk = subprocess.run(["git", "-C", "/repo", "apply", "--check", pp], capture_output=True, text=True)
        dst = os.path.join(V, "benign", f"{aid}-{r}")
        os.makedirs(dst, exist_ok=True)
        shutil.copy(pp, os.path.join(dst, "patch.diff"))
        note.update({"id": f"{aid}-{r}", "kind": "behaviour-preserving refactoring", "round": int(os.environ.get("BENIGN_ROUND", "2")),
                     "applies_to_head": chk.returncode == 0,
                     "origin": "fresh sub-agent given only the target files and a scratch worktree of /repo at 338ea40; nothing from /verif"})
        json.dump(note, open(os.path.join(dst, "meta.json"), "w"), indent=1)
        print(aid, r, "applies" if chk.returncode == 0 else "DOES NOT APPLY: " + chk.stderr.strip()[:100], "|", note.get("baseline"))
