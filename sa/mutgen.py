"""Syntactic mutants of a module, computed from its AST (used by tools/mutate.py and by the thorough tier's detection
regression, sa/mutref.py).  An edit replaces the source text of one node."""
import ast


def seg(src_lines, node):
    return ast.get_source_segment("".join(src_lines), node)


class Edit:
    def __init__(self, op, node, new_text, what):
        self.op, self.node, self.new, self.what = op, node, new_text, what
        self.func = ""


def in_main_guard(tree):
    spans = []
    for st in tree.body:
        if isinstance(st, ast.If) and isinstance(st.test, ast.Compare) and isinstance(st.test.left, ast.Name) and st.test.left.id == "__name__":
            spans.append((st.lineno, st.end_lineno))
    return spans


def gen_edits(path, src):
    tree = ast.parse(src)
    skip = in_main_guard(tree)
    edits = []
    parents = {}
    for n in ast.walk(tree):
        for c in ast.iter_child_nodes(n):
            parents[id(c)] = n

    def inside_func(n):
        p = n
        while p is not None:
            if isinstance(p, (ast.FunctionDef,)):
                return True
            p = parents.get(id(p))
        return False

    def text(n):
        return ast.get_source_segment(src, n)

    for n in ast.walk(tree):
        ln = getattr(n, "lineno", None)
        if ln is None or any(a <= ln <= b for a, b in skip):
            continue
        if isinstance(n, ast.Expr) and isinstance(n.value, ast.Constant):
            continue
        # docstrings / doctest text are Constant nodes: never touched (we only edit code nodes below)
        if isinstance(n, ast.Call):
            f = n.func
            if isinstance(f, ast.Attribute) and f.attr == "copy" and not n.args:
                edits.append(Edit("COPY-DROP", n, text(f.value), f"{text(n)} -> {text(f.value)}"))
            if isinstance(f, ast.Name) and f.id in ("dict", "list", "OrderedDict") and len(n.args) == 1 and not n.keywords \
                    and isinstance(n.args[0], (ast.Name, ast.Attribute)):
                edits.append(Edit("COPY-DROP", n, text(n.args[0]), f"{text(n)} -> {text(n.args[0])}"))
            if isinstance(f, ast.Name) and f.id == "sorted" and n.args:
                edits.append(Edit("SORT-DROP", n, f"list({text(n.args[0])})", f"{text(n)[:60]} -> list(..)"))
            for kw in n.keywords:
                if kw.arg and inside_func(n) and isinstance(kw.value, (ast.Name, ast.Attribute)) and len(n.keywords) + len(n.args) > 1:
                    # drop one forwarded keyword argument
                    parts = [text(a) for a in n.args] + [f"{k.arg}={text(k.value)}" if k.arg else f"**{text(k.value)}" for k in n.keywords if k is not kw]
                    edits.append(Edit("KW-DROP", n, f"{text(f)}({', '.join(parts)})", f"{text(n)[:70]} without {kw.arg}="))
        if isinstance(n, ast.If) and inside_func(n):
            body_kinds = [type(s).__name__ for s in n.body]
            exits = all(k in ("Return", "Continue", "Raise", "Break", "Expr") for k in body_kinds) and any(
                k in ("Return", "Continue", "Raise", "Break") for k in body_kinds)
            par = parents.get(id(n))
            is_elif = isinstance(par, ast.If) and par.orelse == [n]
            if exits and not n.orelse and not is_elif:
                edits.append(Edit("GUARD-DROP", n, "pass", f"drop `if {text(n.test)[:60]}: {body_kinds[-1].lower()}`"))
            edits.append(Edit("COND-NEG", n.test, f"(not ({text(n.test)}))", f"negate `{text(n.test)[:60]}`"))
        if isinstance(n, ast.Try) and n.handlers and not n.finalbody and not n.orelse and inside_func(n):
            # keep the body only (dedented by replacing `try:` block with `if True:`)
            body_src = "\n".join(src.splitlines()[n.body[0].lineno - 1:n.body[-1].end_lineno])
            indent = " " * n.col_offset
            edits.append(Edit("TRY-DROP", n, "if True:\n" + body_src, f"drop try/except around line {n.lineno}"))
        if isinstance(n, ast.Compare) and len(n.ops) == 1 and inside_func(n):
            op = n.ops[0]
            swap = {ast.Eq: "!=", ast.NotEq: "==", ast.In: "not in", ast.NotIn: "in", ast.Lt: "<=", ast.LtE: "<", ast.Gt: ">=", ast.GtE: ">",
                    ast.Is: "is not", ast.IsNot: "is"}
            if type(op) in swap and not isinstance(parents.get(id(n)), ast.If):
                edits.append(Edit("CMP-SWAP", n, f"{text(n.left)} {swap[type(op)]} {text(n.comparators[0])}", f"`{text(n)[:60]}` -> {swap[type(op)]}"))
        if isinstance(n, ast.BoolOp) and inside_func(n) and len(n.values) == 2:
            other = " or " if isinstance(n.op, ast.And) else " and "
            edits.append(Edit("BOOL-SWAP", n, "(" + other.join(text(v) for v in n.values) + ")", f"`{text(n)[:60]}` -> {other.strip()}"))
        if isinstance(n, ast.Subscript) and inside_func(n) and isinstance(n.ctx, ast.Load) and not (
                isinstance(n.value, ast.Name) and n.value.id in ("Literal", "Optional", "List", "Dict", "Tuple", "Iterator", "Mapping", "Set", "Union",
                                                                 "Callable", "Iterable", "Type")):
            s = n.slice
            val = None
            if isinstance(s, ast.Constant) and isinstance(s.value, int):
                val = s.value
            elif isinstance(s, ast.UnaryOp) and isinstance(s.op, ast.USub) and isinstance(s.operand, ast.Constant) and isinstance(s.operand.value, int):
                val = -s.operand.value
            if val is not None:
                new = {0: -1, -1: 0, 1: 0, -2: -1}.get(val, val + 1)
                edits.append(Edit("IDX", n, f"{text(n.value)}[{new}]", f"`{text(n)[:50]}` index {val} -> {new}"))
            if isinstance(s, ast.Slice) and s.upper is not None and s.lower is None and s.step is None:
                edits.append(Edit("IDX", n, f"{text(n.value)}[:({text(s.upper)}) + 1]", f"`{text(n)[:50]}` upper bound + 1"))
        if isinstance(n, ast.Return) and isinstance(n.value, ast.BoolOp) and isinstance(n.value.op, ast.Or) and inside_func(n):
            edits.append(Edit("OR-DROP", n.value, text(n.value.values[0]), f"`{text(n)[:60]}` without the fallback"))
        if isinstance(n, ast.Constant) and isinstance(n.value, str) and n.value in ("/", "?", ":", ",", "~", ">", "*", "**", "/*", "/**", "__") and inside_func(n):
            par = parents.get(id(n))
            if isinstance(par, ast.Expr) or isinstance(par, ast.JoinedStr):
                continue
            repl = {"/": "|", "?": "&", ":": ";", ",": ";", "~": "!", ">": "<", "*": "?", "**": "*", "/*": "/", "/**": "/*", "__": "_"}[n.value]
            edits.append(Edit("STR", n, repr(repl), f"string {n.value!r} -> {repl!r} at line {n.lineno}"))
        if isinstance(n, ast.Expr) and isinstance(n.value, ast.Call) and isinstance(n.value.func, ast.Attribute) \
                and n.value.func.attr in ("append", "add", "update", "remove", "extend", "pop", "insert", "setdefault") and inside_func(n):
            edits.append(Edit("STMT-DROP", n, "pass", f"drop `{text(n)[:60]}`"))
    # the enclosing function of every edit (its key survives line shifts)
    def enclosing(n):
        names = []
        p = n
        while p is not None:
            if isinstance(p, (ast.FunctionDef, ast.ClassDef)):
                names.append(p.name)
            p = parents.get(id(p))
        return ".".join(reversed(names))

    for e in edits:
        e.func = enclosing(e.node)
    return edits


def apply_edit(src, e):
    lines = src.splitlines(keepends=True)
    n = e.node
    start = sum(len(l) for l in lines[:n.lineno - 1]) + len(lines[n.lineno - 1].encode()[:n.col_offset].decode())
    end = sum(len(l) for l in lines[:n.end_lineno - 1]) + len(lines[n.end_lineno - 1].encode()[:n.end_col_offset].decode())
    new = e.new
    if "\n" in new:
        # re-indent a multi-line replacement to the node's column
        ind = " " * n.col_offset
        first, *rest = new.split("\n")
        base = min((len(r) - len(r.lstrip()) for r in rest if r.strip()), default=0)
        rest = [ind + "    " + r[base:] if r.strip() else r for r in rest]
        new = "\n".join([first] + rest)
    return src[:start] + new + src[end:]


