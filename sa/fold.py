"""E6 - constant folding of the configuration modules (they are programs of literals).

A small evaluator over the module-level statements of the configuration modules, for a closed
expression subset.  It never imports or executes repository code; anything outside the subset
becomes ``Unknown`` and every rule that needs such a value reports analysis-broken (exit 2).

Aliasing is reproduced faithfully (dict.copy() is shallow, ``from m import name`` shares the
object), because the demo configuration relies on it.
"""
from __future__ import annotations

import ast
import copy
from typing import Any, Callable, Dict, List, Optional

from .program import AnalysisError, Module, Program, _is_main_guard


class Unknown:
    def __init__(self, why: str):
        self.why = why

    def __repr__(self):
        return f"Unknown({self.why})"


class Sym:
    """symbolic path value (the project root depends on the installation directory)"""

    def __init__(self, text: str):
        self.text = text

    def __truediv__(self, other):
        return Sym(self.text + "/" + str(other))

    def __repr__(self):
        return f"Sym({self.text})"

    def __eq__(self, other):
        return isinstance(other, Sym) and other.text == self.text

    def __hash__(self):
        return hash(self.text)


class Ref:
    """a function / class / module defined or imported by the configuration (opaque)"""

    def __init__(self, kind: str, name: str, node: Optional[ast.AST] = None):
        self.kind, self.name, self.node = kind, name, node

    def __repr__(self):
        return f"Ref({self.kind}:{self.name})"


def is_unknown(v: Any) -> bool:
    if isinstance(v, Unknown):
        return True
    if isinstance(v, dict):
        return any(is_unknown(k) or is_unknown(x) for k, x in v.items())
    if isinstance(v, (list, tuple, set)):
        return any(is_unknown(x) for x in v)
    return False


class _Return(Exception):
    def __init__(self, value):
        self.value = value


class Folder:
    def __init__(self, program: Program, hooks: Optional[Dict[str, Callable[[Dict[str, Any]], None]]] = None):
        self.p = program
        self.envs: Dict[str, Dict[str, Any]] = {}
        self.hooks = hooks or {}
        self._stack: List[str] = []
        self.unknowns: List[str] = []

    # ------------------------------------------------------------------ modules
    def module_env(self, name: str) -> Dict[str, Any]:
        if name in self.envs:
            return self.envs[name]
        m = self.p.modules.get(name)
        if m is None:
            raise AnalysisError(f"configuration module not found: {name}")
        env: Dict[str, Any] = {"__file__": Sym("$REPO/" + m.relpath.replace("\\", "/")), "__name__": name}
        self.envs[name] = env
        self._stack.append(name)
        try:
            self._exec_block(m, m.tree.body, env)
        finally:
            self._stack.pop()
        if name in self.hooks:
            self.hooks[name](env)
        return env

    def _exec_block(self, m: Module, body: List[ast.stmt], env: Dict[str, Any]):
        for st in body:
            self._exec(m, st, env)

    def _exec(self, m: Module, st: ast.stmt, env: Dict[str, Any]):
        if _is_main_guard(st):
            return
        if isinstance(st, ast.Expr):
            if isinstance(st.value, ast.Constant):
                return
            self.eval(m, st.value, env)  # for side effects (x.update(...))
            return
        if isinstance(st, ast.Assign):
            val = self.eval(m, st.value, env)
            for t in st.targets:
                self._assign(m, t, val, env)
            return
        if isinstance(st, ast.AnnAssign):
            if st.value is not None:
                self._assign(m, st.target, self.eval(m, st.value, env), env)
            return
        if isinstance(st, ast.AugAssign):
            cur = self.eval(m, st.target, env)
            val = self.eval(m, st.value, env)
            try:
                if isinstance(st.op, ast.Add):
                    if isinstance(cur, list):
                        cur.extend(val)
                        new = cur
                    else:
                        new = cur + val
                else:
                    new = Unknown("augassign op")
            except Exception:
                new = Unknown("augassign")
            self._assign(m, st.target, new, env)
            return
        if isinstance(st, ast.ImportFrom):
            modname = st.module or ""
            for a in st.names:
                if modname in self.p.modules and self.p.modules[modname].kind == "config":
                    src = self.module_env(modname)
                    if a.name == "*":
                        for k, v in src.items():
                            if not k.startswith("_"):
                                env[k] = v
                    else:
                        env[a.asname or a.name] = src.get(a.name, Unknown(f"{modname}.{a.name} undefined"))
                elif modname == "pathlib" and a.name == "Path":
                    env[a.asname or a.name] = Ref("builtin", "Path")
                elif modname == "collections" and a.name == "OrderedDict":
                    env[a.asname or a.name] = Ref("builtin", "OrderedDict")
                elif a.name == "*":
                    pass
                else:
                    env[a.asname or a.name] = Ref("import", f"{modname}.{a.name}")
            return
        if isinstance(st, ast.Import):
            for a in st.names:
                env[(a.asname or a.name).split(".")[0]] = Ref("module", a.name)
            return
        if isinstance(st, (ast.FunctionDef, ast.AsyncFunctionDef)):
            env[st.name] = Ref("function", st.name, st)
            return
        if isinstance(st, ast.ClassDef):
            env[st.name] = Ref("class", st.name, st)
            return
        if isinstance(st, ast.If):
            test = self.eval(m, st.test, env)
            if isinstance(test, Unknown):
                self.unknowns.append(f"{m.relpath}:{st.lineno} if-test {test.why}")
                return
            self._exec_block(m, st.body if test else st.orelse, env)
            return
        if isinstance(st, ast.For):
            it = self.eval(m, st.iter, env)
            if is_unknown(it) or not isinstance(it, (list, tuple, dict, set)):
                self.unknowns.append(f"{m.relpath}:{st.lineno} for over unknown")
                return
            for x in list(it):
                self._assign(m, st.target, x, env)
                self._exec_block(m, st.body, env)
            return
        if isinstance(st, ast.Try):
            self._exec_block(m, st.body, env)
            return
        if isinstance(st, ast.Return):
            raise _Return(self.eval(m, st.value, env) if st.value is not None else None)
        if isinstance(st, (ast.Pass,)):
            return
        if isinstance(st, ast.Delete):
            for t in st.targets:
                if isinstance(t, ast.Name):
                    env.pop(t.id, None)
            return
        self.unknowns.append(f"{m.relpath}:{getattr(st, 'lineno', 0)} statement {type(st).__name__}")

    def _assign(self, m: Module, t: ast.AST, val: Any, env: Dict[str, Any]):
        if isinstance(t, ast.Name):
            env[t.id] = val
        elif isinstance(t, (ast.Tuple, ast.List)):
            if isinstance(val, (list, tuple)) and len(val) == len(t.elts):
                for e, v in zip(t.elts, val):
                    self._assign(m, e, v, env)
            else:
                for e in t.elts:
                    self._assign(m, e, Unknown("unpack"), env)
        elif isinstance(t, ast.Subscript):
            obj = self.eval(m, t.value, env)
            key = self.eval(m, t.slice, env)
            if isinstance(obj, (dict, list)) and not isinstance(key, Unknown):
                try:
                    obj[key] = val
                except Exception:
                    self.unknowns.append(f"{m.relpath}:{t.lineno} subscript store")
            else:
                self.unknowns.append(f"{m.relpath}:{t.lineno} subscript store on unknown")
        elif isinstance(t, ast.Attribute):
            self.unknowns.append(f"{m.relpath}:{t.lineno} attribute store")

    # ------------------------------------------------------------------ expressions
    def eval(self, m: Module, e: ast.AST, env: Dict[str, Any]) -> Any:
        try:
            return self._eval(m, e, env)
        except AnalysisError:
            raise
        except Exception as ex:  # evaluation errors of the folded program are unknowns, not crashes
            return Unknown(f"{type(ex).__name__}: {ex}")

    def _eval(self, m: Module, e: ast.AST, env: Dict[str, Any]) -> Any:
        ev = lambda x: self._eval(m, x, env)
        if isinstance(e, ast.Constant):
            return e.value
        if isinstance(e, ast.Name):
            if e.id in env:
                return env[e.id]
            if e.id in ("True", "False", "None"):
                return {"True": True, "False": False, "None": None}[e.id]
            if e.id in ("list", "dict", "set", "tuple", "str", "len", "sorted", "int"):
                return Ref("builtin", e.id)
            return Unknown(f"name {e.id}")
        if isinstance(e, ast.List):
            return [ev(x) for x in e.elts]
        if isinstance(e, ast.Tuple):
            return tuple(ev(x) for x in e.elts)
        if isinstance(e, ast.Set):
            return set(ev(x) for x in e.elts)
        if isinstance(e, ast.Dict):
            out = {}
            for k, v in zip(e.keys, e.values):
                if k is None:
                    sub = ev(v)
                    if isinstance(sub, dict):
                        out.update(sub)
                    else:
                        return Unknown("dict unpack")
                else:
                    out[_hashable(ev(k))] = ev(v)
            return out
        if isinstance(e, ast.JoinedStr):
            parts = []
            for v in e.values:
                if isinstance(v, ast.Constant):
                    parts.append(str(v.value))
                elif isinstance(v, ast.FormattedValue):
                    x = ev(v.value)
                    if isinstance(x, (Unknown, Ref)):
                        return Unknown("f-string part")
                    parts.append(str(x.text if isinstance(x, Sym) else x))
            return "".join(parts)
        if isinstance(e, ast.BinOp):
            l, r = ev(e.left), ev(e.right)
            if isinstance(l, Unknown) or isinstance(r, Unknown):
                return Unknown("binop operand")
            if isinstance(e.op, ast.Add):
                return l + r
            if isinstance(e.op, ast.Div) and isinstance(l, Sym):
                return l / r
            if isinstance(e.op, ast.Mod) and isinstance(l, str):
                return l % r
            if isinstance(e.op, ast.Mult):
                return l * r
            return Unknown("binop")
        if isinstance(e, ast.UnaryOp):
            v = ev(e.operand)
            if isinstance(v, Unknown):
                return v
            if isinstance(e.op, ast.Not):
                return not v
            if isinstance(e.op, ast.USub):
                return -v
            return Unknown("unaryop")
        if isinstance(e, ast.BoolOp):
            vals = [ev(x) for x in e.values]
            if any(isinstance(v, Unknown) for v in vals):
                return Unknown("boolop")
            res = vals[0]
            for v in vals[1:]:
                res = (res and v) if isinstance(e.op, ast.And) else (res or v)
            return res
        if isinstance(e, ast.Compare) and len(e.ops) == 1:
            l, r = ev(e.left), ev(e.comparators[0])
            if isinstance(l, Unknown) or isinstance(r, Unknown):
                return Unknown("compare")
            op = e.ops[0]
            return {ast.Eq: lambda: l == r, ast.NotEq: lambda: l != r, ast.In: lambda: l in r,
                    ast.NotIn: lambda: l not in r, ast.Is: lambda: l is r, ast.IsNot: lambda: l is not r,
                    }.get(type(op), lambda: Unknown("cmp"))()
        if isinstance(e, ast.IfExp):
            t = ev(e.test)
            if isinstance(t, Unknown):
                return t
            return ev(e.body) if t else ev(e.orelse)
        if isinstance(e, ast.Subscript):
            obj = ev(e.value)
            if isinstance(obj, Unknown):
                return obj
            if isinstance(e.slice, ast.Slice):
                lo = ev(e.slice.lower) if e.slice.lower else None
                hi = ev(e.slice.upper) if e.slice.upper else None
                st = ev(e.slice.step) if e.slice.step else None
                return obj[lo:hi:st]
            k = ev(e.slice)
            if isinstance(k, Unknown):
                return k
            return obj[k]
        if isinstance(e, ast.Attribute):
            obj = ev(e.value)
            if isinstance(obj, Sym) and e.attr == "parent":
                return Sym(obj.text.rsplit("/", 1)[0])
            if isinstance(obj, Unknown):
                return obj
            return Unknown(f"attribute .{e.attr}")
        if isinstance(e, (ast.DictComp, ast.ListComp, ast.SetComp, ast.GeneratorExp)):
            return self._comp(m, e, env)  # a generator expression is evaluated eagerly (the configuration consumes it at once)
        if isinstance(e, ast.Call):
            return self._call(m, e, env)
        if isinstance(e, ast.Lambda):
            return Ref("lambda", "<lambda>", e)
        return Unknown(type(e).__name__)

    def _comp(self, m: Module, e: ast.AST, env: Dict[str, Any]) -> Any:
        if len(e.generators) != 1:
            return Unknown("nested comprehension")
        g = e.generators[0]
        it = self._eval(m, g.iter, env)
        if is_unknown(it):
            return Unknown("comprehension over unknown")
        if isinstance(it, dict):
            it = list(it.keys())
        out_list, out_dict = [], {}
        for x in list(it):
            loc = dict(env)
            self._assign(m, g.target, x, loc)
            ok = True
            for cond in g.ifs:
                c = self._eval(m, cond, loc)
                if isinstance(c, Unknown):
                    return c
                ok = ok and bool(c)
            if not ok:
                continue
            if isinstance(e, ast.DictComp):
                out_dict[_hashable(self._eval(m, e.key, loc))] = self._eval(m, e.value, loc)
            else:
                out_list.append(self._eval(m, e.elt, loc))
        if isinstance(e, ast.DictComp):
            return out_dict
        return set(out_list) if isinstance(e, ast.SetComp) else out_list

    def _call(self, m: Module, e: ast.Call, env: Dict[str, Any]) -> Any:
        ev = lambda x: self._eval(m, x, env)
        f = e.func
        args = []
        for a in e.args:
            if isinstance(a, ast.Starred):
                v = ev(a.value)
                if isinstance(v, (list, tuple)):
                    args.extend(v)
                else:
                    args.append(Unknown("starred argument"))
            else:
                args.append(ev(a))
        if isinstance(f, ast.Attribute):
            obj = ev(f.value)
            name = f.attr
            if isinstance(obj, Unknown):
                return obj
            if isinstance(obj, Sym):
                if name == "as_posix":
                    return obj.text
                return Unknown(f"Sym.{name}")
            if any(isinstance(a, Unknown) for a in args):
                return Unknown(f"argument of .{name}")
            if isinstance(obj, str):
                if name in ("join", "replace", "format", "split", "strip", "lower", "upper", "startswith", "endswith",
                            "rsplit", "lstrip", "rstrip", "title", "capitalize", "count"):
                    kwargs = {kw.arg: ev(kw.value) for kw in e.keywords if kw.arg}
                    return getattr(obj, name)(*args, **kwargs)
            if isinstance(obj, dict):
                if name == "copy":
                    return obj.copy()  # shallow on purpose
                if name in ("keys", "values", "items"):
                    return list(getattr(obj, name)())
                if name == "get":
                    return obj.get(*[_hashable(a) for a in args[:1]] + args[1:])
                if name == "update":
                    for a in args:
                        obj.update(a)
                    for kw in e.keywords:
                        if kw.arg:
                            obj[kw.arg] = ev(kw.value)
                    return None
                if name == "pop":
                    return obj.pop(*args)
                if name == "setdefault":
                    return obj.setdefault(*args)
            if isinstance(obj, list):
                if name == "copy":
                    return obj.copy()
                if name in ("append", "extend", "insert", "remove", "sort", "reverse"):
                    getattr(obj, name)(*args)
                    return None
                if name in ("index", "count"):
                    return getattr(obj, name)(*args)
            return Unknown(f"method .{name} on {type(obj).__name__}")
        fn = ev(f)
        if isinstance(fn, Ref) and fn.kind == "function" and isinstance(fn.node, ast.FunctionDef):
            return self._call_function(m, fn.node, args, {kw.arg: ev(kw.value) for kw in e.keywords if kw.arg}, env)
        if isinstance(fn, Ref) and fn.kind == "builtin":
            if any(isinstance(a, Unknown) for a in args):
                return Unknown(f"argument of {fn.name}")
            if fn.name == "Path":
                if args and isinstance(args[0], Sym):
                    return args[0]
                return Unknown("Path(...) of a non-symbolic value")
            if fn.name == "list":
                return list(args[0]) if args else []
            if fn.name == "dict":
                d = dict(args[0]) if args else {}
                for kw in e.keywords:
                    if kw.arg:
                        d[kw.arg] = ev(kw.value)
                return d
            if fn.name == "OrderedDict":
                return dict(args[0]) if args else {}
            if fn.name == "set":
                return set(args[0]) if args else set()
            if fn.name == "tuple":
                return tuple(args[0]) if args else ()
            if fn.name == "str":
                return str(args[0]) if args else ""
            if fn.name == "len":
                return len(args[0])
            if fn.name == "sorted":
                return sorted(args[0])
            if fn.name == "int":
                return int(args[0])
        return Unknown(f"call {ast.unparse(f)[:40]}")


def _bind_call(self, m, fnode, args, kwargs, env):
    a = fnode.args
    names = [x.arg for x in a.posonlyargs + a.args]
    local = dict(env)
    defaults = dict(zip(names[len(names) - len(a.defaults):], a.defaults))
    for i, nme in enumerate(names):
        if i < len(args):
            local[nme] = args[i]
        elif nme in kwargs:
            local[nme] = kwargs[nme]
        elif nme in defaults:
            local[nme] = self.eval(m, defaults[nme], env)
        else:
            local[nme] = Unknown(f"missing argument {nme}")
    if a.vararg:
        local[a.vararg.arg] = tuple(args[len(names):])
    for k, dv in zip(a.kwonlyargs, a.kw_defaults):
        local[k.arg] = kwargs.get(k.arg, self.eval(m, dv, env) if dv is not None else Unknown("kwonly"))
    return local


def _call_function(self, m, fnode, args, kwargs, env):
    """evaluate a configuration-local helper function (closed statement subset; bounded depth)"""
    depth = getattr(self, "_depth", 0)
    if depth > 8:
        return Unknown("helper recursion too deep")
    self._depth = depth + 1
    try:
        local = _bind_call(self, m, fnode, args, kwargs, env)
        try:
            self._exec_block(m, fnode.body, local)
        except _Return as r:
            return r.value
        return None
    finally:
        self._depth = depth


Folder._call_function = _call_function


def _hashable(v: Any) -> Any:
    if isinstance(v, list):
        return tuple(v)
    return v


# ==================================================================================================
class FoldedConfig:
    """The folded demo configuration as the rules need it."""

    def __init__(self, program: Program):
        self.p = program
        # (1) what spil.conf sees: spil_sid_conf evaluated alone (sid_conf_load consumes it first)
        f0 = Folder(program)
        sid_env = f0.module_env("spil_sid_conf")
        self.sid = copy.deepcopy({k: v for k, v in sid_env.items() if not isinstance(v, Ref)})
        self.sid_unknowns = list(f0.unknowns)
        data_env = f0.module_env("spil_data_conf")
        self.data = {k: v for k, v in data_env.items()}
        self.data_unknowns = list(f0.unknowns)
        self.folder0 = f0

    # ---- access helpers (Unknown -> analysis error) -------------------------------------------
    def need(self, table: Dict[str, Any], name: str, typ=None, where: str = "") -> Any:
        if name not in table:
            raise AnalysisError(f"configuration value '{name}' is not defined {where}")
        v = table[name]
        if is_unknown(v):
            raise AnalysisError(f"configuration value '{name}' {where} could not be folded: {v!r}")
        if typ is not None and not isinstance(v, typ):
            raise AnalysisError(f"configuration value '{name}' {where} has unexpected type {type(v).__name__}")
        return v

    def sid_value(self, name: str, typ=None) -> Any:
        return self.need(self.sid, name, typ, "in spil_sid_conf")

    def data_value(self, name: str, typ=None) -> Any:
        return self.need(self.data, name, typ, "in spil_data_conf")

    @property
    def path_configs(self) -> Dict[str, str]:
        return self.data_value("path_configs", dict)

    def fs_envs(self, first: str) -> Dict[str, Dict[str, Any]]:
        """Environments of every path configuration module, evaluated as the process would when the
        configuration named ``first`` is instantiated first (its templates are pattern-replaced in place
        before any other configuration module imports them)."""
        from .templates import ref_pattern_replacing

        pcs = self.path_configs
        order = [first] + [n for n in pcs if n != first]
        folder = Folder(self.p)
        folder.module_env("spil_sid_conf")
        out: Dict[str, Dict[str, Any]] = {}
        done_ids = set()
        for name in order:
            modname = pcs[name]
            env = folder.module_env(modname)
            for k in ("path_templates", "key_patterns"):
                if k not in env or is_unknown(env[k]):
                    raise AnalysisError(f"path configuration '{name}' ({modname}): '{k}' missing or not foldable "
                                        f"({env.get(k)!r}; {folder.unknowns[:3]})")
            if id(env["path_templates"]) not in done_ids or True:
                ref_pattern_replacing(env["path_templates"], env["key_patterns"])  # in place, like PathConfig
                done_ids.add(id(env["path_templates"]))
            out[name] = env
        self.fs_unknowns = list(folder.unknowns)
        return out
