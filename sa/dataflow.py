"""E4 - reaching definitions on the statement CFG, and two value queries built on them:

* ``depends(expr, at)``  - the atoms (parameters, calls, attributes, constants, free names) an
  expression's value is computed from, transitively through local assignments;
* ``aliases(expr, at)``  - the atoms the value may *be* (object identity), used by the mutation
  and escape rules.  A call produces a fresh object unless it is a known identity-preserving
  form; ``x.copy()``, ``dict(x)``, ``list(x)`` ... are alias kills.
"""
from __future__ import annotations

import ast
from dataclasses import dataclass
from typing import Dict, FrozenSet, Iterable, List, Optional, Set, Tuple

from .cfg import CFG, Node, cfg_of
from .program import norm, target_names

COPY_METHODS = {"copy", "items", "keys", "values", "split", "rsplit", "replace", "format", "strip", "join",
                "lower", "upper", "as_posix", "union", "difference", "intersection"}
SHALLOW_COPY_FUNCS = {"list", "tuple", "sorted", "set", "frozenset", "reversed"}
COPY_FUNCS = {"dict", "list", "set", "tuple", "sorted", "OrderedDict", "frozenset", "str", "int", "float", "bool",
              "len", "repr", "reversed", "enumerate", "zip", "filter", "map", "deepcopy", "copy"}


@dataclass(frozen=True)
class Def:
    node: int  # cfg node id (-1 for parameters)
    var: str
    kind: str  # 'param' | 'assign' | 'unpack' | 'for' | 'with' | 'except' | 'aug' | 'import' | 'def'
    value: Optional[ast.AST]  # the assigned expression (for unpack: the whole right-hand side)
    index: Optional[int] = None  # position for tuple unpacking

    def __hash__(self):
        return hash((self.node, self.var, self.kind, self.index))


@dataclass(frozen=True)
class Atom:
    kind: str  # 'param' 'call' 'attr' 'const' 'free' 'elem' 'fresh' 'comp'
    text: str  # parameter name / normalised call / attribute path / repr of constant / free name
    node: Optional[ast.AST] = None

    def __hash__(self):
        return hash((self.kind, self.text))

    def __eq__(self, other):
        return isinstance(other, Atom) and (self.kind, self.text) == (other.kind, other.text)

    def __repr__(self):
        return f"{self.kind}:{self.text}"


class FunctionFlow:
    def __init__(self, fn_node: ast.FunctionDef, cfg: Optional[CFG] = None):
        self.fn = fn_node
        self.cfg = cfg or cfg_of(fn_node)
        self.params: List[str] = _param_names(fn_node)
        self.defs_by_node: Dict[int, List[Def]] = {}
        self.all_defs: List[Def] = []
        self._collect()
        self._in: Dict[int, FrozenSet[Def]] = {}
        self._solve()

    # ------------------------------------------------------------ definitions
    def _add(self, d: Def):
        self.defs_by_node.setdefault(d.node, []).append(d)
        self.all_defs.append(d)

    def _collect(self):
        for p in self.params:
            self._add(Def(-1, p, "param", None))
        for n in self.cfg.nodes:
            st = n.ast
            if n.kind == "stmt":
                if isinstance(st, ast.Assign):
                    for t in st.targets:
                        self._bind_target(n.id, t, st.value)
                elif isinstance(st, ast.AnnAssign) and st.value is not None:
                    self._bind_target(n.id, st.target, st.value)
                elif isinstance(st, ast.AugAssign):
                    for v in target_names(st.target):
                        self._add(Def(n.id, v, "aug", st))
                elif isinstance(st, (ast.Import, ast.ImportFrom)):
                    for a in st.names:
                        self._add(Def(n.id, (a.asname or a.name).split(".")[0], "import", None))
                elif isinstance(st, (ast.FunctionDef, ast.ClassDef)):
                    self._add(Def(n.id, st.name, "def", None))
                # walrus inside any statement
                for sub in ast.walk(st) if not isinstance(st, (ast.FunctionDef, ast.ClassDef)) else []:
                    if isinstance(sub, ast.NamedExpr) and isinstance(sub.target, ast.Name):
                        self._add(Def(n.id, sub.target.id, "assign", sub.value))
            elif n.kind == "loop":
                for i, v in enumerate(_flat_targets(st.target)):
                    self._add(Def(n.id, v, "for", st.iter, i if isinstance(st.target, (ast.Tuple, ast.List)) else None))
            elif n.kind == "with":
                for it in st.items:
                    if it.optional_vars is not None:
                        for v in target_names(it.optional_vars):
                            self._add(Def(n.id, v, "with", it.context_expr))
            elif n.kind == "handler":
                if st.name:
                    self._add(Def(n.id, st.name, "except", st.type))

    def _bind_target(self, nid: int, t: ast.AST, value: ast.AST):
        if isinstance(t, ast.Name):
            self._add(Def(nid, t.id, "assign", value))
        elif isinstance(t, (ast.Tuple, ast.List)):
            for i, e in enumerate(t.elts):
                if isinstance(e, ast.Name):
                    if isinstance(value, (ast.Tuple, ast.List)) and len(value.elts) == len(t.elts):
                        self._add(Def(nid, e.id, "assign", value.elts[i]))
                    else:
                        self._add(Def(nid, e.id, "unpack", value, i))
                elif isinstance(e, ast.Starred):
                    for v in target_names(e):
                        self._add(Def(nid, v, "unpack", value, i))
                else:
                    for v in target_names(e):
                        self._add(Def(nid, v, "unpack", value, i))

    def _solve(self):
        cfg = self.cfg
        gen: Dict[int, Dict[str, List[Def]]] = {}
        for nid, ds in self.defs_by_node.items():
            g: Dict[str, List[Def]] = {}
            for d in ds:
                g.setdefault(d.var, []).append(d)
            gen[nid] = g
        entry_defs = frozenset(self.defs_by_node.get(-1, []))
        IN: Dict[int, Set[Def]] = {n.id: set() for n in cfg.nodes}
        OUT: Dict[int, Set[Def]] = {n.id: set() for n in cfg.nodes}
        OUT[cfg.entry.id] = set(entry_defs)
        work = [n.id for n in cfg.nodes]
        while work:
            nid = work.pop(0)
            node = cfg.nodes[nid]
            if nid == cfg.entry.id:
                new_in: Set[Def] = set()
                new_out = set(entry_defs)
            else:
                new_in = set()
                for p, lab in node.pred:
                    if lab == "exc":
                        # the exception may have happened before the assignment took effect
                        new_in |= IN[p] | OUT[p]
                    else:
                        new_in |= OUT[p]
                g = gen.get(nid, {})
                new_out = {d for d in new_in if d.var not in g}
                for ds in g.values():
                    new_out |= set(ds)
            if new_in != IN[nid] or new_out != OUT[nid]:
                IN[nid] = new_in
                OUT[nid] = new_out
                for s, _ in node.succ:
                    if s not in work:
                        work.append(s)
        self._in = {k: frozenset(v) for k, v in IN.items()}
        self._out = {k: frozenset(v) for k, v in OUT.items()}

    # ------------------------------------------------------------ queries
    def defs_reaching(self, nid: int, var: str) -> List[Def]:
        return sorted((d for d in self._in.get(nid, ()) if d.var == var), key=lambda d: d.node)

    def is_local(self, var: str) -> bool:
        return any(d.var == var for d in self.all_defs)

    def node_of(self, sub: ast.AST) -> Optional[Node]:
        return self.cfg.node_of(sub)

    def depends(self, expr: ast.AST, at: Optional[int] = None, _seen: Optional[Set] = None) -> Set[Atom]:
        """All atoms the value of ``expr`` (evaluated at cfg node ``at``) is computed from."""
        if at is None:
            n = self.cfg.node_of(expr)
            at = n.id if n is not None else self.cfg.exit.id
        seen = _seen if _seen is not None else set()
        out: Set[Atom] = set()
        for sub in _walk_expr(expr):
            if isinstance(sub, ast.Name) and isinstance(sub.ctx, ast.Load):
                if self.is_local(sub.id):
                    for d in self.defs_reaching(at, sub.id):
                        if d in seen:
                            continue
                        seen.add(d)
                        if d.kind == "param":
                            out.add(Atom("param", d.var))
                        elif d.value is not None and d.kind in ("assign", "unpack", "for", "with", "aug"):
                            v = d.value.value if d.kind == "aug" else d.value
                            out |= self.depends(v, d.node, seen)
                            if d.kind == "aug":
                                out |= self.depends(ast.Name(id=d.var, ctx=ast.Load()), d.node, seen)
                        else:
                            out.add(Atom("free", d.var))
                else:
                    out.add(Atom("free", sub.id))
            elif isinstance(sub, ast.Call):
                out.add(Atom("call", norm(sub.func), sub))
            elif isinstance(sub, ast.Attribute) and isinstance(sub.ctx, ast.Load):
                p = _attr_path(sub)
                if p:
                    out.add(Atom("attr", p, sub))
            elif isinstance(sub, ast.Constant):
                out.add(Atom("const", repr(sub.value), sub))
        return out

    def aliases(self, expr: ast.AST, at: Optional[int] = None, _seen: Optional[Set] = None) -> Set[Atom]:
        """Atoms the value of ``expr`` may be identical to (same mutable object)."""
        if at is None:
            n = self.cfg.node_of(expr)
            at = n.id if n is not None else self.cfg.exit.id
        seen = _seen if _seen is not None else set()
        e = expr
        if isinstance(e, ast.Name):
            if not self.is_local(e.id):
                return {Atom("free", e.id)}
            out: Set[Atom] = set()
            for d in self.defs_reaching(at, e.id):
                if d in seen:
                    continue
                seen.add(d)
                if d.kind == "param":
                    out.add(Atom("param", d.var))
                elif d.kind == "assign" and d.value is not None:
                    out |= self.aliases(d.value, d.node, seen)
                elif d.kind in ("unpack", "for") and d.value is not None:
                    for a in self.aliases(_strip_views(d.value), d.node, seen):
                        out |= self._elem_of(a, d.node, seen)
                elif d.kind == "with" and d.value is not None:
                    out |= self.aliases(d.value, d.node, seen)
                else:
                    out.add(Atom("fresh", f"{d.kind}@{d.node}"))
            return out
        if isinstance(e, ast.Attribute):
            p = _attr_path(e)
            return {Atom("attr", p, e)} if p else {Atom("fresh", "attr")}
        if isinstance(e, ast.Subscript):
            if isinstance(e.slice, ast.Slice):
                return {Atom("fresh", "slice")}
            out = set()
            for a in self.aliases(e.value, at, seen):
                out |= self._elem_of(a, at, seen)
            return out
        if isinstance(e, ast.IfExp):
            return self.aliases(e.body, at, seen) | self.aliases(e.orelse, at, seen)
        if isinstance(e, ast.BoolOp):
            out = set()
            for v in e.values:
                out |= self.aliases(v, at, seen)
            return out
        if isinstance(e, ast.NamedExpr):
            return self.aliases(e.value, at, seen)
        if isinstance(e, ast.Call):
            f = e.func
            if isinstance(f, ast.Attribute) and f.attr in COPY_METHODS:
                return {Atom("fresh", "copy")}
            if isinstance(f, ast.Name) and f.id in COPY_FUNCS:
                if f.id in SHALLOW_COPY_FUNCS and len(e.args) == 1 and not e.keywords:
                    return {Atom("fresh", f"{f.id}@{e.lineno}:{e.col_offset}", e)}  # new container, shared elements
                return {Atom("fresh", f.id)}
            if isinstance(f, ast.Attribute) and f.attr in ("get", "pop", "setdefault") and e.args:
                # element of a container
                outs = {Atom("elem", repr(a), a.node) if a.kind != "fresh" else a for a in self.aliases(f.value, at, seen)}
                if len(e.args) > 1:
                    outs |= self.aliases(e.args[1], at, seen)
                return outs
            return {Atom("call", norm(f), e)}
        if isinstance(e, (ast.List, ast.Set, ast.Tuple, ast.ListComp, ast.SetComp, ast.GeneratorExp)):
            # a new container; its elements may be shared (see _elem_of)
            return {Atom("fresh", f"{type(e).__name__}@{e.lineno}:{e.col_offset}", e)}
        if isinstance(e, (ast.Dict, ast.DictComp, ast.JoinedStr, ast.BinOp, ast.Compare, ast.UnaryOp, ast.Constant,
                          ast.Lambda)):
            return {Atom("fresh", type(e).__name__)}
        if isinstance(e, ast.Starred):
            return self.aliases(e.value, at, seen)
        if isinstance(e, ast.Await):
            return self.aliases(e.value, at, seen)
        return {Atom("fresh", type(e).__name__)}


    def _elem_of(self, a: Atom, at: Optional[int], seen: Set) -> Set[Atom]:
        """atoms an element of the container ``a`` may be identical to"""
        if a.kind != "fresh":
            return {Atom("elem", repr(a), a.node)}
        n = a.node
        if n is None or ("elem", id(n)) in seen:
            return {a}
        seen.add(("elem", id(n)))
        cn = self.cfg.node_of(n)
        where = cn.id if cn is not None else at
        out: Set[Atom] = set()
        if isinstance(n, (ast.List, ast.Tuple, ast.Set)):
            for x in n.elts:
                out |= self.aliases(x, where, seen)
        elif isinstance(n, (ast.ListComp, ast.SetComp, ast.GeneratorExp)):
            out |= self.aliases(n.elt, where, seen)
        elif isinstance(n, ast.Call) and n.args:
            for b in self.aliases(_strip_views(n.args[0]), where, seen):
                out |= self._elem_of(b, where, seen)
        return out or {a}


# --------------------------------------------------------------------------------------------------
def _strip_views(e: ast.AST) -> ast.AST:
    """x.items() / x.values() / enumerate(x) / reversed(x) iterate elements of x"""
    if isinstance(e, ast.Call):
        f = e.func
        if isinstance(f, ast.Attribute) and f.attr in ("items", "values", "keys") and not e.args:
            return f.value
        if isinstance(f, ast.Name) and f.id in ("enumerate", "reversed", "iter") and e.args:
            return e.args[0]
    return e


def _param_names(fn: ast.AST) -> List[str]:
    a = fn.args
    names = [x.arg for x in a.posonlyargs + a.args]
    if a.vararg:
        names.append(a.vararg.arg)
    names += [x.arg for x in a.kwonlyargs]
    if a.kwarg:
        names.append(a.kwarg.arg)
    return names


def _flat_targets(t: ast.AST) -> List[str]:
    return target_names(t)


def _attr_path(node: ast.AST) -> Optional[str]:
    parts = []
    while isinstance(node, ast.Attribute):
        parts.append(node.attr)
        node = node.value
    if isinstance(node, ast.Name):
        parts.append(node.id)
        return ".".join(reversed(parts))
    return None


attr_path = _attr_path


def _walk_expr(e: ast.AST):
    """Walk an expression without entering lambdas' bodies' parameter shadowing problems: we do
    enter lambdas and comprehensions (their free names are what matter)."""
    stack = [e]
    while stack:
        n = stack.pop()
        yield n
        for c in ast.iter_child_nodes(n):
            if isinstance(c, (ast.FunctionDef, ast.AsyncFunctionDef, ast.ClassDef)):
                continue
            stack.append(c)


_flow_cache: Dict[int, FunctionFlow] = {}


def flow_of(fn_node: ast.AST) -> FunctionFlow:
    f = _flow_cache.get(id(fn_node))
    if f is None or f.fn is not fn_node:
        f = FunctionFlow(fn_node)
        _flow_cache[id(fn_node)] = f
    return f
