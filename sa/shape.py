"""Shape utilities shared by the rules, written so that equivalent spellings look the same:

* ``facts_at``      - normalised atomic facts established by the dominating branch tests (and by
                      short-circuit evaluation inside the same expression) at a node;
* ``inline_locals`` - an expression with single-definition local names replaced by their definitions;
* ``helpers_of``    - the private same-module helper functions a function delegates to (extract-method
                      refactorings keep the obligation inside the module).
"""
from __future__ import annotations

import ast
import copy
from typing import Dict, Iterable, List, Optional, Set, Tuple

from .cfg import CFG, cfg_of
from .dataflow import FunctionFlow, flow_of
from .program import FunctionInfo, dotted, norm, own_nodes


# ------------------------------------------------------------------------------------------------
def _atomise(test: ast.AST, truth: bool) -> List[Tuple[ast.AST, bool]]:
    """facts (expression, truth value) implied by ``test`` evaluating to ``truth``"""
    if isinstance(test, ast.UnaryOp) and isinstance(test.op, ast.Not):
        return _atomise(test.operand, not truth)
    if isinstance(test, ast.BoolOp):
        if (isinstance(test.op, ast.And) and truth) or (isinstance(test.op, ast.Or) and not truth):
            out = []
            for v in test.values:
                out += _atomise(v, truth)
            return out
        return [(test, truth)]
    if isinstance(test, ast.Compare) and len(test.ops) == 1:
        op = test.ops[0]
        flip = {ast.NotIn: ast.In, ast.NotEq: ast.Eq, ast.IsNot: ast.Is}
        if type(op) in flip:
            pos = ast.Compare(left=test.left, ops=[flip[type(op)]()], comparators=test.comparators)
            ast.copy_location(pos, test)
            return [(pos, not truth)]
    if isinstance(test, ast.Call) and dotted(test.func) == "bool" and len(test.args) == 1:
        return _atomise(test.args[0], truth)
    return [(test, truth)]


def _norm_fact(e: ast.AST) -> str:
    """normalised text; ``x.count(s)`` as a truth value is ``s in x``; ``len(x)`` as a truth value is ``x``;
    ``d.keys()`` in a membership test is ``d``"""
    if isinstance(e, ast.Call) and isinstance(e.func, ast.Attribute) and e.func.attr == "count" and len(e.args) == 1:
        return f"{norm(e.args[0])} in {norm(e.func.value)}"
    if isinstance(e, ast.Call) and dotted(e.func) == "len" and len(e.args) == 1:
        return norm(e.args[0])
    if isinstance(e, ast.Compare) and len(e.ops) == 1 and isinstance(e.ops[0], ast.In):
        r = e.comparators[0]
        if isinstance(r, ast.Call) and isinstance(r.func, ast.Attribute) and r.func.attr == "keys" and not r.args:
            r = r.func.value
        return f"{norm(e.left)} in {norm(r)}"
    return norm(e)


def alternatives(test: ast.AST, truth: bool) -> List[List[Tuple[str, bool]]]:
    """the outcome `test is truth` in disjunctive normal form: a list of alternatives, each a list of (normalised text,
    truth) atoms that all hold in it.  `not (a and b)` being true gives [[(a, False)], [(b, False)]]."""
    if isinstance(test, ast.UnaryOp) and isinstance(test.op, ast.Not):
        return alternatives(test.operand, not truth)
    if isinstance(test, ast.BoolOp):
        conj = (isinstance(test.op, ast.And) and truth) or (isinstance(test.op, ast.Or) and not truth)
        parts = [alternatives(v, truth) for v in test.values]
        if conj:
            out: List[List[Tuple[str, bool]]] = [[]]
            for ps in parts:
                out = [a + b for a in out for b in ps][:64]
            return out
        return [alt for ps in parts for alt in ps][:64]
    return [[(_norm_fact(e), t) for e, t in _atomise(test, truth)]]


def facts_at(ctx, f: FunctionInfo, node: ast.AST) -> Set[Tuple[str, bool]]:
    """(normalised expression text, truth) facts that hold whenever ``node`` is evaluated"""
    cfg = cfg_of(f.node)
    from .effects import _short_circuit_facts

    out: Set[Tuple[str, bool]] = set()
    for e, truth in fact_nodes_at(ctx, f, node):
        out.add((_norm_fact(e), truth))
    return out


def holds_one_of(ctx, f: FunctionInfo, node: ast.AST, atoms) -> bool:
    """whenever ``node`` is evaluated at least one of the (text, truth) atoms holds: a fact, or a dominating test every alternative of
    which (disjunctive normal form) contains one of them - `if not a or b not in c:` establishes 'a is false or b in c is false'"""
    atoms = set(atoms)
    if atoms & facts_at(ctx, f, node):
        return True
    cfg = cfg_of(f.node)
    for t, lab in ctx.ef._dominating_tests(cfg, node):
        alts = alternatives(t, lab == "true")
        if alts and all(atoms & set(a) for a in alts):
            return True
    return False


def _flag_definition(f: FunctionInfo, name: str, at_node: ast.AST) -> Optional[ast.AST]:
    """the test a boolean flag stands for: ``name`` has exactly one reaching definition here, `name = <comparison / not / and /
    or / predicate call>`, and nothing that expression reads is re-bound in the function after that definition"""
    flow = flow_of(f.node)
    n = flow.node_of(at_node)
    if n is None or not flow.is_local(name):
        return None
    ds = list(flow.defs_reaching(n.id, name))
    if len(ds) != 1 or ds[0].kind != "assign" or ds[0].value is None:
        return None
    v = ds[0].value
    if not isinstance(v, (ast.Compare, ast.BoolOp, ast.UnaryOp)):
        return None
    reads = {x.id for x in ast.walk(v) if isinstance(x, ast.Name)}
    for d in flow.all_defs:
        if d.var in reads and d.kind != "param" and d.node is not None and d is not ds[0]:
            # a re-binding of an operand that can happen after the flag was computed invalidates it
            if flow.cfg.path_exists(ds[0].node, d.node, exceptional=False) and d.node != ds[0].node:
                return None
    return v


def _never_none(e: ast.AST) -> bool:
    """the value of ``e`` is never None, whatever its operands are"""
    if isinstance(e, (ast.Dict, ast.List, ast.Set, ast.Tuple, ast.JoinedStr, ast.ListComp, ast.DictComp, ast.SetComp)):
        return True
    if isinstance(e, ast.Constant):
        return e.value is not None
    if isinstance(e, ast.BoolOp) and isinstance(e.op, ast.Or):
        return _never_none(e.values[-1])
    if isinstance(e, ast.Call) and isinstance(e.func, ast.Name) and e.func.id in ("dict", "list", "set", "tuple", "str", "int", "bool", "sorted",
                                                                                    "OrderedDict", "frozenset"):
        return True
    return False


def _sentinel_correlation(f: FunctionInfo, e: ast.AST, truth: bool, at_node: ast.AST) -> List[Tuple[ast.AST, bool]]:
    """`v is None` where v is bound exactly twice, to None in one branch of an if / else and to something that is never None in the
    other: the test stands for the condition of that if.  (`v is None`, truth) -> the atoms of that condition."""
    if not (isinstance(e, ast.Compare) and len(e.ops) == 1 and isinstance(e.ops[0], ast.Is) and isinstance(e.left, ast.Name)
            and isinstance(e.comparators[0], ast.Constant) and e.comparators[0].value is None):
        return []
    flow = flow_of(f.node)
    v = e.left.id
    defs = [d for d in flow.all_defs if d.var == v]
    if len(defs) != 2 or any(d.kind != "assign" or d.value is None or d.node is None or d.node < 0 for d in defs):
        return []
    d_none = [d for d in defs if isinstance(d.value, ast.Constant) and d.value.value is None]
    d_val = [d for d in defs if _never_none(d.value)]
    if len(d_none) != 1 or len(d_val) != 1:
        return []
    s_none, s_val = flow.cfg.nodes[d_none[0].node].ast, flow.cfg.nodes[d_val[0].node].ast
    best = None
    for n in own_nodes(f.node):
        if not isinstance(n, ast.If) or not n.orelse:
            continue
        in_body = lambda st, blk: any(x is st for b in blk for x in ast.walk(b))  # noqa: E731
        if in_body(s_none, n.body) and in_body(s_val, n.orelse):
            cand = (n, True)
        elif in_body(s_none, n.orelse) and in_body(s_val, n.body):
            cand = (n, False)
        else:
            continue
        if best is None or any(x is cand[0] for x in ast.walk(best[0])):
            best = cand  # the innermost such if
    if best is None:
        return []
    n, none_in_body = best
    # the operands of the condition are not re-bound between the if and the use
    reads = {x.id for x in ast.walk(n.test) if isinstance(x, ast.Name)}
    if any(d.var in reads and d.kind != "param" and d.node is not None and d.node >= 0 and flow.cfg.node_of(n.test) is not None
           and flow.cfg.path_exists(flow.cfg.node_of(n.test).id, d.node, exceptional=False) for d in flow.all_defs):
        return []
    c_truth = none_in_body if truth else not none_in_body
    return [(e2, t2) for e2, t2 in _atomise(n.test, c_truth) if not isinstance(e2, ast.Constant)]


def _falsy_const(e: ast.AST) -> bool:
    if isinstance(e, ast.Constant):
        return not e.value
    if isinstance(e, (ast.Dict, ast.List, ast.Set, ast.Tuple)):
        return not (e.keys if isinstance(e, ast.Dict) else e.elts)
    return False


class _RenameName(ast.NodeTransformer):
    def __init__(self, a: str, b: str):
        self.a, self.b = a, b

    def visit_Name(self, n: ast.Name):
        return ast.copy_location(ast.Name(id=self.b, ctx=n.ctx), n) if n.id == self.a else n


def _origin_facts(ctx, f: FunctionInfo, e: ast.AST, truth: bool, depth: int) -> List[Tuple[ast.AST, bool]]:
    """`v` is known to be truthy (or not None) and every binding of `v` but one is a falsy constant ('nothing found'): the value comes
    from that one binding, so what is known where it happens is known here - also about `v` itself when it is a copy of a name."""
    if depth <= 0:
        return []
    v = None
    if isinstance(e, ast.Name) and truth:
        v = e.id
    elif isinstance(e, ast.Compare) and len(e.ops) == 1 and isinstance(e.ops[0], ast.Is) and isinstance(e.left, ast.Name) \
            and isinstance(e.comparators[0], ast.Constant) and e.comparators[0].value is None and not truth:
        v = e.left.id
    if v is None:
        return []
    flow = flow_of(f.node)
    if not flow.is_local(v):
        return []
    defs = [d for d in flow.all_defs if d.var == v]
    if len(defs) < 2 or any(d.kind != "assign" or d.value is None or d.node is None or d.node < 0 for d in defs):
        return []
    real = [d for d in defs if not _falsy_const(d.value)]
    if len(real) != 1:
        return []
    d = real[0]
    stmt = flow.cfg.nodes[d.node].ast
    out: List[Tuple[ast.AST, bool]] = []
    for e2, t2 in fact_nodes_at(ctx, f, stmt, depth - 1):
        names = {x.id for x in ast.walk(e2) if isinstance(x, ast.Name)}
        # only facts about things that are bound once (they cannot have changed since)
        if any(sum(1 for dd in flow.all_defs if dd.var == nm) > 1 for nm in names if flow.is_local(nm)):
            continue
        out.append((e2, t2))
        if isinstance(d.value, ast.Name) and d.value.id in names:
            out.append((_RenameName(d.value.id, v).visit(copy.deepcopy(e2)), t2))
    return out


def fact_nodes_at(ctx, f: FunctionInfo, node: ast.AST, _depth: int = 2) -> List[Tuple[ast.AST, bool]]:
    cfg = cfg_of(f.node)
    from .effects import _short_circuit_facts

    out = []
    for t, lab in list(ctx.ef._dominating_tests(cfg, node)) + list(_short_circuit_facts(f.node, node)):
        for e, truth in _atomise(t, lab == "true"):
            if isinstance(e, ast.Constant):
                continue  # `while True:` and the like carry no information
            out.append((e, truth))
            out += _sentinel_correlation(f, e, truth, t)
            out += _origin_facts(ctx, f, e, truth, _depth)
            # a boolean flag stands for the test it was computed from
            if isinstance(e, ast.Name):
                d = _flag_definition(f, e.id, t)
                if d is not None:
                    out += [(e2, t2) for e2, t2 in _atomise(d, truth) if not isinstance(e2, ast.Constant)]
    return out


# ------------------------------------------------------------------------------------------------
class _Inliner(ast.NodeTransformer):
    def __init__(self, flow: FunctionFlow, at: int, depth: int):
        self.flow, self.at, self.depth = flow, at, depth

    def visit_Name(self, n: ast.Name):
        if not isinstance(n.ctx, ast.Load) or self.depth <= 0 or not self.flow.is_local(n.id):
            return n
        ds = self.flow.defs_reaching(self.at, n.id)
        if len(ds) != 1:
            return n
        d = ds[0]
        if d.kind != "assign" or d.value is None:
            return n
        # do not inline through a redefinition of the names the definition itself reads
        sub = _Inliner(self.flow, d.node, self.depth - 1)
        return sub.visit(copy.deepcopy(d.value))

    def visit_Lambda(self, n):
        return n


def inline_locals(f: FunctionInfo, expr: ast.AST, at_node: Optional[ast.AST] = None, depth: int = 4) -> ast.AST:
    """copy of ``expr`` in which every local name with exactly one reaching simple definition is replaced by
    that definition (recursively, bounded)"""
    flow = flow_of(f.node)
    n = flow.node_of(at_node if at_node is not None else expr)
    if n is None:
        return expr
    return _Inliner(flow, n.id, depth).visit(copy.deepcopy(expr))


def ntext(f: FunctionInfo, expr: ast.AST, at_node: Optional[ast.AST] = None) -> str:
    """normalised text after inlining locals"""
    try:
        return norm(inline_locals(f, expr, at_node))
    except Exception:
        return norm(expr)


# ------------------------------------------------------------------------------------------------
def helpers_of(ctx, f: FunctionInfo, depth: int = 2) -> List[FunctionInfo]:
    """private helpers (same module; leading underscore, or methods of the same class) that f calls,
    transitively up to ``depth``"""
    out: List[FunctionInfo] = []
    frontier = [f]
    for _ in range(depth):
        nxt = []
        for g in frontier:
            for cs in ctx.cg.sites.get(g.qualname, []):
                for t in cs.targets:
                    if t is f or t in out or t.module is not f.module:
                        continue
                    private = t.name.startswith("_") and not t.name.startswith("__")
                    same_cls = f.cls is not None and t.cls is not None and (t.cls is f.cls or t.cls in ctx.p.mro(f.cls))
                    if private and (t.cls is None or same_cls):
                        out.append(t)
                        nxt.append(t)
        frontier = nxt
    return out


def family(ctx, f: FunctionInfo) -> List[FunctionInfo]:
    return [f] + helpers_of(ctx, f)


def family_nodes(ctx, f: FunctionInfo):
    """(function, node) for every node of f and its private helpers"""
    for g in family(ctx, f):
        for n in own_nodes(g.node):
            yield g, n


# ------------------------------------------------------------------------------------------------
# extract-method refactorings: analyse a function with its private same-module helpers inlined
class _Rename(ast.NodeTransformer):
    def __init__(self, mapping: Dict[str, str]):
        self.m = mapping

    def visit_Name(self, n: ast.Name):
        if n.id in self.m:
            return ast.copy_location(ast.Name(id=self.m[n.id], ctx=n.ctx), n)
        return n

    def visit_arg(self, a):
        return a

    def visit_ExceptHandler(self, h):
        if h.name and h.name in self.m:
            h.name = self.m[h.name]
        return self.generic_visit(h)

    def visit_FunctionDef(self, n):
        return n  # nested definitions are left alone

    visit_Lambda = visit_FunctionDef


class _ReturnTo(ast.NodeTransformer):
    """`return e` inside an inlined helper body -> `<target> = e; break` (the body sits in a one-shot loop)"""

    def __init__(self, target: Optional[ast.AST], keep_return: bool):
        self.target, self.keep = target, keep_return

    def visit_Return(self, n: ast.Return):
        if self.keep:
            return n
        out = []
        if self.target is not None:
            val = n.value if n.value is not None else ast.Constant(value=None)
            out.append(ast.copy_location(ast.Assign(targets=[copy.deepcopy(self.target)], value=val), n))
        elif n.value is not None and not isinstance(n.value, ast.Constant):
            out.append(ast.copy_location(ast.Expr(value=n.value), n))
        out.append(ast.copy_location(ast.Break(), n))
        return out

    def visit_FunctionDef(self, n):
        return n

    visit_Lambda = visit_FunctionDef
    visit_For = visit_While = lambda self, n: self.generic_visit(n)


def _local_names(fn: ast.FunctionDef) -> Set[str]:
    names = {a.arg for a in fn.args.posonlyargs + fn.args.args + fn.args.kwonlyargs}
    if fn.args.vararg:
        names.add(fn.args.vararg.arg)
    if fn.args.kwarg:
        names.add(fn.args.kwarg.arg)
    for n in own_nodes(fn):
        if isinstance(n, ast.Name) and isinstance(n.ctx, ast.Store):
            names.add(n.id)
        elif isinstance(n, ast.ExceptHandler) and n.name:
            names.add(n.name)
    return names


def _contains_loop_return(body) -> bool:
    """a `return` nested in a loop of the helper cannot be turned into a plain `break` of the one-shot loop"""
    for st in body:
        for n in ast.walk(st):
            if isinstance(n, (ast.For, ast.While)):
                if any(isinstance(x, ast.Return) for x in ast.walk(n)):
                    return True
    return False


def _helper_target(ctx, f: FunctionInfo, call: ast.Call) -> Optional[FunctionInfo]:
    r = ctx.p.resolve_expr(f.module, call.func, f)
    t = None
    if r.kind == "func" and r.func is not None:
        t = r.func
    elif isinstance(call.func, ast.Attribute) and isinstance(call.func.value, ast.Name) and call.func.value.id in ("self", "cls") \
            and f.cls is not None:
        t = ctx.p.find_method(f.cls, call.func.attr)
        # a method overridden in subclasses is an extension point, not a private helper
        if t is not None and any(call.func.attr in k.methods for k in ctx.p.subclasses(f.cls)):
            return None
    if t is None or t is f or t.module is not f.module:
        return None
    if not (t.name.startswith("_") and not t.name.startswith("__")):
        return None
    if t.decorators and any(d not in ("staticmethod", "builtins.staticmethod") for d in t.decorators):
        return None
    a = t.node.args
    if a.vararg or a.kwarg:
        return None
    return t


def _inline_stmt(ctx, f: FunctionInfo, st: ast.stmt, counter: List[int], depth: int) -> Optional[List[ast.stmt]]:
    call = None
    mode = None
    target = None
    if isinstance(st, ast.Expr) and isinstance(st.value, ast.Call):
        call, mode = st.value, "expr"
    elif isinstance(st, ast.Expr) and isinstance(st.value, ast.YieldFrom) and isinstance(st.value.value, ast.Call):
        call, mode = st.value.value, "yieldfrom"
    elif isinstance(st, ast.Return) and isinstance(st.value, ast.Call):
        call, mode = st.value, "return"
    elif isinstance(st, ast.Assign) and len(st.targets) == 1 and isinstance(st.value, ast.Call):
        call, mode, target = st.value, "assign", st.targets[0]
    elif isinstance(st, ast.AnnAssign) and isinstance(st.value, ast.Call):
        call, mode, target = st.value, "assign", st.target
    if call is None:
        return None
    t = _helper_target(ctx, f, call)
    if t is None:
        return None
    is_gen = any(isinstance(n, (ast.Yield, ast.YieldFrom)) for n in own_nodes(t.node))
    if is_gen != (mode == "yieldfrom"):
        return None
    if mode != "return" and _contains_loop_return(t.node.body):
        return None
    from .rules.mutation import bind_args

    counter[0] += 1
    prefix = f"_h{counter[0]}_"
    mapping = {n: prefix + n for n in _local_names(t.node)}
    pre: List[ast.stmt] = []
    bound = dict(bind_args(t, call))
    a = t.node.args
    names = [x.arg for x in a.posonlyargs + a.args + a.kwonlyargs]
    defaults = dict(zip([x.arg for x in (a.posonlyargs + a.args)][len(a.posonlyargs + a.args) - len(a.defaults):], a.defaults))
    for k, dv in zip(a.kwonlyargs, a.kw_defaults):
        if dv is not None:
            defaults[k.arg] = dv
    for i, nme in enumerate(names):
        if i == 0 and nme in ("self", "cls") and t.cls is not None and not t.is_static and isinstance(call.func, ast.Attribute):
            mapping[nme] = norm(call.func.value) if isinstance(call.func.value, ast.Name) else nme
            continue
        val = bound.get(nme, defaults.get(nme))
        if val is None:
            return None
        pre.append(ast.copy_location(ast.Assign(targets=[ast.Name(id=mapping[nme], ctx=ast.Store())], value=copy.deepcopy(val)), st))
    body = [copy.deepcopy(s) for s in t.node.body if not (isinstance(s, ast.Expr) and isinstance(s.value, ast.Constant))]
    body = [_Rename(mapping).visit(s) for s in body]
    # nested helpers first
    tinfo = FunctionInfo(qualname=t.qualname, name=t.name, module=t.module, node=t.node, cls=t.cls, parent=t.parent)
    body = _inline_block(ctx, tinfo, body, counter, depth - 1) if depth > 1 else body
    if mode == "return":
        return pre + body
    tgt = target if mode == "assign" else None
    early = [n for s_ in body[:-1] for n in ast.walk(s_) if isinstance(n, ast.Return)] + (
        [n for n in ast.walk(body[-1]) if isinstance(n, ast.Return) and n is not body[-1]] if body else [])
    if not early:
        # straight-line helper: the body, then the value of its trailing return (None when it falls off the end)
        out = list(body)
        last = out[-1] if out else None
        if isinstance(last, ast.Return):
            out = out[:-1]
            if tgt is not None:
                out.append(ast.copy_location(ast.Assign(targets=[copy.deepcopy(tgt)], value=last.value or ast.Constant(value=None)), st))
            elif last.value is not None and not isinstance(last.value, ast.Constant):
                out.append(ast.copy_location(ast.Expr(value=last.value), st))
        elif tgt is not None:
            out.append(ast.copy_location(ast.Assign(targets=[copy.deepcopy(tgt)], value=ast.Constant(value=None)), st))
        return pre + out
    new_body = []
    rt = _ReturnTo(tgt, keep_return=False)
    for s_ in body:
        r = rt.visit(s_)
        new_body += r if isinstance(r, list) else [r]
    if not isinstance(new_body[-1], ast.Break):
        if tgt is not None:
            new_body.append(ast.copy_location(ast.Assign(targets=[copy.deepcopy(tgt)], value=ast.Constant(value=None)), st))
        new_body.append(ast.copy_location(ast.Break(), st))
    once = ast.copy_location(ast.While(test=ast.Constant(value=True), body=new_body, orelse=[]), st)
    return pre + [once]


def _inline_block(ctx, f: FunctionInfo, body: List[ast.stmt], counter: List[int], depth: int) -> List[ast.stmt]:
    out: List[ast.stmt] = []
    for st in body:
        rep = _inline_stmt(ctx, f, st, counter, depth) if depth > 0 else None
        if rep is not None:
            out += rep
            continue
        for fld in ("body", "orelse", "finalbody"):
            sub = getattr(st, fld, None)
            if isinstance(sub, list) and sub and isinstance(sub[0], ast.stmt) and not isinstance(st, (ast.FunctionDef, ast.ClassDef)):
                setattr(st, fld, _inline_block(ctx, f, sub, counter, depth))
        for h in getattr(st, "handlers", []) or []:
            h.body = _inline_block(ctx, f, h.body, counter, depth)
        out.append(st)
    return out


def expanded(ctx, f: FunctionInfo, depth: int = 2) -> FunctionInfo:
    """f with the calls to its private same-module helpers inlined (statement-level calls only).  The result is a
    FunctionInfo over a new AST; qualname, module and class are those of f."""
    cache = getattr(ctx, "_expanded", None)
    if cache is None:
        cache = ctx._expanded = {}
    if f.qualname in cache:
        return cache[f.qualname]
    node = copy.deepcopy(f.node)
    counter = [0]
    node.body = _inline_block(ctx, f, node.body, counter, depth)
    if counter[0] == 0:
        cache[f.qualname] = f
        return f
    ast.fix_missing_locations(node)
    g = FunctionInfo(qualname=f.qualname, name=f.name, module=f.module, node=node, cls=f.cls, parent=f.parent)
    g.decorators = list(f.decorators)
    g.nested = dict(f.nested)
    g.is_static = f.is_static
    cache[f.qualname] = g
    return g
