"""E2 - call graph with callee resolution through imports, aliases, the class hierarchy, locally
inferred receiver types, return annotations, the Sid factory indirection, memo decorators and
callable values handed around in lists / parameters.
"""
from __future__ import annotations

import ast
from dataclasses import dataclass, field
from typing import Dict, Iterable, List, Optional, Set, Tuple

from .dataflow import FunctionFlow, flow_of
from .program import ClassInfo, FunctionInfo, Module, Program, Resolved, dotted, norm, own_nodes

# method names that, on a receiver of unknown type, are taken to be the builtin container / str /
# pathlib methods (all summarised in effects.EXTERNAL_SUMMARY)
BUILTIN_METHODS = {
    "get", "copy", "update", "items", "keys", "values", "format", "replace", "split", "rsplit", "join", "count",
    "append", "extend", "remove", "index", "pop", "popitem", "add", "insert", "sort", "clear", "setdefault",
    "startswith", "endswith", "strip", "lower", "upper", "union", "group", "groupdict", "search", "match",
    "sub", "findall", "fullmatch", "exists", "mkdir", "touch", "open", "write_text", "read_text", "with_name",
    "with_suffix", "as_posix", "relative_to", "is_file", "is_dir", "unlink", "rename", "parse", "partition",
    "rpartition", "encode", "decode", "isdigit", "zfill", "title", "capitalize", "discard", "difference",
    "intersection", "info", "debug", "warning", "error", "setLevel", "addHandler", "setFormatter", "read", "write",
    "save", "fromkeys", "find", "lstrip", "rstrip", "splitlines", "cache_clear", "cache_info", "getLogger",
    "iterdir", "glob", "resolve", "expanduser", "close", "load", "dump", "loads", "dumps", "absolute", "samefile",
    "is_symlink", "readlink", "read_bytes", "write_bytes", "stat",
}
# of these, the ones that program classes also define: prefer the program method only when the
# receiver type is known
AMBIGUOUS = {"get", "copy", "find", "match", "exists", "update", "set", "create", "delete", "path", "parent",
             "type", "string", "fields", "name"}


@dataclass
class CallSite:
    caller: FunctionInfo
    node: ast.AST  # ast.Call, or ast.Attribute for a property load
    targets: List[FunctionInfo] = field(default_factory=list)
    external: Optional[str] = None
    via: str = "direct"
    resolved: bool = True
    closure_targets: List[FunctionInfo] = field(default_factory=list)

    @property
    def lineno(self) -> int:
        return getattr(self.node, "lineno", 0)


class CallGraph:
    def __init__(self, program: Program):
        self.p = program
        self.sites: Dict[str, List[CallSite]] = {}
        self.callers: Dict[str, List[CallSite]] = {}
        self._attr_types: Dict[Tuple[str, str], Set[str]] = {}
        self._typing: Set[Tuple[str, int]] = set()
        self._module_fns: Dict[str, FunctionInfo] = {}
        self._build()

    # ------------------------------------------------------------------ pseudo functions for module code
    def module_function(self, m: Module) -> FunctionInfo:
        fi = self._module_fns.get(m.name)
        if fi is None:
            node = ast.FunctionDef(name="<module>", args=ast.arguments(posonlyargs=[], args=[], kwonlyargs=[],
                                                                        kw_defaults=[], defaults=[]),
                                   body=[s for s in m.tree.body if not _is_main(s)], decorator_list=[], lineno=1,
                                   col_offset=0)
            fi = FunctionInfo(qualname=f"{m.name}.<module>", name="<module>", module=m, node=node)
            self._module_fns[m.name] = fi
        return fi

    # ------------------------------------------------------------------ build
    def _build(self):
        fns = list(self.p.functions.values())
        for m in self.p.modules.values():
            fns.append(self.module_function(m))
        for f in fns:
            self.sites[f.qualname] = []
        for f in fns:
            for n in own_nodes(f.node):
                if isinstance(n, ast.Call):
                    cs = self._resolve_call(f, n)
                    self.sites[f.qualname].append(cs)
                    # a local function handed to a callee (sorted(key=f), groupby(xs, f), map(f, xs)) is called on f's behalf
                    nested = getattr(f, "nested", None) or {}
                    for a in list(n.args) + [k.value for k in n.keywords]:
                        if isinstance(a, ast.Name) and a.id in nested:
                            extra = CallSite(caller=f, node=n)
                            extra.targets = self._with_wrappers([nested[a.id]])
                            extra.via = "callable-argument"
                            self.sites[f.qualname].append(extra)
                elif isinstance(n, ast.Attribute) and isinstance(n.ctx, ast.Load):
                    cs = self._resolve_property(f, n)
                    if cs is not None:
                        self.sites[f.qualname].append(cs)
        for q, lst in self.sites.items():
            for cs in lst:
                for t in cs.targets:
                    self.callers.setdefault(t.qualname, []).append(cs)

    def stats(self, kinds=("library", "config")) -> Tuple[int, int]:
        tot = res = 0
        for q, lst in self.sites.items():
            for cs in lst:
                if cs.caller.module.kind not in kinds or not isinstance(cs.node, ast.Call):
                    continue
                tot += 1
                res += 1 if cs.resolved else 0
        return res, tot

    def unresolved(self, kinds=("library", "config")) -> List[CallSite]:
        return [cs for lst in self.sites.values() for cs in lst
                if not cs.resolved and cs.caller.module.kind in kinds and isinstance(cs.node, ast.Call)]

    # ------------------------------------------------------------------ type inference (receiver classes)
    def classes_of_annotation(self, m: Module, ann: Optional[ast.AST], scope: Optional[FunctionInfo] = None) -> Set[str]:
        out: Set[str] = set()
        if ann is None:
            return out
        if isinstance(ann, ast.Constant) and isinstance(ann.value, str):
            try:
                ann = ast.parse(ann.value, mode="eval").body
            except SyntaxError:
                return out
        if isinstance(ann, ast.BinOp) and isinstance(ann.op, ast.BitOr):
            return self.classes_of_annotation(m, ann.left, scope) | self.classes_of_annotation(m, ann.right, scope)
        if isinstance(ann, ast.Subscript):
            head = dotted(ann.value) or ""
            if head.split(".")[-1] in ("Optional", "Union"):
                elts = ann.slice.elts if isinstance(ann.slice, ast.Tuple) else [ann.slice]
                for e in elts:
                    out |= self.classes_of_annotation(m, e, scope)
            return out
        if isinstance(ann, (ast.Name, ast.Attribute)):
            r = self.p.resolve_expr(m, ann, scope)
            if r.kind == "class" and r.cls is not None:
                out.add(r.cls.qualname)
        return out

    def types_of(self, f: FunctionInfo, e: ast.AST, depth: int = 0) -> Set[str]:
        """qualnames of program classes the expression may be an instance of (empty = unknown)"""
        if depth > 6:
            return set()
        key = (f.qualname, id(e))
        if key in self._typing:
            return set()
        self._typing.add(key)
        try:
            return self._types_of(f, e, depth)
        finally:
            self._typing.discard(key)

    def _types_of(self, f: FunctionInfo, e: ast.AST, depth: int) -> Set[str]:
        p = self.p
        if isinstance(e, ast.Name):
            if e.id == "self" and f.cls is not None and "self" in f.params[:1]:
                return {f.cls.qualname}
            if e.id == "cls" and f.cls is not None:
                return set()
            if f.name != "<module>":
                flow = flow_of(f.node)
                if flow.is_local(e.id):
                    out: Set[str] = set()
                    node = flow.node_of(e)
                    defs = flow.defs_reaching(node.id, e.id) if node is not None else [d for d in flow.all_defs if d.var == e.id]
                    for d in defs:
                        if d.kind == "param":
                            out |= self._param_types(f, d.var)
                        elif d.kind in ("assign", "with") and d.value is not None:
                            out |= self.types_of(f, d.value, depth + 1)
                        elif d.kind == "for" and d.value is not None and d.index is None:
                            out |= self._elem_types(f, d.value, depth + 1)
                    return out
            return set()
        if isinstance(e, ast.Call):
            cs = self._resolve_call(f, e, for_typing=True)
            out = set()
            if cs.via == "class" or cs.via == "factory":
                r = p.resolve_expr(f.module, e.func, f if f.name != "<module>" else None)
                if r.kind == "class":
                    return {r.cls.qualname}
            for t in cs.targets:
                if t.name in ("__init__", "__new__"):
                    continue
                out |= self.classes_of_annotation(t.module, t.node.returns, t.parent)
            return out
        if isinstance(e, ast.Attribute):
            # property with a return annotation, or an instance attribute with a known type
            base_types = self.types_of(f, e.value, depth + 1)
            out = set()
            for bt in base_types:
                c = p.classes.get(bt)
                if c is None:
                    continue
                m = p.find_method(c, e.attr)
                if m is not None and m.is_property:
                    out |= self.classes_of_annotation(m.module, m.node.returns, None)
                out |= self._instance_attr_types(c, e.attr)
            return out
        if isinstance(e, ast.BoolOp):
            out = set()
            for v in e.values:
                out |= self.types_of(f, v, depth + 1)
            return out
        if isinstance(e, ast.IfExp):
            return self.types_of(f, e.body, depth + 1) | self.types_of(f, e.orelse, depth + 1)
        if isinstance(e, ast.BinOp) and isinstance(e.op, ast.Div):
            # Sid.__truediv__
            lt = self.types_of(f, e.left, depth + 1)
            out = set()
            for bt in lt:
                c = p.classes.get(bt)
                m = p.find_method(c, "__truediv__") if c else None
                if m is not None:
                    out |= self.classes_of_annotation(m.module, m.node.returns, None)
            return out
        return set()

    def _elem_types(self, f: FunctionInfo, it: ast.AST, depth: int) -> Set[str]:
        """element type of an iterated expression: List[X] / Iterator[X] annotations of callee or param"""
        ann = None
        mod = f.module
        if isinstance(it, ast.Name) and it.id in f.params:
            for a in f.node.args.args + f.node.args.kwonlyargs:
                if a.arg == it.id:
                    ann = a.annotation
        elif isinstance(it, ast.Call):
            cs = self._resolve_call(f, it, for_typing=True)
            out = set()
            for t in cs.targets:
                out |= self._elem_of_annotation(t.module, t.node.returns)
            return out
        return self._elem_of_annotation(mod, ann)

    def _elem_of_annotation(self, m: Module, ann: Optional[ast.AST]) -> Set[str]:
        if ann is None:
            return set()
        if isinstance(ann, ast.BinOp) and isinstance(ann.op, ast.BitOr):
            return self._elem_of_annotation(m, ann.left) | self._elem_of_annotation(m, ann.right)
        if isinstance(ann, ast.Subscript):
            head = (dotted(ann.value) or "").split(".")[-1]
            if head in ("List", "Iterator", "Iterable", "Sequence", "Set", "list", "set"):
                return self.classes_of_annotation(m, ann.slice)
        return set()

    def _param_types(self, f: FunctionInfo, name: str) -> Set[str]:
        a = f.node.args
        for arg in a.posonlyargs + a.args + a.kwonlyargs:
            if arg.arg == name:
                return self.classes_of_annotation(f.module, arg.annotation, f.parent)
        return set()

    def _instance_attr_types(self, c: ClassInfo, attr: str) -> Set[str]:
        key = (c.qualname, attr)
        if key in self._attr_types:
            return self._attr_types[key]
        self._attr_types[key] = set()
        out: Set[str] = set()
        for k in self.p.mro(c) + self.p.subclasses(c):
            for m in k.methods.values():
                for n in own_nodes(m.node):
                    if isinstance(n, ast.Assign):
                        for t in n.targets:
                            if isinstance(t, ast.Attribute) and isinstance(t.value, ast.Name) and t.value.id == "self" \
                                    and t.attr == attr:
                                out |= self.types_of(m, n.value, 2)
        self._attr_types[key] = out
        return out

    # ------------------------------------------------------------------ callable values
    def callables_of(self, f: FunctionInfo, e: ast.AST, depth: int = 0) -> List[FunctionInfo]:
        """functions an expression (or the elements of a list expression) may denote"""
        if depth > 12:
            return []
        p = self.p
        out: List[FunctionInfo] = []
        scope = f if f.name != "<module>" else None
        if isinstance(e, (ast.List, ast.Tuple)):
            for x in e.elts:
                out += self.callables_of(f, x, depth + 1)
            return out
        if isinstance(e, ast.BinOp) and isinstance(e.op, ast.Add):
            return self.callables_of(f, e.left, depth + 1) + self.callables_of(f, e.right, depth + 1)
        if isinstance(e, ast.IfExp):
            return self.callables_of(f, e.body, depth + 1) + self.callables_of(f, e.orelse, depth + 1)
        if isinstance(e, ast.Call):
            # functools.partial(fn, ...)
            if (dotted(e.func) or "").split(".")[-1] == "partial" and e.args:
                return self.callables_of(f, e.args[0], depth + 1)
            # a copy of a list of callables: list(xs) / tuple(xs) / xs.copy()
            if isinstance(e.func, ast.Name) and e.func.id in ("list", "tuple", "sorted", "reversed") and len(e.args) == 1:
                return self.callables_of(f, e.args[0], depth + 1)
            if isinstance(e.func, ast.Attribute) and e.func.attr == "copy" and not e.args:
                return self.callables_of(f, e.func.value, depth + 1)
            return []
        if isinstance(e, ast.Attribute) and isinstance(e.value, ast.Name) and e.value.id in ("self", "cls") and f.cls is not None \
                and f.params and f.params[0] == e.value.id:
            # a bound method taken as a value: the method of the class or of any subclass
            got = self._method_targets([f.cls.qualname], e.attr, include_overrides=True)
            if got:
                return got
        if isinstance(e, (ast.Name, ast.Attribute)):
            if isinstance(e, ast.Name) and scope is not None:
                flow = flow_of(f.node)
                if flow.is_local(e.id):
                    node = flow.node_of(e)
                    defs = flow.defs_reaching(node.id, e.id) if node is not None else [d for d in flow.all_defs if d.var == e.id]
                    for d in defs:
                        if d.kind == "param":
                            out += self._param_callables(f, d.var, depth + 1)
                        elif d.kind in ("assign", "for") and d.value is not None:
                            out += self.callables_of(f, d.value, depth + 1)
                    # callables appended to / extended into the local list
                    for n_ in own_nodes(f.node):
                        if isinstance(n_, ast.Call) and isinstance(n_.func, ast.Attribute) and n_.func.attr in ("append", "extend", "insert") \
                                and isinstance(n_.func.value, ast.Name) and n_.func.value.id == e.id and n_.args:
                            out += self.callables_of(f, n_.args[-1], depth + 1)
                    if out or any(d.kind != "import" and d.kind != "def" for d in defs):
                        return out
            r = p.resolve_expr(f.module, e, scope)
            if r.kind == "func" and r.func is not None:
                return [r.func]
            if r.kind == "value" and r.binding is not None and r.binding.value is not None:
                mf = self.module_function(r.module)
                return self.callables_of(mf, r.binding.value, depth + 1)
        return out

    def _param_callables(self, f: FunctionInfo, param: str, depth: int) -> List[FunctionInfo]:
        out: List[FunctionInfo] = []
        if f.parent is not None and f.name in ("wrapper",) or (f.parent is not None and param in f.parent.params):
            pass
        # decorator parameter: the decorated functions
        if f.parent is None and f.cls is None:
            for g in self.p.functions.values():
                if f.qualname in g.decorators:
                    out.append(g)
        # arguments at call sites (positional or keyword)
        pos = f.params.index(param) if param in f.params else None
        for g in list(self.p.functions.values()) + [self.module_function(m) for m in self.p.modules.values()]:
            for n in own_nodes(g.node):
                if not isinstance(n, ast.Call):
                    continue
                fn_name = (dotted(n.func) or "").split(".")[-1]
                if fn_name != f.name:
                    continue
                r = self.p.resolve_expr(g.module, n.func, g if g.name != "<module>" else None)
                if not (r.kind == "func" and r.func is f):
                    continue
                off = 1 if (f.cls is not None and not f.is_static) else 0
                for kw in n.keywords:
                    if kw.arg == param:
                        out += self.callables_of(g, kw.value, depth + 1)
                if pos is not None and pos - off < len(n.args) and pos - off >= 0:
                    out += self.callables_of(g, n.args[pos - off], depth + 1)
        return out

    # ------------------------------------------------------------------ call resolution
    def _decorator_wrappers(self, t: FunctionInfo) -> List[FunctionInfo]:
        out = []
        for d in t.decorators:
            df = self.p.functions.get(d)
            if df is None:
                continue
            # the nested function that the decorator returns
            for n in df.node.body:
                if isinstance(n, ast.Return) and isinstance(n.value, ast.Name) and n.value.id in df.nested:
                    out.append(df.nested[n.value.id])
        return out

    def _with_wrappers(self, targets: List[FunctionInfo]) -> List[FunctionInfo]:
        out: List[FunctionInfo] = []
        for t in targets:
            for w in self._decorator_wrappers(t):
                if w not in out:
                    out.append(w)
            if t not in out:
                out.append(t)
        return out

    def _method_targets(self, cls_names: Iterable[str], attr: str, include_overrides: bool) -> List[FunctionInfo]:
        out: List[FunctionInfo] = []
        for cn in cls_names:
            c = self.p.classes.get(cn)
            if c is None:
                continue
            m = self.p.find_method(c, attr)
            if m is not None and m not in out:
                out.append(m)
            if include_overrides:
                for k in self.p.subclasses(c):
                    if attr in k.methods and k.methods[attr] not in out:
                        out.append(k.methods[attr])
        return out

    def factory_of(self, c: ClassInfo) -> Optional[FunctionInfo]:
        """``_factory = (module, function)`` class constant consumed by a ``__new__`` in the MRO"""
        new = self.p.find_method(c, "__new__")
        if new is None:
            return None
        if not any(isinstance(n, ast.Attribute) and n.attr == "_factory" for n in ast.walk(new.node)):
            return None
        fac = self.p.find_class_attr(c, "_factory")
        if isinstance(fac, ast.Tuple) and len(fac.elts) == 2 and all(
            isinstance(x, ast.Constant) and isinstance(x.value, str) for x in fac.elts
        ):
            return self.p.functions.get(f"{fac.elts[0].value}.{fac.elts[1].value}")
        return None

    def factory_dispatch(self, fac: FunctionInfo, call: ast.Call) -> List[FunctionInfo]:
        """The factory is an ``if p1: r = f1(..) elif p2: r = f2(..) ...`` chain over its parameters.
        When the call's argument shape decides the branch, the targets are that branch's callees (the
        factory itself has no partial construct of its own: R-TRIPLE/R-INIT check its body); otherwise
        the factory as a whole."""
        if any(kw.arg is None for kw in call.keywords) or any(isinstance(a, ast.Starred) for a in call.args):
            return [fac]
        supplied = set()
        params = fac.params
        for i, _ in enumerate(call.args):
            if i < len(params):
                supplied.add(params[i])
        for kw in call.keywords:
            supplied.add(kw.arg)
        # the branches `if <param>: ...` of the factory, in order: an if/elif chain, or a sequence of guarded blocks
        # (possibly inside a one-shot `while True:`)
        branches: List[Tuple[str, List[ast.stmt]]] = []

        def collect(stmts):
            for st in stmts:
                if isinstance(st, ast.While) and isinstance(st.test, ast.Constant) and st.test.value is True:
                    collect(st.body)
                node = st
                while isinstance(node, ast.If) and isinstance(node.test, ast.Name) and node.test.id in params:
                    branches.append((node.test.id, node.body))
                    if len(node.orelse) == 1 and isinstance(node.orelse[0], ast.If):
                        node = node.orelse[0]
                    else:
                        break

        collect(fac.node.body)
        if not branches:
            return [fac]
        for pname, body in branches:
            if pname in supplied:
                out: List[FunctionInfo] = []
                for n in ast.walk(ast.Module(body=body, type_ignores=[])):
                    if isinstance(n, ast.Call):
                        r = self.p.resolve_expr(fac.module, n.func, fac)
                        if r.kind == "func" and r.func is not None and r.func not in out:
                            out.append(r.func)
                return out or [fac]
        if not supplied:
            return []  # Sid(): the empty instance, built by the factory's fall-through
        return [fac]

    def _resolve_call(self, f: FunctionInfo, call: ast.Call, for_typing: bool = False) -> CallSite:
        p = self.p
        scope = f if f.name != "<module>" else None
        fn = call.func
        cs = CallSite(caller=f, node=call)
        # ---- plain / dotted names resolvable through the symbol tables
        r: Resolved = p.resolve_expr(f.module, fn, scope) if isinstance(fn, (ast.Name, ast.Attribute)) else Resolved("unknown")
        is_local_name = isinstance(fn, ast.Name) and scope is not None and flow_of(f.node).is_local(fn.id) \
            and fn.id not in (scope.nested if scope else {})
        if is_local_name and r.kind in ("unknown",):
            targets = self.callables_of(f, fn)
            if targets:
                cs.targets = self._with_wrappers(targets)
                cs.via = "indirect"
                return cs
            # the factory trampoline: ``fn = getattr(import_module(mod), fn); return fn(*args, **kwargs)``
            if f.name == "__new__" and f.cls is not None and any(
                    isinstance(x, ast.Attribute) and x.attr == "_factory" for x in ast.walk(f.node)):
                facs = [self.factory_of(k) for k in [f.cls] + self.p.subclasses(f.cls)]
                facs = [x for x in dict.fromkeys(facs) if x is not None]
                if facs:
                    cs.targets = self._with_wrappers(facs)
                    cs.via = "factory"
                    return cs
            # bound-method alias: ``done_add = done.add``
            flow = flow_of(f.node)
            node = flow.node_of(fn)
            for d in (flow.defs_reaching(node.id, fn.id) if node is not None else []):
                if d.kind == "assign" and isinstance(d.value, ast.Attribute):
                    cs.external = "method:" + d.value.attr
                    cs.via = "bound-alias"
                    return cs
            cs.resolved = False
            cs.via = "callable-value"
            return cs
        if isinstance(fn, ast.Name) and r.kind == "unknown" and scope is not None and not is_local_name:
            anc = scope.parent
            while anc is not None:
                if fn.id in anc.params:
                    # e.g. ``user_function`` inside a decorator's wrapper.  The edge caller -> decorated
                    # function is added at the decorated function's own call sites (_with_wrappers), so
                    # the wrapper stays context-free: no targets here.
                    cs.closure_targets = list(dict.fromkeys(self._param_callables(anc, fn.id, 1)))
                    cs.via = "closure-param"
                    return cs
                anc = anc.parent
        if r.kind == "func" and r.func is not None:
            cs.targets = self._with_wrappers([r.func])
            return cs
        if r.kind == "class" and r.cls is not None:
            fac = self.factory_of(r.cls)
            if fac is not None and not any(kw.arg == "from_factory" for kw in call.keywords):
                cs.targets = self._with_wrappers(self.factory_dispatch(fac, call))
                cs.via = "factory"
                return cs
            cs.via = "class"
            for special in ("__new__", "__init__"):
                m = p.find_method(r.cls, special)
                if m is not None and not (fac is not None and special == "__new__"):
                    cs.targets.append(m)
            return cs
        if r.kind == "external":
            cs.external = r.name
            return cs
        # ---- method call on an expression
        if isinstance(fn, ast.Attribute):
            recv = fn.value
            types = self.types_of(f, recv)
            if isinstance(recv, ast.Call) and isinstance(recv.func, ast.Name) and recv.func.id == "super" and f.cls is not None:
                mro = p.mro(f.cls)[1:]
                for k in mro:
                    if fn.attr in k.methods:
                        cs.targets = [k.methods[fn.attr]]
                        cs.via = "super"
                        return cs
                cs.external = "object." + fn.attr
                return cs
            if types:
                is_self = isinstance(recv, ast.Name) and recv.id == "self"
                targets = self._method_targets(types, fn.attr, include_overrides=True)
                if targets:
                    cs.targets = self._with_wrappers(targets)
                    cs.via = "self" if is_self else "typed"
                    return cs
                # attribute holding a callable, or a builtin method inherited from object
                cs.external = "method:" + fn.attr
                cs.via = "typed-external"
                return cs
            if fn.attr in BUILTIN_METHODS or fn.attr in AMBIGUOUS:
                cs.external = "method:" + fn.attr
                cs.via = "builtin-method"
                return cs
            # unique method name over the program classes
            owners = [c for c in p.classes.values() if fn.attr in c.methods and c.module.kind != "plugin"]
            if owners:
                targets = []
                for c in owners:
                    if c.methods[fn.attr] not in targets:
                        targets.append(c.methods[fn.attr])
                cs.targets = self._with_wrappers(targets)
                cs.via = "cha"
                return cs
            cs.external = "method:" + fn.attr
            cs.via = "unknown-method"
            cs.resolved = False
            return cs
        if isinstance(fn, ast.Call) or isinstance(fn, ast.Subscript) or isinstance(fn, ast.Lambda):
            cs.via = "computed"
            cs.resolved = False
            return cs
        cs.resolved = False
        cs.external = dotted(fn)
        return cs

    def _resolve_property(self, f: FunctionInfo, n: ast.Attribute) -> Optional[CallSite]:
        # only attributes that are properties somewhere in the program
        owners = [c for c in self.p.classes.values() if n.attr in c.methods and c.methods[n.attr].is_property]
        if not owners:
            return None
        types = self.types_of(f, n.value)
        if types:
            targets = [m for m in self._method_targets(types, n.attr, include_overrides=True) if m.is_property]
            if targets:
                return CallSite(caller=f, node=n, targets=targets, via="property")
            return None
        if n.attr in ("parent", "name"):  # pathlib look-alikes on untyped receivers
            return None
        targets = []
        for c in owners:
            if c.methods[n.attr] not in targets:
                targets.append(c.methods[n.attr])
        return CallSite(caller=f, node=n, targets=targets, via="property-cha")

    # ------------------------------------------------------------------ reachability
    def reachable_from(self, roots: Iterable[FunctionInfo], stop: Iterable[str] = ()) -> Dict[str, Optional[CallSite]]:
        """functions reachable from roots; value = the call site through which each was first reached
        (None for roots).  BFS, so chains are shortest."""
        stop = set(stop)
        seen: Dict[str, Optional[CallSite]] = {}
        queue: List[FunctionInfo] = []
        for r in roots:
            seen[r.qualname] = None
            queue.append(r)
        while queue:
            g = queue.pop(0)
            if g.qualname in stop:
                continue
            for cs in self.sites.get(g.qualname, []):
                for t in cs.targets:
                    if t.qualname not in seen:
                        seen[t.qualname] = cs
                        queue.append(t)
        return seen

    def chain(self, seen: Dict[str, Optional[CallSite]], target: str) -> List[str]:
        out = [target]
        cur = target
        guard = 0
        while seen.get(cur) is not None and guard < 50:
            cs = seen[cur]
            cur = cs.caller.qualname
            out.append(cur)
            guard += 1
        return list(reversed(out))


def _is_main(st: ast.stmt) -> bool:
    from .program import _is_main_guard

    return _is_main_guard(st)
