"""Shared analysis context: everything a rule may ask for, built lazily once per process."""
from __future__ import annotations

import os
import warnings
from typing import Dict, Optional

from .program import Program


class Ctx:
    def __init__(self, repo: str = "/repo", overlay: Optional[Dict[str, str]] = None, tier: str = "quick"):
        with warnings.catch_warnings():
            warnings.simplefilter("ignore")
            self.p_raw = Program(repo, overlay)
            self.normal_form = {"inlined_calls": 0, "helpers": [], "removed": []}
            self.p = self.p_raw
            if os.environ.get("SA_NO_NORMALISE") != "1":
                from .normalise import normalise

                try:
                    trees, report = normalise(self.p_raw)
                    self.normal_form = report
                    if trees:
                        self.p = Program(repo, overlay, trees=trees)
                except Exception as e:  # the pass is an aid: without it the rules see the program as written
                    self.normal_form = {"inlined_calls": 0, "helpers": [], "removed": [], "error": f"{type(e).__name__}: {e}"}
                    self.p = self.p_raw
        self.tier = tier
        self._cg = None
        self._ef = None
        self._conf = None

    @property
    def cg(self):
        if self._cg is None:
            from .callgraph import CallGraph

            self._cg = CallGraph(self.p)
        return self._cg

    @property
    def ef(self):
        if self._ef is None:
            from .effects import Effects

            self._ef = Effects(self.p, self.cg)
        return self._ef

    @property
    def conf(self):
        if self._conf is None:
            from .fold import FoldedConfig

            self._conf = FoldedConfig(self.p)
        return self._conf
