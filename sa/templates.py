"""E7 - template algebra on folded tables.

* checker-side reference of the *documented* template extrapolation and selector replacement
  (C19's statement) - written from the documentation, not derived from the repository's code;
* parsing of templates into placeholders and literal text, the way resolva reads them;
* classification of a placeholder's regular expression with ``re._parser`` (parsing only, nothing is
  ever matched): closed vocabulary / digit shape / open / other.
"""
from __future__ import annotations

import re
import re._parser as sre_parse  # type: ignore
import re._constants as sre_c  # type: ignore
from dataclasses import dataclass, field
from typing import Dict, List, Optional, Sequence, Set, Tuple

SEARCH_SYMBOLS = ("*", ">", "<", ",", "**")
DEFAULT_EXPR = "[^/]*"  # resolva.template._default_placeholder_expression (checked by R-ANCHOR-side rule)


# --------------------------------------------------------------------------------------------------
# reference semantics (documentation of conf.util)
def ref_extrapolate(sid_templates: Dict[str, str], to_extrapolate: Sequence[str], sep: str = "__") -> Dict[str, str]:
    """Keeps every explicit type (template, relative order); directly after each listed type adds, from
    longest to shortest, one type per '/'-prefix of its template that no other type (explicit or already
    generated) owns, named basetype + sep + last key of the prefix, skipped if that name is taken."""
    out: Dict[str, str] = {}
    for sid_type, template in sid_templates.items():
        out[sid_type] = template
        if sid_type not in to_extrapolate:
            continue
        basetype = sid_type.split(sep)[0]
        parts = template.split("/")[:-1]
        for n in range(len(parts), 0, -1):
            prefix = "/".join(parts[:n])
            key = parts[n - 1].split(":")[0].replace("{", "").replace("}", "")
            name = basetype + sep + key
            if prefix in set(sid_templates.values()) | set(out.values()):
                continue
            if name in set(sid_templates.keys()) | set(out.keys()):
                continue
            out[name] = prefix
    return out


def ref_pattern_replacing(templates: Dict[str, str], key_patterns: Dict[str, Dict[str, str]]) -> None:
    """In place: for each type, for each selector that occurs in the type name, apply the selector's
    find -> replace pairs to the template (selectors and pairs in table order)."""
    for typ, template in list(templates.items()):
        for selector, pairs in key_patterns.items():
            if selector in typ:
                for find, repl in pairs.items():
                    template = template.replace(find, repl)
        templates[typ] = template


# --------------------------------------------------------------------------------------------------
# templates as resolva reads them
_PLACEHOLDER = re.compile(r"{(?P<placeholder>.+?)(:(?P<expression>(\\}|.)+?))?}")


@dataclass
class Piece:
    kind: str  # 'lit' | 'ph'
    text: str  # literal text, or placeholder name
    expr: Optional[str] = None  # regular expression of the placeholder (None = default)


def parse_template(template: str) -> List[Piece]:
    out: List[Piece] = []
    pos = 0
    for m in _PLACEHOLDER.finditer(template):
        if m.start() > pos:
            out.append(Piece("lit", template[pos:m.start()]))
        expr = m.group("expression")
        if expr is not None:
            expr = expr.replace("\\{", "{").replace("\\}", "}")
        out.append(Piece("ph", m.group("placeholder"), expr))
        pos = m.end()
    if pos < len(template):
        out.append(Piece("lit", template[pos:]))
    return out


def placeholders(template: str) -> List[str]:
    return [p.text for p in parse_template(template) if p.kind == "ph"]


def segments(template: str) -> List[List[Piece]]:
    """pieces grouped by '/'-separated path segment (a '/' only counts inside literal text)"""
    segs: List[List[Piece]] = [[]]
    for p in parse_template(template):
        if p.kind == "ph":
            segs[-1].append(p)
            continue
        parts = p.text.split("/")
        for i, part in enumerate(parts):
            if i > 0:
                segs.append([])
            if part:
                segs[-1].append(Piece("lit", part))
    return segs


# --------------------------------------------------------------------------------------------------
# regular expression classes
@dataclass
class Lang:
    kind: str  # 'closed' 'digits' 'open' 'mixed' 'other'
    words: Tuple[str, ...] = ()  # closed: concrete literal alternatives (search symbols excluded)
    symbols: Tuple[str, ...] = ()  # search symbols accepted as alternatives
    shapes: Tuple[Tuple[str, int], ...] = ()  # digits: (literal prefix, number of digits)
    can_contain_sep: bool = False  # the language contains a string with '/'
    raw: str = ""

    def describe(self) -> str:
        if self.kind == "closed":
            return f"closed{list(self.words)}+{list(self.symbols)}"
        if self.kind == "digits":
            return f"digits{list(self.shapes)}+{list(self.symbols)}"
        if self.kind == "mixed":
            return f"mixed words={list(self.words)} shapes={list(self.shapes)}+{list(self.symbols)}"
        return self.kind


def _alt_branches(parsed) -> List[list]:
    """top-level alternatives of a parsed pattern (descending through one enclosing group)"""
    items = list(parsed)
    if len(items) == 1 and items[0][0] is sre_c.SUBPATTERN:
        return _alt_branches(items[0][1][3])
    if len(items) == 1 and items[0][0] is sre_c.BRANCH:
        return [list(b) for b in items[0][1][1]]
    # sre factors out common prefixes: LITERAL 'v' then BRANCH ... -> expand
    for i, it in enumerate(items):
        if it[0] is sre_c.BRANCH:
            head, tail = items[:i], items[i + 1:]
            out = []
            for b in it[1][1]:
                out.append(head + list(b) + tail)
            return out
    return [items]


def _flatten(branch: list) -> List[list]:
    """expand nested BRANCH / SUBPATTERN inside a branch into plain sequences"""
    seqs: List[list] = [[]]
    for it in branch:
        op, av = it
        if op is sre_c.SUBPATTERN:
            subs = []
            for b in _alt_branches(av[3]):
                subs += _flatten(b)
            seqs = [s + x for s in seqs for x in subs]
        elif op is sre_c.BRANCH:
            subs = []
            for b in av[1]:
                subs += _flatten(list(b))
            seqs = [s + x for s in seqs for x in subs]
        else:
            seqs = [s + [it] for s in seqs]
    return seqs


def may_contain(expr: Optional[str], chars) -> bool:
    """some string of L(expr) contains one of ``chars`` (decided on the expression by NFA product; True when undecidable here)"""
    import re as _re

    from . import nfa

    raw = DEFAULT_EXPR if expr is None else expr
    for ch in chars:
        try:
            if nfa.witness_of_intersection(raw, r"[\s\S]*" + _re.escape(ch) + r"[\s\S]*") is not None:
                return True
        except Exception:
            return True
    return False


def classify(expr: Optional[str], sep: str = "/") -> Lang:
    raw = DEFAULT_EXPR if expr is None else expr
    try:
        parsed = sre_parse.parse(raw)
    except Exception:
        return Lang("other", raw=raw, can_contain_sep=True)
    words: List[str] = []
    symbols: List[str] = []
    shapes: List[Tuple[str, int]] = []
    open_ = False
    other = False
    contains_sep = False
    for br in _alt_branches(parsed):
        for seq in _flatten(br):
            lit = ""
            ndig = 0
            ok = True
            state = "lit"
            if len(seq) == 1 and seq[0][0] is sre_c.IN and all(x[0] is sre_c.LITERAL for x in seq[0][1]):
                # single-character alternatives are folded into a character set by the parser
                for x in seq[0][1]:
                    ch = chr(x[1])
                    (symbols if ch in SEARCH_SYMBOLS else words).append(ch)
                    if ch == sep:
                        contains_sep = True
                continue
            for op, av in seq:
                if op is sre_c.LITERAL and state == "lit":
                    lit += chr(av)
                elif op is sre_c.IN and av == [(sre_c.CATEGORY, sre_c.CATEGORY_DIGIT)]:
                    state = "dig"
                    ndig += 1
                elif op is sre_c.MAX_REPEAT and len(seq) == 1:
                    lo, hi, sub = av
                    sub = list(sub)
                    if len(sub) == 1 and sub[0][0] is sre_c.NOT_LITERAL:
                        if chr(sub[0][1]) != sep:
                            contains_sep = True
                        open_ = True
                        ok = None
                        break
                    if len(sub) == 1 and sub[0][0] is sre_c.IN:
                        items = sub[0][1]
                        if items and items[0][0] is sre_c.NEGATE:
                            excluded = {chr(x[1]) for x in items[1:] if x[0] is sre_c.LITERAL}
                            if sep not in excluded:
                                contains_sep = True
                            open_ = True
                            ok = None
                            break
                    ok = False
                    break
                else:
                    ok = False
                    break
            if ok is None:
                continue
            if not ok:
                other = True
                contains_sep = True  # unknown shape: assume the worst
                continue
            if ndig:
                shapes.append((lit, ndig))
            elif lit in SEARCH_SYMBOLS:
                symbols.append(lit)
            else:
                words.append(lit)
                if sep in lit:
                    contains_sep = True
    if other:
        # a shape this classifier has no name for: whether it can contain the separator is still decidable on the expression
        return Lang("other", tuple(words), tuple(symbols), tuple(shapes), may_contain(raw, [sep]), raw)
    if open_:
        return Lang("open", tuple(words), tuple(symbols), tuple(shapes), contains_sep, raw)
    if shapes and not words:
        return Lang("digits", (), tuple(symbols), tuple(shapes), contains_sep, raw)
    if words and not shapes:
        return Lang("closed", tuple(words), tuple(symbols), (), contains_sep, raw)
    if words and shapes:
        return Lang("mixed", tuple(words), tuple(symbols), tuple(shapes), contains_sep, raw)
    return Lang("closed", (), tuple(symbols), (), contains_sep, raw)


REGEX_META = set(".^$*+?{}[]\\|()")


def literal_metachars(template: str) -> List[Tuple[str, str]]:
    """(literal text, metacharacter) for every regex-special character in the literal parts of a
    template: resolva inserts literal text into the regular expression unescaped."""
    out = []
    for p in parse_template(template):
        if p.kind == "lit":
            for ch in p.text:
                if ch in REGEX_META:
                    out.append((p.text, ch))
    return out
