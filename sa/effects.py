"""E5 - exception effects: which exceptions can escape a function, with the originating construct
and the call chain (rule R-EXC uses this).

Partial constructs (closed list):
  explicit ``raise``; tuple-unpacking of ``str.split/rsplit/partition`` results; non-slice
  subscript loads; ``dict.pop(k)`` without default; ``list.remove`` / ``list.index``; ``int()`` /
  ``float()`` on non-constants; ``next()`` without default; ``getattr`` without default; calls to
  externals that have a raising entry in EXTERNAL_RAISES.
Automatic discharges (must be visible in the CFG of the same function):
  constant index 0 / -1 on a split result; ``d[k]`` / ``d.pop(k)`` inside ``for k in d``-like loops
  or under an ``if k in d`` test; ``L.index(x)`` / ``L.remove(x)`` under ``if x in L`` or inside a
  ``for x in L.copy()`` loop; abstract-method ``raise NotImplementedError``; a constant regular
  expression; enclosing ``try`` with a matching handler that does not re-raise.
"""
from __future__ import annotations

import ast
import builtins
from dataclasses import dataclass, field
from typing import Dict, FrozenSet, Iterable, List, Optional, Set, Tuple

from .callgraph import CallGraph, CallSite
from .cfg import CFG, cfg_of
from .program import FunctionInfo, Program, dotted, norm, own_nodes

# exceptions raised by external callables (class names).  Only what the entry points care about.
EXTERNAL_RAISES: Dict[str, Tuple[str, ...]] = {
    "json.load": ("JSONDecodeError", "OSError", "UnicodeDecodeError"),
    "json.loads": ("JSONDecodeError",),
    "json.dump": ("OSError", "TypeError"),
    "builtins.open": ("OSError",),
    "method:open": ("OSError",),
    "method:mkdir": ("OSError",),
    "method:touch": ("OSError",),
    "method:write_text": ("OSError",),
    "method:read_text": ("OSError",),
    "method:unlink": ("OSError",),
    "method:rename": ("OSError",),
    "os.replace": ("OSError",),
    "os.rename": ("OSError",),
    "os.remove": ("OSError",),
    "os.makedirs": ("OSError",),
    "shutil.copy2": ("OSError",),
    "shutil.copy": ("OSError",),
    "shutil.move": ("OSError",),
    "importlib.import_module": ("ImportError",),
    "re.compile": ("re.error",),
    "re.match": ("re.error",),
    "re.search": ("re.error",),
    "re.fullmatch": ("re.error",),
    "re.sub": ("re.error",),
    "method:index": ("ValueError",),
    "method:remove": ("ValueError",),
    "builtins.next": ("StopIteration",),
    "builtins.int": ("ValueError",),
    "builtins.float": ("ValueError",),
    "builtins.getattr": ("AttributeError",),
}

_EXTRA_BASES = {
    "JSONDecodeError": "ValueError",
    "re.error": "Exception",
    "error": "Exception",
    "UnicodeDecodeError": "ValueError",
}


class ExcHierarchy:
    def __init__(self, program: Program):
        self.bases: Dict[str, str] = dict(_EXTRA_BASES)
        for c in program.classes.values():
            for b in c.base_names:
                bn = b.split(".")[-1]
                if self._is_exc_name(bn) or bn in self.bases:
                    self.bases[c.name] = bn
        # second pass for program classes deriving from program exception classes
        for c in program.classes.values():
            for b in c.base_names:
                bn = b.split(".")[-1]
                if bn in self.bases and c.name not in self.bases:
                    self.bases[c.name] = bn

    @staticmethod
    def _is_exc_name(name: str) -> bool:
        o = getattr(builtins, name, None)
        return isinstance(o, type) and issubclass(o, BaseException)

    def is_exception(self, name: str) -> bool:
        return name in self.bases or self._is_exc_name(name)

    def ancestors(self, name: str) -> List[str]:
        out = [name]
        cur = name
        guard = 0
        while guard < 20:
            guard += 1
            if cur in self.bases:
                cur = self.bases[cur]
                out.append(cur)
                continue
            o = getattr(builtins, cur, None)
            if isinstance(o, type) and issubclass(o, BaseException):
                out += [k.__name__ for k in o.__mro__[1:] if k is not object]
            break
        return out

    def is_sub(self, a: str, b: str) -> bool:
        return b in self.ancestors(a)

    def caught_by(self, exc: str, handler_names: Iterable[str]) -> bool:
        return any(self.is_sub(exc, h) for h in handler_names)


@dataclass(frozen=True)
class RaisePoint:
    fn: str  # qualname of the function containing the construct
    text: str  # normalised construct text (the site key)
    exc: str  # exception class name
    kind: str  # 'raise' 'unpack' 'subscript' 'pop' 'call:<ext>' ...
    lineno: int

    @property
    def key(self) -> Tuple[str, str]:
        return (self.fn, self.text)


@dataclass
class Escape:
    point: RaisePoint
    chain: Tuple[str, ...]  # function qualnames from the summarised function down to the raising one


class Effects:
    def __init__(self, program: Program, cg: CallGraph):
        self.p = program
        self.cg = cg
        self.h = ExcHierarchy(program)
        self._points: Dict[str, List[Tuple[RaisePoint, ast.AST]]] = {}
        self._discharged: Dict[str, List[Tuple[RaisePoint, str]]] = {}
        self._escapes: Dict[str, Dict[Tuple[str, str, str], Escape]] = {}
        self._solved = False

    # ------------------------------------------------------------------ handlers
    def handlers_around(self, f: FunctionInfo, node: ast.AST) -> List[Tuple[List[str], bool]]:
        """(handler class names, re_raises) for every try whose *body* encloses ``node``, innermost
        first.  One entry per except clause."""
        out: List[Tuple[List[str], bool]] = []

        def visit(stmts, stack):
            for st in stmts:
                if isinstance(st, (ast.FunctionDef, ast.AsyncFunctionDef, ast.ClassDef)):
                    continue
                if isinstance(st, ast.Try):
                    hs = [(_handler_names(h), _reraises(h)) for h in st.handlers]
                    if _contains(st.body, node):
                        return visit(st.body, hs + stack)
                    for part in (st.orelse, st.finalbody):
                        if _contains(part, node):
                            return visit(part, stack)
                    for h in st.handlers:
                        if _contains(h.body, node):
                            return visit(h.body, stack)
                else:
                    if _contains([st], node):
                        for fld in ("body", "orelse"):
                            sub = getattr(st, fld, None)
                            if isinstance(sub, list) and _contains(sub, node):
                                return visit(sub, stack)
                        return stack
            return stack

        return visit(f.node.body, [])

    def caught_locally(self, f: FunctionInfo, node: ast.AST, exc: str) -> bool:
        for names, reraises in self.handlers_around(f, node):
            if self.h.caught_by(exc, names):
                return not reraises
        return False

    # ------------------------------------------------------------------ local raise points
    def points(self, f: FunctionInfo) -> List[Tuple[RaisePoint, ast.AST]]:
        if f.qualname not in self._points:
            self._points[f.qualname], self._discharged[f.qualname] = self._compute_points(f)
        return self._points[f.qualname]

    def auto_discharged(self, f: FunctionInfo) -> List[Tuple[RaisePoint, str]]:
        self.points(f)
        return self._discharged[f.qualname]

    def _compute_points(self, f: FunctionInfo):
        pts: List[Tuple[RaisePoint, ast.AST]] = []
        dis: List[Tuple[RaisePoint, str]] = []
        if f.name == "<module>":
            return pts, dis
        cfg = cfg_of(f.node)
        sites = {id(cs.node): cs for cs in self.cg.sites.get(f.qualname, [])}

        def add(node, exc, kind, why_ok: Optional[str] = None):
            rp = RaisePoint(f.qualname, norm(node) if not isinstance(node, str) else node, exc, kind,
                            getattr(node, "lineno", 0))
            if why_ok:
                dis.append((rp, why_ok))
            else:
                pts.append((rp, node))

        # ---- attribute of a caught exception object that its class does not have
        for h in own_nodes(f.node):
            if isinstance(h, ast.ExceptHandler) and h.name and h.type is not None:
                classes = _handler_names(h)
                for x in ast.walk(ast.Module(body=h.body, type_ignores=[])):
                    if isinstance(x, ast.Attribute) and isinstance(x.value, ast.Name) and x.value.id == h.name \
                            and isinstance(x.ctx, ast.Load) and not x.attr.startswith("__"):
                        missing = [c for c in classes if not self._exc_has_attr(c, x.attr)]
                        if missing:
                            add(x, "AttributeError", "handler-attr")
        # ---- a dictionary / set / list changed in size while it is being iterated
        for lp in own_nodes(f.node):
            if not isinstance(lp, ast.For):
                continue
            it = lp.iter
            kind_ = "list"
            if isinstance(it, ast.Call) and isinstance(it.func, ast.Attribute) and it.func.attr in ("items", "keys", "values") and not it.args:
                it, kind_ = it.func.value, "dict"
            if not isinstance(it, (ast.Name, ast.Attribute)):
                continue
            base = norm(it)
            for x in ast.walk(ast.Module(body=lp.body, type_ignores=[])):
                grow = None
                if isinstance(x, ast.Call) and isinstance(x.func, ast.Attribute) and norm(x.func.value) == base:
                    if x.func.attr in ("pop", "popitem", "clear", "remove", "discard", "add") or (kind_ == "dict" and x.func.attr in ("update", "setdefault")):
                        grow = x
                    if kind_ == "list" and x.func.attr in ("pop", "remove", "clear", "add", "discard"):
                        grow = x
                elif isinstance(x, ast.Delete) and any(isinstance(t, ast.Subscript) and norm(t.value) == base for t in x.targets):
                    grow = x
                if grow is not None and kind_ == "dict":
                    add(grow, "RuntimeError", "mutation-while-iterating")
                elif grow is not None and isinstance(grow, ast.Call) and grow.func.attr in ("add", "discard", "remove", "pop", "clear") \
                        and self._is_set_or_dict_name(f, it):
                    add(grow, "RuntimeError", "mutation-while-iterating")
        # ---- use of a value that the callee may have answered with None
        for rp_node, exc_, why_ok, src in self._none_derefs(f, cfg, sites):
            add(rp_node, exc_, "none-deref:" + src, why_ok)
        for n in own_nodes(f.node):
            # ---- explicit raise
            if isinstance(n, ast.Raise):
                if n.exc is None:
                    continue  # bare re-raise: handled through the handler's re_raises flag
                exc = self._raised_class(f, n.exc)
                if exc == "NotImplementedError" and _is_abstract_body(f.node):
                    add(n, exc, "raise", "abstract method (body is only raise NotImplementedError)")
                    continue
                if exc is None:
                    continue  # ``raise <param>`` resolved at the call sites (see _param_raise)
                add(n, exc, "raise")
            # ---- tuple unpack of a split
            elif isinstance(n, ast.Assign) and isinstance(n.targets[0], (ast.Tuple, ast.List)) and isinstance(n.value, ast.Call):
                fn = n.value.func
                if isinstance(fn, ast.Attribute) and fn.attr in ("split", "rsplit"):
                    ntargets = len(n.targets[0].elts)
                    ok = self._split_arity_guard(f, cfg, n, ntargets)
                    add(n, "ValueError", "unpack", ok)
            # ---- subscript loads
            elif isinstance(n, ast.Subscript) and isinstance(n.ctx, ast.Load) and not isinstance(n.slice, ast.Slice):
                if self._is_annotation(f, n):
                    continue
                ok = self._subscript_guard(f, cfg, n)
                add(n, "LookupError", "subscript", ok)
            elif isinstance(n, ast.Call):
                cs = sites.get(id(n))
                ext = cs.external if cs is not None else None
                fnn = n.func
                # "<text that already contains data>".format(..): the data is parsed as a format string ('{', '}' in a path,
                # a name, a message raise KeyError / IndexError / ValueError)
                if isinstance(fnn, ast.Attribute) and fnn.attr == "format" and self._computed_format_string(f, fnn.value, n):
                    for exc_ in ("LookupError", "ValueError"):
                        add(n, exc_, "format-of-formatted")
                # dict.pop(k) without default
                if isinstance(fnn, ast.Attribute) and fnn.attr == "pop" and len(n.args) == 1 and not n.keywords \
                        and ext == "method:pop":
                    ok = self._membership_guard(f, cfg, n, fnn.value, n.args[0])
                    add(n, "KeyError", "pop", ok)
                    continue
                if ext in EXTERNAL_RAISES:
                    ok = None
                    if ext in ("method:index", "method:remove") and isinstance(fnn, ast.Attribute) and n.args:
                        ok = self._membership_guard(f, cfg, n, fnn.value, n.args[0])
                    elif ext in ("builtins.int", "builtins.float"):
                        if n.args and isinstance(n.args[0], ast.Constant) and isinstance(n.args[0].value, (int, float)):
                            ok = "numeric constant"
                        elif n.args and isinstance(n.args[0], ast.Call) and (dotted(n.args[0].func) or "") in (
                                "time.time", "len", "round", "abs", "time.perf_counter"):
                            ok = "numeric argument"
                        elif not n.args:
                            ok = "no argument"
                    elif ext == "builtins.next" and len(n.args) >= 2:
                        ok = "default given"
                    elif ext == "builtins.getattr" and len(n.args) >= 3:
                        ok = "default given"
                    elif ext.startswith("re.") and n.args and self._is_const_str(f, n.args[0]):
                        ok = "constant pattern"
                    elif ext.startswith("method:") and ext[7:] in ("open", "mkdir", "touch", "write_text", "read_text",
                                                                   "unlink", "rename") and not self._pathish(f, fnn):
                        continue
                    for exc in EXTERNAL_RAISES[ext]:
                        add(n, exc, "call:" + ext, ok)
        return pts, dis

    def _exc_has_attr(self, cname: str, attr: str) -> bool:
        if attr in ("args", "with_traceback", "add_note"):
            return True
        for c in self.p.classes.values():
            if c.name == cname:
                for k in self.p.mro(c):
                    if attr in k.methods or attr in k.attrs:
                        return True
                    for m in k.methods.values():
                        for n in own_nodes(m.node):
                            if isinstance(n, ast.Attribute) and isinstance(n.ctx, ast.Store) and n.attr == attr \
                                    and isinstance(n.value, ast.Name) and n.value.id == "self":
                                return True
                    for b in k.base_names:
                        o = getattr(builtins, b.split(".")[-1], None)
                        if isinstance(o, type) and hasattr(o, attr):
                            return True
                return False
        o = getattr(builtins, cname, None)
        if isinstance(o, type):
            if hasattr(o, attr):
                return True
            return attr in {"OSError": ("errno", "strerror", "filename", "filename2"),
                            "UnicodeDecodeError": ("encoding", "object", "start", "end", "reason")}.get(cname, ())
        if cname == "JSONDecodeError":
            return attr in ("msg", "doc", "pos", "lineno", "colno")
        return True  # unknown class: no claim

    # ---- helpers for guards ------------------------------------------------------------------
    def _is_annotation(self, f: FunctionInfo, sub: ast.Subscript) -> bool:
        for a in ast.walk(f.node.args):
            if a is sub:
                return True
        if f.node.returns is not None:
            for a in ast.walk(f.node.returns):
                if a is sub:
                    return True
        for n in own_nodes(f.node):
            if isinstance(n, ast.AnnAssign):
                for a in ast.walk(n.annotation):
                    if a is sub:
                        return True
        return False

    def _pathish(self, f: FunctionInfo, fn: ast.Attribute) -> bool:
        return True

    def _is_const_str(self, f: FunctionInfo, e: ast.AST) -> bool:
        return isinstance(e, ast.Constant) and isinstance(e.value, str)

    def _raised_class(self, f: FunctionInfo, exc: ast.AST) -> Optional[str]:
        target = exc.func if isinstance(exc, ast.Call) else exc
        name = dotted(target)
        if name:
            last = name.split(".")[-1]
            if self.h.is_exception(last):
                return last
            if isinstance(exc, ast.Name) and exc.id in f.params:
                return None
            # a local variable bound by ``except ... as e`` or unknown expression
        return "Exception"

    def _dominating_tests(self, cfg: CFG, node: ast.AST) -> List[Tuple[ast.AST, str]]:
        """(test expression, 'true'|'false') for every if/while test that dominates the node with
        only that branch leading to it."""
        n = cfg.node_of(node)
        if n is None:
            return []
        out = []
        for t in cfg.nodes:
            if t.kind != "test" or isinstance(t.ast, ast.Assert) or t.id == n.id:
                continue
            if not cfg.dominates(t.id, n.id):
                continue
            for lab in ("true", "false"):
                other = "false" if lab == "true" else "true"
                # reachable only through `lab` edge  <=>  unreachable when that edge is removed
                if not cfg.path_exists(t.id, n.id, skip_edges=[(t.id, lab)]):
                    out.append((t.ast.test, lab))
        return out

    def _enclosing_for(self, f: FunctionInfo, node: ast.AST) -> List[ast.For]:
        out = []
        for n in own_nodes(f.node):
            if isinstance(n, ast.For) and any(x is node for b in n.body for x in ast.walk(b)):
                out.append(n)
        return out

    def _keys_of(self, f: FunctionInfo, e: ast.AST, at: ast.AST) -> str:
        """the mapping / sequence whose keys (elements) ``e`` ranges over: locals with one definition are read through,
        list() / sorted() / .keys() / .items() / .copy() and slices are stripped"""
        from .shape import inline_locals

        try:
            base = inline_locals(f, e, at)
        except Exception:
            base = e
        for _ in range(6):
            if isinstance(base, ast.Call) and isinstance(base.func, ast.Attribute) and base.func.attr in ("keys", "items", "copy") and not base.args:
                base = base.func.value
            elif isinstance(base, ast.Call) and isinstance(base.func, ast.Name) and base.func.id in ("list", "sorted", "tuple", "set") \
                    and len(base.args) == 1 and not base.keywords:
                base = base.args[0]
            elif isinstance(base, ast.Subscript) and isinstance(base.slice, ast.Slice):
                base = base.value
            else:
                break
        return norm(base)

    def _membership_guard(self, f: FunctionInfo, cfg: CFG, node: ast.AST, container: ast.AST, key: ast.AST) -> Optional[str]:
        ctext, ktext = norm(container), norm(key)
        # the sense of the tests (dominating, short-circuit, conditional expression), not their spelling
        from .shape import _atomise, _norm_fact

        cbase = self._keys_of(f, container, node)
        for test, lab in list(self._dominating_tests(cfg, node)) + list(_short_circuit_facts(f.node, node)):
            for e_, truth_ in _atomise(test, lab == "true"):
                if truth_ and _norm_fact(e_) == f"{ktext} in {ctext}":
                    return f"guarded by `{ktext} in {ctext}`"
                if truth_ and isinstance(e_, ast.Compare) and len(e_.ops) == 1 and isinstance(e_.ops[0], ast.In) and norm(e_.left) == ktext \
                        and self._keys_of(f, e_.comparators[0], node) == cbase:
                    return f"guarded by `{norm(e_)}` (the same keys as `{ctext}`)"
        # the key ranges over the container's own keys in an enclosing comprehension
        for comp in [n for n in own_nodes(f.node) if isinstance(n, (ast.ListComp, ast.SetComp, ast.DictComp, ast.GeneratorExp))
                     and any(x is node for x in ast.walk(n))]:
            for gen in comp.generators:
                tnames = [norm(t) for t in (gen.target.elts if isinstance(gen.target, ast.Tuple) else [gen.target])]
                if tnames and tnames[0] == ktext and self._keys_of(f, gen.iter, comp) == cbase:
                    return f"key iterates over `{norm(gen.iter)}`"
                # `... for k in ks if k in d`: the element expression is evaluated only where the filter holds; a filter of the
                # generator `ks = (k for k in .. if k in d)` that hands its elements on unchanged counts as well
                filters = list(gen.ifs)
                if tnames and tnames[0] == ktext and isinstance(gen.iter, ast.Name):
                    from .dataflow import flow_of as _flow_of

                    fl_ = _flow_of(f.node)
                    at_ = fl_.node_of(comp)
                    ds_ = fl_.defs_reaching(at_.id, gen.iter.id) if at_ is not None else []
                    if len(ds_) == 1 and isinstance(ds_[0].value, (ast.GeneratorExp, ast.ListComp)) and len(ds_[0].value.generators) == 1:
                        src = ds_[0].value
                        if isinstance(src.elt, ast.Name) and norm(src.generators[0].target) == src.elt.id == ktext:
                            filters += list(src.generators[0].ifs)
                if not any(x is node for c_ in gen.ifs for x in ast.walk(c_)) and not any(x is node for x in ast.walk(gen.iter)):
                    for c_ in filters:
                        for e_, truth_ in _atomise(c_, True):
                            if truth_ and (_norm_fact(e_) == f"{ktext} in {ctext}" or (
                                    isinstance(e_, ast.Compare) and len(e_.ops) == 1 and isinstance(e_.ops[0], ast.In) and norm(e_.left) == ktext
                                    and self._keys_of(f, e_.comparators[0], comp) == cbase)):
                                return f"guarded by the comprehension filter `{norm(c_)}`"
        for test, lab in self._dominating_tests(cfg, node):
            for cmp_ in [x for x in ast.walk(test) if isinstance(x, ast.Compare)]:
                if len(cmp_.ops) != 1:
                    continue
                left, right = norm(cmp_.left), norm(cmp_.comparators[0])
                right_base = right[:-7] if right.endswith(".keys()") else right
                if left == ktext and right_base == ctext:
                    if isinstance(cmp_.ops[0], ast.In) and lab == "true" and _conj(test, cmp_):
                        return f"guarded by `{left} in {right}`"
                    if isinstance(cmp_.ops[0], ast.NotIn) and lab == "false" and _disj(test, cmp_):
                        return f"guarded by early exit on `{left} not in {right}`"
        for loop in self._enclosing_for(f, node):
            it = loop.iter
            tnames = [norm(t) for t in (loop.target.elts if isinstance(loop.target, ast.Tuple) else [loop.target])]
            if ktext not in tnames:
                continue
            base = it
            # for k in d / d.keys() / d.copy() / d.copy().items() / d.items() / list(d) / sorted(d)
            for _ in range(3):
                if isinstance(base, ast.Call) and isinstance(base.func, ast.Attribute) and base.func.attr in (
                        "keys", "items", "copy") and not base.args:
                    base = base.func.value
                elif isinstance(base, ast.Call) and isinstance(base.func, ast.Name) and base.func.id in (
                        "list", "sorted", "tuple", "set") and len(base.args) == 1:
                    base = base.args[0]
            if norm(base) == ctext and (tnames[0] == ktext):
                # removing / popping the loop's element is total only once per iteration
                if isinstance(node, ast.Call) and isinstance(node.func, ast.Attribute) and node.func.attr in ("remove", "pop"):
                    head = cfg.node_of(loop)
                    me = cfg.node_of(node)
                    for other in ast.walk(ast.Module(body=loop.body, type_ignores=[])):
                        if other is node or not (isinstance(other, ast.Call) and isinstance(other.func, ast.Attribute)
                                                 and other.func.attr in ("remove", "pop") and norm(other.func.value) == ctext
                                                 and other.args and norm(other.args[0]) == ktext):
                            continue
                        on = cfg.node_of(other)
                        if head is not None and me is not None and on is not None and cfg.path_exists(
                                on.id, me.id, avoid=[head.id], exceptional=False):
                            return None  # a second removal of the same element in one iteration
                return f"key iterates over `{norm(it)}`"
        return None

    def _subscript_guard(self, f: FunctionInfo, cfg: CFG, sub: ast.Subscript) -> Optional[str]:
        v, s = sub.value, sub.slice
        idx = _const_int(s)
        if idx in (0, -1) and self._is_split_value(f, v, sub):
            return "first/last element of a split result (never empty)"
        if idx is not None and isinstance(v, ast.Call) and isinstance(v.func, ast.Attribute) \
                and v.func.attr in ("partition", "rpartition") and -3 <= idx <= 2:
            return "partition always yields three parts"
        if isinstance(v, (ast.Tuple, ast.List)) and idx is not None and -len(v.elts) <= idx < len(v.elts):
            return "constant container"
        if idx is not None and isinstance(v, ast.Call) and (dotted(v.func) or "") in ("os.path.splitext", "os.path.split", "os.path.splitdrive",
                                                                                         "divmod") and -2 <= idx <= 1:
            return "a pair by construction"
        # a literal key of a dictionary display: directly, or the class-level table self.X / cls.X that nothing assigns
        table = v if isinstance(v, ast.Dict) else None
        if table is None and isinstance(v, ast.Attribute) and isinstance(v.value, ast.Name) and v.value.id in ("self", "cls") and f.cls is not None:
            cand = self.p.find_class_attr(f.cls, v.attr)
            assigned = any(isinstance(n, ast.Attribute) and n.attr == v.attr and isinstance(n.ctx, (ast.Store, ast.Del))
                           for m in self.p.modules.values() if m.kind != "dep" for n in ast.walk(m.tree))
            mutated = any(isinstance(n, ast.Subscript) and isinstance(n.ctx, (ast.Store, ast.Del)) and isinstance(n.value, ast.Attribute)
                          and n.value.attr == v.attr for m in self.p.modules.values() if m.kind != "dep" for n in ast.walk(m.tree))
            if isinstance(cand, ast.Dict) and not assigned and not mutated:
                table = cand
        if table is not None and isinstance(s, ast.Constant) and any(isinstance(k, ast.Constant) and k.value == s.value for k in table.keys):
            return "literal key of a dictionary display"
        g = self._membership_guard(f, cfg, sub, v, s)
        if g:
            return g
        if idx is not None:
            g = self._size_guard(f, cfg, sub, v, idx)
            if g:
                return g
        g = self._index_of_guard(f, sub, v, s)
        if g:
            return g
        return None

    def _is_set_or_dict_name(self, f: FunctionInfo, e: ast.AST) -> bool:
        if not isinstance(e, ast.Name):
            return False
        for n in own_nodes(f.node):
            if isinstance(n, (ast.Assign, ast.AnnAssign)) and getattr(n, "value", None) is not None:
                ts = n.targets if isinstance(n, ast.Assign) else [n.target]
                if any(isinstance(t, ast.Name) and t.id == e.id for t in ts):
                    v = n.value
                    if isinstance(v, (ast.Set, ast.SetComp, ast.Dict, ast.DictComp)) or (
                            isinstance(v, ast.Call) and isinstance(v.func, ast.Name) and v.func.id in ("set", "dict", "OrderedDict", "defaultdict")):
                        return True
        return False

    # ------------------------------------------------------------------ may-be-None results
    def may_return_none(self, t: FunctionInfo, idx: Optional[int]) -> bool:
        """``t`` may answer None (idx None) or a tuple whose element ``idx`` is None, by an explicit return"""
        key = (t.qualname, idx)
        memo = self.__dict__.setdefault("_may_none", {})
        if key in memo:
            return memo[key]
        memo[key] = False
        res = False
        from .dataflow import flow_of

        tflow = flow_of(t.node) if t.name != "<module>" else None
        # the annotation says so
        ann = t.node.returns
        if ann is not None:
            txt = norm(ann)
            if idx is None and ("None" in [x.strip() for x in txt.replace("Optional[", "None|").split("|")] or txt.startswith("Optional[")):
                res = True
            if idx is not None and ("tuple[None, None]" in txt.replace("Tuple", "tuple")):
                res = True
        for n in own_nodes(t.node):
            if not isinstance(n, ast.Return):
                continue
            v = n.value
            if isinstance(v, ast.Name) and tflow is not None:
                node = tflow.node_of(n)
                ds = tflow.defs_reaching(node.id, v.id) if node is not None else []
                for d in ds:
                    dv = d.value if d.kind == "assign" else None
                    if idx is None and isinstance(dv, ast.Constant) and dv.value is None:
                        res = True
                    if idx is not None and isinstance(dv, ast.Tuple) and idx < len(dv.elts) and isinstance(dv.elts[idx], ast.Constant) \
                            and dv.elts[idx].value is None:
                        res = True
                continue
            if idx is None:
                if v is None or (isinstance(v, ast.Constant) and v.value is None):
                    res = True
            elif isinstance(v, ast.Tuple) and idx < len(v.elts) and isinstance(v.elts[idx], ast.Constant) and v.elts[idx].value is None:
                res = True
        memo[key] = res
        return res

    def _param_deref_unguarded(self, t: FunctionInfo, pname: str) -> bool:
        """``t`` uses its parameter as an object (attribute / subscript / iteration) on a path where it never asked whether there
        is one"""
        key = (t.qualname, pname)
        memo = self.__dict__.setdefault("_pderef", {})
        if key in memo:
            return memo[key]
        memo[key] = False
        from .dataflow import flow_of
        from .shape import _atomise

        if pname not in t.params or t.name == "<module>":
            return False
        flow = flow_of(t.node)
        cfg = cfg_of(t.node)
        res = False
        for n in own_nodes(t.node):
            b = None
            if isinstance(n, (ast.Attribute, ast.Subscript)) and isinstance(n.ctx, ast.Load) and isinstance(n.value, ast.Name) and n.value.id == pname:
                b = n.value
            elif isinstance(n, ast.For) and isinstance(n.iter, ast.Name) and n.iter.id == pname:
                b = n.iter
            if b is None:
                continue
            node = flow.node_of(b)
            if node is None or not all(d.kind == "param" for d in flow.defs_reaching(node.id, pname)):
                continue
            ok = False
            for tt, lab in list(self._dominating_tests(cfg, b)) + list(_short_circuit_facts(t.node, b)):
                for e, truth in _atomise(tt, lab == "true"):
                    if isinstance(e, ast.Name) and e.id == pname and truth:
                        ok = True
                    if isinstance(e, ast.Compare) and len(e.ops) == 1 and isinstance(e.ops[0], ast.Is) and norm(e.left) == pname and not truth:
                        ok = True
                    if isinstance(e, ast.Call) and isinstance(e.func, ast.Name) and e.func.id == "isinstance" and e.args and norm(e.args[0]) == pname and truth:
                        ok = True
            if not ok:
                res = True
        memo[key] = res
        return res

    def _pairs_complete(self, cs) -> bool:
        """every tuple the callee(s) return is all-None or None-free"""
        if cs is None or not cs.targets:
            return False
        from .dataflow import flow_of

        for t in cs.targets:
            if t.parent is not None and t.name == "wrapper":
                continue
            tflow = flow_of(t.node)
            for n in own_nodes(t.node):
                if not isinstance(n, ast.Return) or n.value is None:
                    continue
                vals = [n.value]
                if isinstance(n.value, ast.Name):
                    node = tflow.node_of(n)
                    vals = [d.value for d in (tflow.defs_reaching(node.id, n.value.id) if node is not None else []) if d.kind == "assign" and d.value is not None]
                for v in vals:
                    if isinstance(v, ast.Tuple):
                        nones = [isinstance(e, ast.Constant) and e.value is None for e in v.elts]
                        if any(nones) and not all(nones):
                            return False
        return True

    def _none_derefs(self, f: FunctionInfo, cfg: CFG, sites):
        """(node, exception, discharge reason or None) for dereferences of a local that holds the result of a library /
        dependency function which may answer None, and is used without a dominating truth test"""
        from .dataflow import flow_of

        out = []
        if f.name == "<module>":
            return out
        flow = flow_of(f.node)
        cand: Dict[str, List] = {}
        srcs: Dict[int, str] = {}
        for d in flow.all_defs:
            if d.value is None or not isinstance(d.value, ast.Call) or d.kind not in ("assign", "unpack"):
                continue
            cs = sites.get(id(d.value))
            if cs is None or not cs.targets or cs.via in ("factory", "class", "cha", "unknown-method", "computed", "indirect", "callable-value"):
                continue  # a constructor answers an instance; unresolved receivers give no claim
            idx = d.index if d.kind == "unpack" else None
            ts = [t for t in cs.targets if t.module.kind in ("library", "dep", "config")]
            real = []
            for t in ts:
                # through a memo wrapper to the function it wraps
                real.append(t)
            nones = [t for t in real if not (t.parent is not None and t.name == "wrapper") and self.may_return_none(t, idx)]
            if ts and nones:
                cand.setdefault(d.var, []).append(d)
                srcs[id(d)] = nones[0].qualname
        if not cand:
            return out
        from .shape import _atomise  # noqa

        for n in own_nodes(f.node):
            base = None
            if isinstance(n, ast.Call) and id(n) in sites and sites[id(n)].targets:
                # handed to a program function that dereferences that parameter without asking
                cs2 = sites[id(n)]
                for t2 in cs2.targets:
                    if t2.module.kind not in ("library", "config") or (t2.parent is not None and t2.name == "wrapper"):
                        continue
                    from .rules.mutation import bind_args

                    for pname, arg in bind_args(t2, n):
                        if isinstance(arg, ast.Name) and arg.id in cand and self._param_deref_unguarded(t2, pname):
                            base = arg
                            break
                    if base is not None:
                        break
                if base is None:
                    continue
            elif isinstance(n, ast.Attribute) and isinstance(n.ctx, ast.Load) and isinstance(n.value, ast.Name):
                base = n.value
            elif isinstance(n, ast.Subscript) and isinstance(n.ctx, ast.Load) and isinstance(n.value, ast.Name):
                base = n.value
            elif isinstance(n, ast.For) and isinstance(n.iter, ast.Name):
                base = n.iter
            elif isinstance(n, ast.keyword) and n.arg is None and isinstance(n.value, ast.Name):
                base = n.value
            if base is None or base.id not in cand:
                continue
            node = flow.node_of(base)
            if node is None:
                continue
            reaching = [d for d in flow.defs_reaching(node.id, base.id)]
            if not reaching or not any(d in cand[base.id] for d in reaching):
                continue
            # names unpacked from the same call: `t, d = f()` where f answers (None, None) or a complete pair - a truth test on
            # one proves the other
            siblings = set()
            for d in reaching:
                if d in cand[base.id] and d.kind == "unpack":
                    for d2 in flow.all_defs:
                        if d2.kind == "unpack" and d2.value is d.value and d2.var != base.id and self._pairs_complete(sites.get(id(d.value))):
                            siblings.add(d2.var)
            # guarded by a truth test on the name (or `is not None`)
            guarded = None
            for t, lab in list(self._dominating_tests(cfg, base)) + list(_short_circuit_facts(f.node, base)):
                for e, truth in _atomise(t, lab == "true"):
                    if isinstance(e, ast.Name) and e.id == base.id and truth:
                        guarded = f"under `{base.id}`"
                    if isinstance(e, ast.Name) and e.id in siblings and truth:
                        guarded = f"under `{e.id}`, which the callee answers together with `{base.id}` (both or neither)"
                    if isinstance(e, ast.Compare) and len(e.ops) == 1 and isinstance(e.ops[0], ast.Is) and isinstance(e.left, ast.Name) \
                            and e.left.id == base.id and isinstance(e.comparators[0], ast.Constant) and e.comparators[0].value is None and not truth:
                        guarded = f"under `{base.id} is not None`"
                    if isinstance(e, ast.Call) and isinstance(e.func, ast.Name) and e.func.id == "isinstance" and e.args \
                            and isinstance(e.args[0], ast.Name) and e.args[0].id == base.id and truth:
                        guarded = "under an isinstance test"
                    # the very call that produced the value was tested (`if not s.path(c): raise` ... `p = s.path(c)`)
                    if truth and isinstance(e, ast.Call) and any(d.kind == "assign" and d.value is not None and norm(d.value) == norm(e) for d in reaching):
                        guarded = f"the same call `{norm(e)[:40]}` was tested"
            what = n if not isinstance(n, (ast.For, ast.keyword)) else base
            src_def = next(d for d in reaching if d in cand[base.id])
            out.append((what, "AttributeError" if isinstance(n, ast.Attribute) else "TypeError", guarded, srcs.get(id(src_def), "?")))
        return out

    def _computed_format_string(self, f: FunctionInfo, recv: ast.AST, at: ast.AST) -> bool:
        """the receiver of .format() is an f-string (or '%'-formatted / concatenated text) with interpolated values, directly
        or through a local name bound once to one"""
        def interpolated(e: ast.AST) -> bool:
            if isinstance(e, ast.JoinedStr):
                return any(isinstance(v, ast.FormattedValue) for v in e.values)
            if isinstance(e, ast.BinOp) and isinstance(e.op, ast.Mod) and isinstance(e.left, (ast.Constant, ast.JoinedStr)):
                return True
            if isinstance(e, ast.BinOp) and isinstance(e.op, ast.Add):
                return interpolated(e.left) or interpolated(e.right)
            return False

        if interpolated(recv):
            return True
        if isinstance(recv, ast.Name) and f.name != "<module>":
            from .dataflow import flow_of

            flow = flow_of(f.node)
            node = flow.node_of(at)
            ds = flow.defs_reaching(node.id, recv.id) if node is not None else []
            return bool(ds) and all(d.kind == "assign" and d.value is not None and interpolated(d.value) for d in ds)
        return False

    def _index_of_guard(self, f: FunctionInfo, sub: ast.AST, v: ast.AST, s: ast.AST) -> Optional[str]:
        """``K[i]`` with ``i = V.index(x)`` where K and V are the key list and value list of one mapping (or the
        same sequence): the position found in one is valid in the other"""
        if not isinstance(s, ast.Name) or f.name == "<module>":
            return None
        from .dataflow import flow_of

        flow = flow_of(f.node)
        at = flow.node_of(sub)
        ds = flow.defs_reaching(at.id, s.id) if at else []
        if len(ds) != 1 or ds[0].kind != "assign" or not isinstance(ds[0].value, ast.Call):
            return None
        c = ds[0].value
        if not (isinstance(c.func, ast.Attribute) and c.func.attr == "index"):
            return None

        def base(e):
            if isinstance(e, ast.Call) and isinstance(e.func, ast.Name) and e.func.id in ("list", "tuple") and len(e.args) == 1:
                e = e.args[0]
            if isinstance(e, ast.Call) and isinstance(e.func, ast.Attribute) and e.func.attr in ("keys", "values", "items") and not e.args:
                e = e.func.value
            return norm(e)

        if base(c.func.value) == base(v):
            return "the index was found by .index() in a sequence of the same mapping"
        return None

    def _is_split_value(self, f: FunctionInfo, v: ast.AST, at: ast.AST) -> bool:
        if isinstance(v, ast.Call) and isinstance(v.func, ast.Attribute) and v.func.attr in ("split", "rsplit", "partition",
                                                                                             "rpartition"):
            return True
        if isinstance(v, ast.Name) and f.name != "<module>":
            from .dataflow import flow_of

            flow = flow_of(f.node)
            node = flow.node_of(at)
            if node is None:
                return False
            defs = flow.defs_reaching(node.id, v.id)
            return bool(defs) and all(d.kind == "assign" and d.value is not None and self._is_split_value(f, d.value, d.value)
                                      and isinstance(d.value, ast.Call) for d in defs)
        return False

    def _size_guard(self, f: FunctionInfo, cfg: CFG, sub: ast.AST, v: ast.AST, idx: int) -> Optional[str]:
        """``X[idx]`` under a dominating truthiness / len() test of X (X possibly wrapped in list()/tuple())."""
        base = v
        if isinstance(base, ast.Name) and f.name != "<module>":
            # a local bound once to list(X) / list(X.keys()) stands for X
            from .dataflow import flow_of

            flow = flow_of(f.node)
            at = flow.node_of(sub)
            ds = flow.defs_reaching(at.id, base.id) if at else []
            if len(ds) == 1 and ds[0].kind == "assign" and isinstance(ds[0].value, ast.Call):
                inner = ds[0].value
                if isinstance(inner.func, ast.Name) and inner.func.id in ("list", "tuple", "sorted") and len(inner.args) == 1:
                    extra_texts = {norm(base)}
                    base = inner
                else:
                    extra_texts = set()
            else:
                extra_texts = set()
        else:
            extra_texts = set()
        if isinstance(base, ast.Call) and isinstance(base.func, ast.Name) and base.func.id in ("list", "tuple", "sorted") \
                and len(base.args) == 1:
            base = base.args[0]
        if isinstance(base, ast.BoolOp) and isinstance(base.op, ast.Or) and isinstance(base.values[-1], (ast.List, ast.Tuple)) \
                and base.values[-1].elts and idx in (0, -1):
            return "`or [<non-empty>]` fallback makes the sequence non-empty"
        texts = {norm(base)} | extra_texts
        if isinstance(base, ast.Call) and isinstance(base.func, ast.Attribute) and base.func.attr in ("keys", "values", "items") \
                and not base.args:
            texts.add(norm(base.func.value))
        need = idx + 1 if idx >= 0 else -idx  # minimum length required
        have = 0
        why = []
        for test, lab in self._dominating_tests(cfg, sub) + _short_circuit_facts(f.node, sub):
            for part, polarity in _atoms(test, lab):
                t = part
                neg = False
                if isinstance(t, ast.UnaryOp) and isinstance(t.op, ast.Not):
                    t, neg = t.operand, True
                # truthiness of X  /  of len(X)
                tt = t
                if isinstance(tt, ast.Call) and isinstance(tt.func, ast.Name) and tt.func.id == "len" and len(tt.args) == 1:
                    tt = tt.args[0]
                if isinstance(tt, ast.Call) and isinstance(tt.func, ast.Attribute) and tt.func.attr in ("keys", "values", "items") \
                        and not tt.args:
                    tt = tt.func.value
                if not isinstance(t, ast.Compare) and norm(tt) in texts and (polarity != neg):
                    have = max(have, 1)
                    why.append(f"`{norm(part)}` is {'false' if neg else 'true'}")
                if isinstance(t, ast.Compare) and len(t.ops) == 1 and not neg:
                    l, r = t.left, t.comparators[0]
                    if isinstance(l, ast.Call) and isinstance(l.func, ast.Name) and l.func.id == "len" and len(l.args) == 1:
                        la = l.args[0]
                        if isinstance(la, ast.Call) and isinstance(la.func, ast.Attribute) and la.func.attr in (
                                "keys", "values", "items") and not la.args:
                            la = la.func.value
                        k = _const_int(r)
                        if norm(la) in texts and k is not None:
                            op = t.ops[0]
                            if polarity:
                                lo = {ast.Eq: k, ast.Gt: k + 1, ast.GtE: k}.get(type(op))
                            else:  # the test is false on this path
                                lo = {ast.Lt: k, ast.LtE: k + 1}.get(type(op))
                                if isinstance(op, ast.Eq) and have >= k:
                                    lo = k + 1  # len >= k and len != k
                            if lo is not None:
                                have = max(have, lo)
                                why.append(f"`{norm(t)}` is {'true' if polarity else 'false'}")
        if have >= need:
            return "size guard: " + ", ".join(dict.fromkeys(why))
        return None

    def _split_arity_guard(self, f: FunctionInfo, cfg: CFG, asg: ast.Assign, ntargets: int) -> Optional[str]:
        call: ast.Call = asg.value
        if not call.args:
            return None
        sep = call.args[0]
        maxsplit = None
        if len(call.args) >= 2 and isinstance(call.args[1], ast.Constant):
            maxsplit = call.args[1].value
        for kw in call.keywords:
            if kw.arg == "maxsplit" and isinstance(kw.value, ast.Constant):
                maxsplit = kw.value.value
        if maxsplit != ntargets - 1 or ntargets != 2:
            return None
        recv, septext = norm(call.func.value), norm(sep)
        # atomised facts: `sep in recv` holds (however the test was spelled: count / in / not in + else / De Morgan)
        from .shape import _atomise, _norm_fact

        for test, lab in list(self._dominating_tests(cfg, asg)) + list(_short_circuit_facts(f.node, asg)):
            for e_, truth_ in _atomise(test, lab == "true"):
                if truth_ and _norm_fact(e_) == f"{septext} in {recv}":
                    return f"`{septext} in {recv}` and maxsplit fixes the arity"
        for test, lab in self._dominating_tests(cfg, asg):
            if lab != "true":
                continue
            for x in ast.walk(test):
                if isinstance(x, ast.Call) and isinstance(x.func, ast.Attribute) and x.func.attr == "count" and x.args \
                        and norm(x.func.value) == recv and norm(x.args[0]) == septext and _conj(test, x):
                    return f"`{recv}.count({septext})` is truthy and maxsplit fixes the arity"
                if isinstance(x, ast.Compare) and len(x.ops) == 1 and isinstance(x.ops[0], ast.In) \
                        and norm(x.left) == septext and norm(x.comparators[0]) == recv and _conj(test, x):
                    return f"`{septext} in {recv}` and maxsplit fixes the arity"
        return None

    # ------------------------------------------------------------------ interprocedural fixpoint
    def solve(self):
        if self._solved:
            return
        fns = [f for f in self.p.functions.values()]
        esc: Dict[str, Dict[Tuple[str, str, str], Escape]] = {f.qualname: {} for f in fns}
        for f in fns:
            for rp, node in self.points(f):
                if self.caught_locally(f, node, rp.exc):
                    continue
                esc[f.qualname][(rp.fn, rp.text, rp.exc)] = Escape(rp, (f.qualname,))
        changed = True
        rounds = 0
        while changed and rounds < 50:
            changed = False
            rounds += 1
            for f in fns:
                mine = esc[f.qualname]
                for cs in self.cg.sites.get(f.qualname, []):
                    for t in cs.targets:
                        for k, e in list(esc.get(t.qualname, {}).items()):
                            if k in mine:
                                continue
                            if self.caught_locally(f, cs.node, e.point.exc):
                                continue
                            if len(e.chain) > 25:
                                continue
                            mine[k] = Escape(e.point, (f.qualname,) + e.chain)
                            changed = True
                    # ``raise <param>`` helpers (exception.raiser): class from the argument
                    for t in cs.targets:
                        for exc in self._param_raise(t, cs):
                            rp = RaisePoint(f.qualname, norm(cs.node), exc, "raise-helper", cs.lineno)
                            k = (rp.fn, rp.text, rp.exc)
                            if k not in mine and not self.caught_locally(f, cs.node, exc):
                                mine[k] = Escape(rp, (f.qualname,))
                                changed = True
        self._escapes = esc
        self._solved = True

    def _param_raise(self, callee: FunctionInfo, cs: CallSite) -> List[str]:
        """callee contains ``raise <param>``: the class comes from the caller's argument"""
        out = []
        if not isinstance(cs.node, ast.Call):
            return out
        for n in own_nodes(callee.node):
            if isinstance(n, ast.Raise) and isinstance(n.exc, ast.Name) and n.exc.id in callee.params:
                idx = callee.params.index(n.exc.id)
                arg = None
                if idx < len(cs.node.args):
                    arg = cs.node.args[idx]
                for kw in cs.node.keywords:
                    if kw.arg == n.exc.id:
                        arg = kw.value
                if arg is None:
                    continue
                if isinstance(arg, (ast.Constant, ast.JoinedStr)):
                    continue  # a message string: the helper raises its own class (an explicit raise point)
                if isinstance(arg, ast.Call):
                    nm = (dotted(arg.func) or "").split(".")[-1]
                    out.append(nm if self.h.is_exception(nm) else "Exception")
                else:
                    out.append("Exception")
        return out

    # ------------------------------------------------------------------ entry-specific analysis
    def entry_escapes(self, roots: List[FunctionInfo], self_class=None, blocked: Iterable[str] = (),
                      own_only: Iterable[str] = ()) -> Tuple[List[Escape], Set[str]]:
        """Exceptions escaping the given roots.

        self_class : concrete receiver class; ``self.m()`` sites in methods of its MRO dispatch on it
        blocked    : qualnames of functions not descended into (their effects are another entry's business)
        own_only   : qualnames of roots of which only the own constructs count (calls not followed)
        Returns (escapes, set of reached function qualnames)."""
        blocked = set(blocked)
        own_only = set(own_only)
        mro_names = {k.qualname for k in self.p.mro(self_class)} if self_class is not None else set()

        def targets_of(f: FunctionInfo, cs: CallSite) -> List[FunctionInfo]:
            if f.qualname in own_only:
                return []
            ts = cs.targets
            if self_class is not None and cs.via in ("self", "property") and f.cls is not None and f.cls.qualname in mro_names \
                    and isinstance(getattr(cs.node, "func", cs.node), ast.Attribute):
                attr = cs.node.func.attr if isinstance(cs.node, ast.Call) else cs.node.attr
                recv = cs.node.func.value if isinstance(cs.node, ast.Call) else cs.node.value
                if isinstance(recv, ast.Name) and recv.id == "self":
                    m = self.p.find_method(self_class, attr)
                    if m is not None:
                        ts = self.cg._with_wrappers([m])
            if self_class is not None and cs.via == "indirect" and f.cls is not None and f.cls.qualname in mro_names:
                # a bound method of self taken as a value (`search = self.a if c else self.b; search(..)`): dispatch on the
                # concrete receiver class as for a direct self.m() call
                mapped = []
                for t in ts:
                    if t.cls is not None and (t.cls.qualname in mro_names or self.p.is_subclass(t.cls, f.cls.qualname)):
                        m = self.p.find_method(self_class, t.name)
                        t = m if m is not None else t
                    if t not in mapped:
                        mapped.append(t)
                ts = self.cg._with_wrappers(mapped)
            return [t for t in ts if t.qualname not in blocked]

        reach: Dict[str, FunctionInfo] = {}
        queue = list(roots)
        for r in roots:
            reach[r.qualname] = r
        while queue:
            g = queue.pop(0)
            for cs in self.cg.sites.get(g.qualname, []):
                for t in targets_of(g, cs):
                    if t.qualname not in reach:
                        reach[t.qualname] = t
                        queue.append(t)
        esc: Dict[str, Dict[Tuple[str, str, str], Escape]] = {q: {} for q in reach}
        for q, f in reach.items():
            for rp, node in self.points(f):
                if not self.caught_locally(f, node, rp.exc):
                    esc[q][(rp.fn, rp.text, rp.exc)] = Escape(rp, (q,))
        changed = True
        rounds = 0
        while changed and rounds < 60:
            changed = False
            rounds += 1
            for q, f in reach.items():
                mine = esc[q]
                for cs in self.cg.sites.get(q, []):
                    for t in targets_of(f, cs):
                        for k, e in list(esc.get(t.qualname, {}).items()):
                            if k in mine or len(e.chain) > 25:
                                continue
                            if self.caught_locally(f, cs.node, e.point.exc):
                                continue
                            mine[k] = Escape(e.point, (q,) + e.chain)
                            changed = True
                        for exc in self._param_raise(t, cs):
                            rp = RaisePoint(q, norm(cs.node), exc, "raise-helper", cs.lineno)
                            k = (rp.fn, rp.text, rp.exc)
                            if k not in mine and not self.caught_locally(f, cs.node, exc):
                                mine[k] = Escape(rp, (q,))
                                changed = True
        out: Dict[Tuple[str, str, str], Escape] = {}
        for r in roots:
            for k, e in esc[r.qualname].items():
                out.setdefault(k, e)
        return list(out.values()), set(reach)

    def escapes(self, f: FunctionInfo) -> List[Escape]:
        self.solve()
        return list(self._escapes.get(f.qualname, {}).values())

    def escapes_from_site(self, f: FunctionInfo, cs: CallSite) -> List[Escape]:
        """exceptions that escape the callees of one call site (before the caller's handlers)"""
        self.solve()
        out: Dict[Tuple[str, str, str], Escape] = {}
        for t in cs.targets:
            for k, e in self._escapes.get(t.qualname, {}).items():
                out.setdefault(k, Escape(e.point, (f.qualname,) + e.chain))
        return list(out.values())


# --------------------------------------------------------------------------------------------------
def _handler_names(h: ast.ExceptHandler) -> List[str]:
    if h.type is None:
        return ["BaseException"]
    ts = h.type.elts if isinstance(h.type, ast.Tuple) else [h.type]
    out = []
    for t in ts:
        d = dotted(t) or "?"
        last = d.split(".")[-1]
        out.append("re.error" if d in ("re.error",) else last)
    return out


def _reraises(h: ast.ExceptHandler) -> bool:
    """the handler ends by re-raising the caught exception on some path (bare ``raise`` or
    ``raise e``)"""
    for n in ast.walk(ast.Module(body=h.body, type_ignores=[])):
        if isinstance(n, ast.Raise):
            if n.exc is None:
                return True
            if isinstance(n.exc, ast.Name) and h.name and n.exc.id == h.name:
                return True
    return False


def _contains(stmts, node) -> bool:
    for st in stmts:
        for x in ast.walk(st):
            if x is node:
                return True
    return False


def _is_abstract_body(fn: ast.FunctionDef) -> bool:
    for st in fn.body:
        if isinstance(st, ast.Expr) and isinstance(st.value, ast.Constant):
            continue
        if isinstance(st, ast.Assign) and all(isinstance(t, ast.Name) for t in st.targets):
            continue
        if isinstance(st, ast.Raise):
            continue
        return False
    return True


def _conj(test: ast.AST, part: ast.AST) -> bool:
    """``part`` being true is implied by ``test`` being true (test is part, or an `and` of parts)"""
    if test is part:
        return True
    if isinstance(test, ast.BoolOp) and isinstance(test.op, ast.And):
        return any(_conj(v, part) for v in test.values)
    return False


def _disj(test: ast.AST, part: ast.AST) -> bool:
    """``part`` being false is implied by ``test`` being false (test is part, or an `or` of parts)"""
    if test is part:
        return True
    if isinstance(test, ast.BoolOp) and isinstance(test.op, ast.Or):
        return any(_disj(v, part) for v in test.values)
    return False


def _const_int(e: ast.AST) -> Optional[int]:
    try:
        v = ast.literal_eval(e)
    except Exception:
        return None
    return v if isinstance(v, int) and not isinstance(v, bool) else None


def _atoms(test: ast.AST, lab: str):
    """(sub-expression, polarity) facts implied by ``test`` evaluating to ``lab``:
    true  and-chains give each conjunct true; false or-chains give each disjunct false."""
    pol = lab == "true"
    out = [(test, pol)]
    if isinstance(test, ast.BoolOp):
        if (isinstance(test.op, ast.And) and pol) or (isinstance(test.op, ast.Or) and not pol):
            out = []
            for v in test.values:
                out += _atoms(v, lab)
    return out


def _short_circuit_facts(fn: ast.AST, sub: ast.AST):
    """facts established inside the same expression: earlier operands of an enclosing ``and`` are true,
    of an enclosing ``or`` false; the test of an enclosing conditional expression; the ``if`` clauses of
    an enclosing comprehension."""
    parents = {}
    for n in ast.walk(fn):
        for c in ast.iter_child_nodes(n):
            parents[id(c)] = n
    out = []
    cur = sub
    while id(cur) in parents:
        par = parents[id(cur)]
        if isinstance(par, ast.BoolOp):
            i = next((k for k, v in enumerate(par.values) if v is cur), None)
            if i is not None:
                for v in par.values[:i]:
                    out.append((v, "true" if isinstance(par.op, ast.And) else "false"))
        elif isinstance(par, ast.IfExp):
            if par.body is cur:
                out.append((par.test, "true"))
            elif par.orelse is cur:
                out.append((par.test, "false"))
        elif isinstance(par, (ast.ListComp, ast.SetComp, ast.DictComp, ast.GeneratorExp)):
            if cur in ((par.elt,) if hasattr(par, "elt") else (par.key, par.value)):
                for g in par.generators:
                    for cond in g.ifs:
                        out.append((cond, "true"))
        if isinstance(par, (ast.stmt,)):
            break
        cur = par
    return out
