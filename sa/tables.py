"""Frozen tables.  Every entry was confirmed by reading the code and carries the reason it was
accepted; an entry with ``cond`` only applies while the named side condition (rules/conds.py) is
verified on the current tree.  Keys are (function qualname, normalised construct text): never a line.
"""

# --------------------------------------------------------------------------------------------------
# R-EXC: partial constructs that cannot raise (or whose raising is outside the entry's quantifier)
_ALL_SID = None  # applies to every entry

EXC_DISCHARGE = [
    # ---- memo wrappers ---------------------------------------------------------------------------
    dict(fn="spil.util.caching.lru_cache.<locals>.wrapper", text="cache[key]", exc="LookupError",
         why="read after the miss branch stored cache[key]; popitem() runs before the store", cond="memo_store_then_read"),
    dict(fn="spil.util.caching.lru_kw_cache.<locals>.wrapper", text="cache[key]", exc="LookupError",
         why="read after the miss branch stored cache[key]; popitem() runs before the store", cond="memo_store_then_read"),
    dict(fn="spil.util.caching.hit_cache.<locals>.wrapper", text="cache[key]", exc="LookupError",
         why="reached only when the key was present or has just been stored (falsy results return early)",
         cond="memo_store_then_read"),
    # ---- the factory trampoline --------------------------------------------------------------------
    dict(fn="spil.sid.sid.BaseSid.__new__", kind="call:importlib.import_module", exc="ImportError",
         why="mod is the first element of the class constant _factory, which names a module of the program",
         cond="factory_resolves"),
    dict(fn="spil.sid.sid.BaseSid.__new__", kind="call:builtins.getattr", exc="AttributeError",
         why="fn is the second element of _factory, a function defined in that module", cond="factory_resolves"),
    # ---- the registered resolvers -------------------------------------------------------------------
    dict(fn="spil.sid.core.sid_resolver.sid_to_dict", kind="none-deref:resolva.resolver.Resolver.get", exc="*",
         why="Resolver.get('sid') answers None only for an id nobody registered; spil.conf.sid_conf_load registers 'sid' at import, "
             "before any Sid can be built", cond="resolvers_registered"),
    dict(fn="spil.sid.pathops.fs_resolver.path_to_dict", kind="none-deref:resolva.resolver.Resolver.get", exc="*",
         why="Resolver.get(pc.name): PathConfig.__init__ registers a resolver under its own name before get_path_config hands the "
             "PathConfig out", cond="resolvers_registered"),
    # ---- SpilException construction ----------------------------------------------------------------
    dict(fn="spil.util.exception.SpilException.__init__", text="args[0]", exc="LookupError",
         why="every SpilException(...) in the program passes a message argument", cond="spilexception_has_arg"),
    # ---- resolva: duplicate placeholder check ------------------------------------------------------
    dict(fn="resolva.template.match_to_dict",
         text="raise ResolvaException('Different extracted values for placeholder {0!r} detected. Values were {1!r} and {2!r}.'.format(key, data[key], value))",
         exc="ResolvaException",
         entries=["Sid(str)", "Sid(fields)", "navigation", "get_with", "unfold_search", "FindInList.find",
                  "GetFromAll.dispatch", "versions"],
         why="chains through Resolver.get('sid'): built with check_duplicate_placeholders=False and no sid template "
             "repeats a placeholder",
         cond="sid_resolver_no_dupcheck"),
    dict(fn="resolva.template.match_to_dict",
         text="raise ResolvaException('Different extracted values for placeholder {0!r} detected. Values were {1!r} and {2!r}.'.format(key, data[key], value))",
         exc="ResolvaException", entries=["Sid(path,config)", "FindInPaths.scan"],
         why="the sid resolver is built without duplicate checking, and in path_to_dict every resolve / format call on the path "
             "resolver sits inside try/except ResolvaException (or formats from a single dictionary)",
         cond="path_resolve_guarded"),
    dict(fn="resolva.template.match_to_dict",
         text="raise ResolvaException('Different extracted values for placeholder {0!r} detected. Values were {1!r} and {2!r}.'.format(key, data[key], value))",
         exc="ResolvaException", entries=["path(config)", "GetFromPaths.get_data"],
         why="reverse check of a path formatted from one dictionary: every repetition of a field carries the same "
             "value; unambiguous re-parsing of the file-name segment is R-SEGAMB's obligation",
         cond="path_segments_unambiguous"),
    dict(fn="resolva.template.match_to_dict", text="data[key]", exc="LookupError",
         why="under `if key in data`", ),
    # ---- resolva: resolver construction (happens lazily on first use of a path configuration) ------
    dict(fn="resolva.resolver.Resolver.__init__", text="raise ResolvaException(f'Keys not identical in check: \"{_keys}\" vs \"{_keysB}\"')",
         exc="ResolvaException", why="both key extractions agree on every configured template", cond="resolver_ctor_total"),
    dict(fn="resolva.resolver.Resolver.__init__", text="t[1]", exc="LookupError",
         why="string.Formatter().parse yields 4-tuples"),
    dict(fn="resolva.template.construct_regular_expression", text="raise ValueError('Placeholder name contains invalid characters.')",
         exc="ValueError", why="every configured template compiles (checked with re._parser on the folded tables)",
         cond="resolver_ctor_total"),
    dict(fn="resolva.template.construct_regular_expression", text="raise ValueError(message)",
         exc="ValueError", why="every configured template compiles (checked with re._parser on the folded tables)",
         cond="resolver_ctor_total"),
    # ---- path configuration loading -----------------------------------------------------------------
    dict(fn="spil.sid.pathops.pathconfig.PathConfig.__init__", text="importlib.import_module(config_module_name)", exc="ImportError",
         why="for a configured path configuration the module exists (C05/C06 quantify over configured ones)",
         cond="path_configs_exist"),
    dict(fn="spil.sid.pathops.pathconfig.PathConfig.__init__", text="raise Exception(problem)", exc="Exception",
         why="only when the configuration module is missing; configured modules exist", cond="path_configs_exist"),
    dict(fn="spil.sid.pathops.pathconfig.get_path_config", text="list(conf.path_configs.keys())[0]", exc="LookupError",
         why="path_configs is a non-empty table", cond="path_configs_exist"),
    dict(fn="spil.sid.pathops.fs_resolver.path_to_dict",
         text="raise SpilException(f'Data was changed after resolve. Can this end well ? Initial keys: {r.get_keys_for(template)} / Data keys: {data.keys()} ')",
         exc="SpilException", why="extrakeys_to_sidkeys is empty in every shipped path configuration, so the key set "
                                  "cannot change after the resolve", cond="extrakeys_empty"),
    dict(fn="spil.util.utils.get_key", text="list(adict.keys())[index]", exc="LookupError",
         why="index comes from list(adict.values()).index(value) inside try/except ValueError"),
    dict(fn="spil.sid.pathops.find_paths.FindInPaths.star_search_simple", text="searched[search.type]", exc="LookupError",
         why="`searched` is a defaultdict(list)", cond="searched_is_defaultdict"),
    # ---- query application ---------------------------------------------------------------------------
    dict(fn="spil.sid.core.query_helper.apply_query",
         text="raise SpilException('Query can only be applied on typed fields (or empty fields).')", exc="SpilException",
         why="called with the (type, fields) pair of sid_to_dict, which is (None, None) or (type, non-empty data)",
         cond="sid_to_dict_pair"),
    dict(fn="spil.sid.core.query_helper.apply_query",
         text="raise SpilException(f'Sid: [{string}?{query}] Query was correctly applied, but unable to resolve back to Sid')",
         exc="SpilException",
         why="_type is one of the types format_all accepted for new_data (or the kept old type, which is among them); "
             "format_one repeats that very computation, and an accepted string is never empty"),
    dict(fn="spil.sid.core.sid_resolver.dict_to_sid", text="raise SpilException('[dict_to_sid] Data is empty')", exc="SpilException",
         why="callers pass data that was tested non-empty (factory `elif fields`, path_to_sid `if not fields: return`, "
             "apply_query after dict_to_type found a type)", cond="dict_to_sid_callers_guarded"),
    # ---- navigation ------------------------------------------------------------------------------------
    dict(fn="spil.sid.sid.TypedSid.get_as", text="raise SpilException(f'[Sid][get_as] Unexpected error during {self}.get_as({key})')",
         exc="SpilException", why="unreachable: `key in self._fields` was tested, so the loop over the items returns at k == key",
         cond="get_as_loop_returns"),
    # ---- search unfolding ---------------------------------------------------------------------------------
    dict(fn="spil.sid.core.utils.expand", text="keys[-1]", exc="LookupError",
         why="Formatter().parse of a template with at least one placeholder is non-empty", cond="templates_nonempty"),
    dict(fn="spil.sid.core.utils.expand", text="keys[-1][1]", exc="LookupError",
         why="Formatter().parse yields 4-tuples", cond="templates_nonempty"),
    # ---- list search ----------------------------------------------------------------------------------------
    dict(fn="spil.sid.read.finders.find_list.glob2re", text="pat[i]", exc="LookupError", why="inside `while i < n` with n = len(pat)"),
    dict(fn="spil.sid.read.finders.find_list.glob2re", text="pat[j]", exc="LookupError", why="each read is preceded by `j < n and`"),
    dict(fn="spil.sid.read.finders.find_list.glob2re", text="stuff[0]", exc="LookupError",
         why="fnmatch.translate's bracket scan: a ']' directly after '[' or '[!' is skipped, so pat[i:j] is not empty"),
    dict(fn="spil.sid.read.finders.find_list.FindInList.star_search", text="re.match(pattern, item)", exc="re.error",
         why="the pattern produced by glob2re is a well-formed expression (R-GLOBRE / R-REFLAGS)", cond="glob2re_wellformed"),
    dict(fn="spil.sid.read.finders.find_glob.FindByGlob.sorted_search", text="result[0]", exc="LookupError",
         why="itertools.groupby never yields an empty group"),
    dict(fn="spil.sid.read.finders.find_glob.FindByGlob.sorted_search", text="search_sids[0]", exc="LookupError",
         why="do_find only calls sorted_search when any(...) over search_sids is true, so the list is not empty",
         cond="sorted_search_called_nonempty"),
    # ---- versions (C18 entry: key == 'version', attribute == 'next.version') ---------------------------------------
    dict(fn="spil.sid.sid.DataSid.get_next", text="raise NotImplementedError(\"get_next() support only 'version' key for the moment.\")",
         exc="NotImplementedError", entries=["versions"],
         why="C18 is stated for the key 'version'; the limitation to that key is the C20 known finding"),
    dict(fn="hamlet_plugins.next_get.NextGetter.get_attr", kind="unpack", exc="ValueError",
         entries=["versions"], why="routed here only for the attribute 'next.version' (R-ROUTE)", cond="next_route"),
    dict(fn="hamlet_plugins.next_get.NextGetter.get_attr", kind="raise-helper",
         exc="SpilException", entries=["versions"], why="routed here only for the attribute 'next.version' (R-ROUTE)",
         cond="next_route"),
    dict(fn="spil.util.exception.raiser", text="raise SpilException(str(exception))", exc="SpilException", entries=["versions"],
         why="only reached through NextGetter's attribute check, which holds for 'next.version' (R-ROUTE)", cond="next_route"),
    dict(fn="hamlet_plugins.next_get.NextGetter.get_attr", kind="call:builtins.int", exc="ValueError", entries=["versions"],
         why="version is 0, or the digits after the configured literal prefix of a typed version value (R-FMT)",
         cond="version_pattern_digits"),
]
