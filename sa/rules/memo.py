"""R-KEY / R-WRAP / R-PUREMEMO / R-NOSTATE - the home-made memo decorators and what may be memoised
(DESIGN.md A.2).  Serves C13 (and C05 C06 C07 C12 C15 C16 C18 through it)."""
from __future__ import annotations

import ast
from typing import Dict, List, Optional, Set, Tuple

from ..cfg import cfg_of
from ..context import Ctx
from ..dataflow import flow_of
from ..program import AnalysisError, FunctionInfo, dotted, norm, own_nodes
from ..report import RuleResult
from . import conds

CACHING_MODULE = "spil.util.caching"
FUNCTOOLS_MEMO = {"functools.lru_cache", "functools.cache", "functools.cached_property", "lru_cache", "cache",
                  "cached_property"}

# externals that read or write the data file system (not the configuration)
FS_EXTERNALS = {
    "builtins.open", "glob.glob", "glob.iglob", "os.listdir", "os.scandir", "os.walk", "os.stat", "os.path.exists",
    "os.path.isfile", "os.path.isdir", "os.path.getmtime", "os.path.getsize", "json.load", "json.dump", "os.replace",
    "os.rename", "os.remove", "os.makedirs", "os.mkdir", "shutil.copy", "shutil.copy2", "shutil.move", "shutil.rmtree",
    "method:open", "method:exists", "method:is_file", "method:is_dir", "method:mkdir", "method:touch", "method:write_text",
    "method:read_text", "method:unlink", "method:rename", "method:iterdir", "method:glob", "method:stat",
    "method:read_bytes", "method:write_bytes", "fileseq.findSequencesOnDisk", "method:resolve", "method:absolute",
    "method:expanduser", "method:samefile", "method:is_symlink", "method:readlink", "os.path.realpath", "os.path.abspath",
    "os.getcwd", "os.path.expanduser", "os.readlink", "os.path.islink", "pathlib.Path.cwd", "pathlib.Path.home",
}
WHOLE_OK = {"str", "repr", "hash", "frozenset_items", "json.dumps", "pickle.dumps", "functools._make_key", "_make_key"}


def memo_decorators(ctx: Ctx) -> Dict[str, FunctionInfo]:
    """decorator qualname -> its wrapper (the inner function decorated with functools.wraps and returned)"""
    out: Dict[str, FunctionInfo] = {}
    m = ctx.p.module(CACHING_MODULE)
    for f in m.functions.values():
        if f.parent is not None or f.cls is not None:
            continue
        for name, inner in f.nested.items():
            wraps = any((dotted(d.func) if isinstance(d, ast.Call) else dotted(d)) in ("wraps", "functools.wraps")
                        for d in inner.decorator_nodes)
            returned = any(isinstance(n, ast.Return) and isinstance(n.value, ast.Name) and n.value.id == name for n in f.node.body)
            if wraps and returned:
                out[f.qualname] = inner
    return out


def memoised_functions(ctx: Ctx, kinds=("library", "config", "dep")) -> List[Tuple[FunctionInfo, str]]:
    decs = memo_decorators(ctx)
    out = []
    for f in ctx.p.functions.values():
        if f.module.kind not in kinds:
            continue
        for d in f.decorators:
            if d in decs or d in FUNCTOOLS_MEMO:
                out.append((f, d))
    return out


# ------------------------------------------------------------------------------------------------
def _cache_accesses(w: FunctionInfo):
    """(container name, [(kind, key expr, node)])  kinds: 'test', 'load', 'store'"""
    acc = []
    names = set()
    for n in own_nodes(w.node):
        if isinstance(n, ast.Compare) and len(n.ops) == 1 and isinstance(n.ops[0], (ast.In, ast.NotIn)) \
                and isinstance(n.comparators[0], ast.Name):
            acc.append(("test", n.left, n, n.comparators[0].id))
        elif isinstance(n, ast.Subscript) and isinstance(n.value, ast.Name):
            acc.append(("store" if isinstance(n.ctx, ast.Store) else "load", n.slice, n, n.value.id))
    # the cache is the closure variable that is both tested and subscripted
    tested = {a[3] for a in acc if a[0] == "test"}
    subs = {a[3] for a in acc if a[0] in ("load", "store")}
    # the cache outlives the call: a closure variable of the wrapper, not one of its locals
    local = {n.id for n in own_nodes(w.node) if isinstance(n, ast.Name) and isinstance(n.ctx, ast.Store)} | set(w.params)
    names = (tested & subs) - local
    return names, [a for a in acc if a[3] in names]


def _kwargs_reads(flow, key_exprs: List[ast.AST], kwname: str) -> Set[str]:
    """how the key's defining expressions read the **kwargs parameter: 'items' 'names' 'values' 'whole'"""
    seen: Set[str] = set()

    def visit(e: ast.AST, depth=0):
        parents = {}
        for n in ast.walk(e):
            for c in ast.iter_child_nodes(n):
                parents[id(c)] = n
        for n in ast.walk(e):
            if isinstance(n, ast.Name) and n.id == kwname and isinstance(n.ctx, ast.Load):
                par = parents.get(id(n))
                if isinstance(par, ast.Attribute) and par.attr in ("items", "keys", "values"):
                    kind = {"items": "items", "keys": "names", "values": "values"}[par.attr]
                    if kind == "items":
                        kind = _items_use(e, par, parents)
                    seen.add(kind)
                elif isinstance(par, ast.Call) and n in par.args:
                    fn = dotted(par.func) or ""
                    if fn in ("str", "repr", "json.dumps", "pickle.dumps", "functools._make_key", "_make_key"):
                        seen.add("whole")
                    elif fn in ("tuple", "list", "sorted", "set", "frozenset", "iter", "len"):
                        seen.add("names")
                    else:
                        seen.add("whole")  # handed to a helper: assumed to read names and values
                elif isinstance(par, (ast.comprehension,)) and par.iter is n:
                    seen.add("names")
                elif isinstance(par, ast.Starred):
                    seen.add("names")
                else:
                    seen.add("names")
            elif isinstance(n, ast.Name) and isinstance(n.ctx, ast.Load) and flow.is_local(n.id) and n.id != kwname and depth < 6:
                node = flow.node_of(n)
                for d in (flow.defs_reaching(node.id, n.id) if node is not None else []):
                    if d.kind == "assign" and d.value is not None:
                        visit(d.value, depth + 1)

    for k in key_exprs:
        visit(k)
    return seen


def _args_reads(flow, key_exprs: List[ast.AST], argname: str) -> Set[str]:
    seen: Set[str] = set()

    def visit(e: ast.AST, depth=0):
        parents = {}
        for n in ast.walk(e):
            for c in ast.iter_child_nodes(n):
                parents[id(c)] = n
        for n in ast.walk(e):
            if isinstance(n, ast.Name) and n.id == argname and isinstance(n.ctx, ast.Load):
                par = parents.get(id(n))
                if isinstance(par, ast.Subscript) and par.value is n:
                    sl = par.slice
                    full = isinstance(sl, ast.Slice) and sl.lower is None and sl.upper is None and sl.step is None
                    seen.add("whole" if full else "partial")
                elif isinstance(par, ast.Call) and n in par.args and (dotted(par.func) or "") in ("len", "bool", "any", "all"):
                    seen.add("partial")
                else:
                    seen.add("whole")
            elif isinstance(n, ast.Name) and isinstance(n.ctx, ast.Load) and flow.is_local(n.id) and n.id != argname and depth < 6:
                node = flow.node_of(n)
                for d in (flow.defs_reaching(node.id, n.id) if node is not None else []):
                    if d.kind == "assign" and d.value is not None:
                        visit(d.value, depth + 1)

    for k in key_exprs:
        visit(k)
    return seen


def _defining_exprs(flow, exprs: List[ast.AST], depth=4) -> List[ast.AST]:
    out, todo, seen = [], [(e, 0) for e in exprs], set()
    while todo:
        e, d = todo.pop()
        if id(e) in seen:
            continue
        seen.add(id(e))
        out.append(e)
        if d >= depth:
            continue
        for n in ast.walk(e):
            if isinstance(n, ast.Name) and isinstance(n.ctx, ast.Load) and flow.is_local(n.id):
                node = flow.node_of(n)
                for df in (flow.defs_reaching(node.id, n.id) if node is not None else []):
                    if df.kind == "assign" and df.value is not None:
                        todo.append((df.value, d + 1))
    return out


def _key_helpers(ctx: Ctx, w: FunctionInfo, flow, key_exprs: List[ast.AST]):
    """(flow, return expressions, name standing for *args, name standing for **kwargs) of helpers the key is built by"""
    a = w.node.args
    out = []
    for e in _defining_exprs(flow, key_exprs):
        for c in ast.walk(e):
            if not (isinstance(c, ast.Call) and isinstance(c.func, ast.Name)):
                continue
            r = ctx.p.resolve_expr(w.module, c.func, w)
            h = r.func if r.kind == "func" else None
            if h is None or h.module is not w.module:
                continue
            an = kn = None
            hp = h.params
            for i, arg in enumerate(c.args):
                if isinstance(arg, ast.Name) and i < len(hp):
                    if a.vararg is not None and arg.id == a.vararg.arg:
                        an = hp[i]
                    if a.kwarg is not None and arg.id == a.kwarg.arg:
                        kn = hp[i]
            for kw in c.keywords:
                if kw.arg and isinstance(kw.value, ast.Name):
                    if a.vararg is not None and kw.value.id == a.vararg.arg:
                        an = kw.arg
                    if a.kwarg is not None and kw.value.id == a.kwarg.arg:
                        kn = kw.arg
            if an is None and kn is None:
                continue
            rets = [n.value for n in own_nodes(h.node) if isinstance(n, ast.Return) and n.value is not None]
            out.append((flow_of(h.node), rets, an, kn))
    return out


LOSSY_FUNCS = {"str", "format", "hash", "id", "len", "bool", "type", "int", "float"}


def _lossy_reads(flow, key_exprs: List[ast.AST], name: str) -> str:
    """text of a conversion through which the key reads the arguments (str(a) for a in args / str(args)), or ''"""
    for e in _defining_exprs(flow, key_exprs):
        for n in ast.walk(e):
            if isinstance(n, (ast.GeneratorExp, ast.ListComp, ast.SetComp, ast.DictComp)):
                for g in n.generators:
                    it = g.iter
                    while isinstance(it, ast.Call) and ((isinstance(it.func, ast.Attribute) and it.func.attr in ("items", "values"))
                                                         or (isinstance(it.func, ast.Name) and it.func.id in ("sorted", "list", "tuple", "enumerate"))):
                        it = it.func.value if isinstance(it.func, ast.Attribute) else (it.args[0] if it.args else it)
                    if not (isinstance(it, ast.Name) and it.id == name):
                        continue
                    targets = {x.id for x in ast.walk(g.target) if isinstance(x, ast.Name)}
                    elts = [n.key, n.value] if isinstance(n, ast.DictComp) else [n.elt]
                    for el in elts:
                        for c in ast.walk(el):
                            if isinstance(c, ast.Call) and (dotted(c.func) or "").split(".")[-1] in LOSSY_FUNCS and any(
                                    isinstance(x, ast.Name) and x.id in targets for arg in c.args for x in ast.walk(arg)):
                                return norm(c)
                            if isinstance(c, ast.JoinedStr) and any(isinstance(x, ast.Name) and x.id in targets for x in ast.walk(c)):
                                return norm(c)
            if isinstance(n, ast.Call) and (dotted(n.func) or "") in ("hash", "len") and any(
                    isinstance(x, ast.Name) and x.id == name for x in n.args):
                return norm(n)
    return ""


def rule_key(ctx: Ctx) -> RuleResult:
    res = RuleResult("R-KEY")
    decs = memo_decorators(ctx)
    res.floor(len(decs), 3, "memo decorators found in spil/util/caching.py")
    for dq, w in sorted(decs.items()):
        short = dq.split(".")[-1]
        names, acc = _cache_accesses(w)
        if len(names) != 1:
            res.violation([dq, "cache container"], f"{short}: cannot identify one cache container that is tested and subscripted "
                                                   f"(found {sorted(names)})", w.relpath, w.node.lineno)
            continue
        flow = flow_of(w.node)
        key_texts = {norm(a[1]) for a in acc}
        if len(key_texts) != 1:
            res.violation([dq, "key consistency"], f"{short}: membership test, store and read use different keys: {sorted(key_texts)}",
                          w.relpath, w.node.lineno)
            continue
        key_exprs = [a[1] for a in acc]
        a = w.node.args
        # every parameter of the wrapper must feed the key
        deps = set()
        for k in key_exprs:
            deps |= {x.text for x in flow.depends(k) if x.kind == "param"}
        missing = [p for p in w.params if p not in deps]
        if missing:
            res.violation([dq, "key completeness"], f"{short}: the memo key does not depend on parameter(s) {missing} of the wrapper",
                          w.relpath, w.node.lineno)
        else:
            res.ok(f"{short}: key depends on every wrapper parameter", f"key = {sorted(key_texts)[0]} reads {sorted(deps)}")
        # a key built by a helper of the caching module is judged by what the helper returns
        sources = [(flow, key_exprs, a.vararg.arg if a.vararg else None, a.kwarg.arg if a.kwarg else None)]
        sources += _key_helpers(ctx, w, flow, key_exprs)
        for hflow, hexprs, an, kn in sources:
            for nm, what in ((an, "positional"), (kn, "keyword")):
                lossy = _lossy_reads(hflow, hexprs, nm) if nm else None
                if lossy:
                    res.violation([dq, f"{what} arguments", "converted"],
                                  f"{short}: the key holds `{lossy}` instead of the {what} argument values themselves: two different "
                                  f"arguments with the same text (a Sid and its string, typed differently; 1 and '1') share one cache "
                                  f"entry", w.relpath, w.node.lineno)
        if a.vararg is not None:
            r = set()
            for hflow, hexprs, an, kn in sources:
                if an:
                    r |= _args_reads(hflow, hexprs, an)
            if "partial" in r or not r:
                res.violation([dq, "positional arguments"], f"{short}: the key reads only part of *{a.vararg.arg} ({sorted(r)})",
                              w.relpath, w.node.lineno)
            else:
                res.ok(f"{short}: key holds all positional arguments", "args read as a whole")
        if a.kwarg is not None:
            r = set()
            for hflow, hexprs, an, kn in sources[1:] or sources:
                if kn:
                    r |= _kwargs_reads(hflow, hexprs, kn)
            full = "items" in r or "whole" in r or ("names" in r and "values" in r)
            if not full:
                what = "names only" if r == {"names"} else ("values only" if r == {"values"} else "nothing")
                res.violation([dq, "keyword arguments"],
                              f"{short}: the key reads {what} of **{a.kwarg.arg}; two calls that differ in a keyword "
                              f"{'value' if what == 'names only' else 'name'} share one cache entry", w.relpath, w.node.lineno)
            else:
                res.ok(f"{short}: key holds keyword names and values", f"reads {sorted(r)}")
        # user function is called with exactly the wrapper's arguments
        calls = [n for n in own_nodes(w.node) if isinstance(n, ast.Call) and isinstance(n.func, ast.Name)
                 and w.parent is not None and n.func.id in w.parent.params]
        if not calls:
            res.violation([dq, "delegation"], f"{short}: the wrapper never calls the decorated function", w.relpath, w.node.lineno)
        for c in calls:
            ok = True
            if a.vararg is not None and not any(isinstance(x, ast.Starred) and isinstance(x.value, ast.Name)
                                                and x.value.id == a.vararg.arg for x in c.args):
                ok = False
            if a.kwarg is not None and not any(kw.arg is None and isinstance(kw.value, ast.Name) and kw.value.id == a.kwarg.arg
                                               for kw in c.keywords):
                ok = False
            extra = [x for x in c.args if not isinstance(x, ast.Starred)] + [kw for kw in c.keywords if kw.arg is not None]
            for p in ([a.vararg.arg] if a.vararg else []) + ([a.kwarg.arg] if a.kwarg else []):
                node = flow.node_of(c)
                ds = flow.defs_reaching(node.id, p) if node is not None else []
                if any(d.kind != "param" for d in ds):
                    ok = False
            if not ok or extra:
                res.violation([dq, "delegation"], f"{short}: the decorated function is not called with exactly the wrapper's arguments "
                                                  f"(`{norm(c)}`)", w.relpath, c.lineno)
            else:
                res.ok(f"{short}: delegate call passes the arguments unchanged", norm(c))
        # a conditional store keeps the results that are there, not the empty ones
        from ..shape import facts_at as _fa

        for kind_, kexpr, node_, cname_ in acc:
            if kind_ != "store":
                continue
            st_ = next((x for x in own_nodes(w.node) if isinstance(x, ast.Assign) and any(t_ is node_ for t_ in x.targets)), None)
            if st_ is None:
                continue
            fs_ = _fa(ctx, w, st_)
            if isinstance(st_.value, ast.Name) and (st_.value.id, False) in fs_:
                res.violation([dq, "stores the empty results"], f"{short}: `{norm(st_)}` happens when `{st_.value.id}` is falsy: 'nothing found' is "
                                                                f"remembered for ever, real results are never cached", w.relpath, st_.lineno)
        # store-then-read discipline (also the side condition of the R-EXC table entry)
        ok, detail = store_then_read(ctx, w)
        if ok:
            res.ok(f"{short}: read of the cache follows a hit or a store", detail)
        else:
            res.violation([dq, "store-then-read"], f"{short}: {detail}", w.relpath, w.node.lineno)
        # what is returned is the cached value or the value just computed
        cache = sorted(names)[0]
        for n in own_nodes(w.node):
            if isinstance(n, ast.Return) and n.value is not None:
                v = n.value
                good = isinstance(v, ast.Subscript) and isinstance(v.value, ast.Name) and v.value.id == cache
                if isinstance(v, ast.Name):
                    node = flow.node_of(n)
                    ds = flow.defs_reaching(node.id, v.id) if node is not None else []
                    good = bool(ds) and all(d.kind == "assign" and isinstance(d.value, ast.Call) and d.value in calls for d in ds)
                if isinstance(v, ast.Call) and v in calls:
                    good = True
                if good:
                    res.ok(f"{short}: `return {norm(v)}`", "returns the cached or the freshly computed value")
                else:
                    res.violation([dq, "returned value", norm(v)], f"{short}: returns `{norm(v)}`, which is neither the cache entry nor "
                                                                   f"the delegate's result", w.relpath, n.lineno)
    return res


def store_then_read(ctx: Ctx, w: FunctionInfo) -> Tuple[bool, str]:
    names, acc = _cache_accesses(w)
    if len(names) != 1:
        return False, "no unique cache container"
    cache = sorted(names)[0]
    cfg = cfg_of(w.node)
    tests = [a for a in acc if a[0] == "test"]
    loads = [a for a in acc if a[0] == "load"]
    stores = [a for a in acc if a[0] == "store"]
    if not tests or not stores:
        return False, "the wrapper has no membership test or no store"
    store_nodes = {cfg.node_of(a[2]).id for a in stores if cfg.node_of(a[2]) is not None}
    shrink = set()
    for n in cfg.nodes:
        for e in n.exprs():
            for sub in ast.walk(e):
                if isinstance(sub, ast.Call) and isinstance(sub.func, ast.Attribute) and isinstance(sub.func.value, ast.Name) \
                        and sub.func.value.id == cache and sub.func.attr in ("popitem", "pop", "clear"):
                    shrink.add(n.id)
                if isinstance(sub, ast.Delete):
                    shrink.add(n.id)
    for t in tests:
        tn = cfg.node_of(t[2])
        if tn is None or tn.kind != "test" or (tn.ast.test is not t[2] and not (
                isinstance(tn.ast.test, ast.UnaryOp) and tn.ast.test.operand is t[2])):
            # the membership test is kept in a flag or combined with other conditions: decide by facts
            return _store_then_read_facts(ctx, w, cache, acc, shrink, store_nodes)
        miss_label = "true" if isinstance(t[2].ops[0], ast.NotIn) else "false"
        # the test must be exactly the membership test (or its negation)
        core = tn.ast.test
        if isinstance(core, ast.UnaryOp) and isinstance(core.op, ast.Not):
            core = core.operand
            miss_label = "false" if miss_label == "true" else "true"
        if core is not t[2]:
            return False, "membership test is combined with other conditions"
        miss_succ = [b for b, lab in tn.succ if lab == miss_label]
        for ld in loads:
            ln = cfg.node_of(ld[2])
            if ln is None:
                continue
            for s in miss_succ:
                if s == ln.id or cfg.path_exists(s, ln.id, avoid=store_nodes, exceptional=False):
                    if s in store_nodes:
                        continue
                    return False, f"`{norm(ld[2])}` can be read on the miss path without a preceding store"
            # no shrinking between a store and the read
            for sn in store_nodes:
                for sh in shrink:
                    if cfg.path_exists(sn, sh, exceptional=False) and cfg.path_exists(sh, ln.id, exceptional=False) and sh != sn:
                        # popitem before the store in the same branch is fine: it must not lie *after* the store
                        if not cfg.dominates(sh, sn):
                            return False, "the cache can shrink between the store and the read"
    return True, f"{len(loads)} read(s) of `{cache}[...]` follow a hit or a store"


def _store_then_read_facts(ctx: Ctx, w: FunctionInfo, cache: str, acc, shrink, store_nodes) -> Tuple[bool, str]:
    """every read `cache[key]` happens where the key is known to be in the cache (a fact, possibly through a boolean flag) with
    any shrinking confined to the miss side, or after a store of that key with no shrinking in between"""
    from ..shape import facts_at as _fa

    cfg = cfg_of(w.node)
    loads = [a for a in acc if a[0] == "load"]
    n_ok = 0
    for ld in loads:
        node = ld[2]
        ktxt = norm(ld[1])
        ln = cfg.node_of(node)
        if ln is None:
            continue
        facts = _fa(ctx, w, node)
        if (f"{ktxt} in {cache}", True) in facts:
            # a hit: whatever shrinks the cache and can run before this read belongs to the miss side
            for sh in shrink:
                if cfg.path_exists(sh, ln.id, exceptional=False):
                    sh_ast = cfg.nodes[sh].ast
                    if (f"{ktxt} in {cache}", False) not in _fa(ctx, w, sh_ast):
                        return False, f"the cache can shrink before the hit is read (`{norm(node)}`)"
            n_ok += 1
            continue
        doms = [sn for sn in store_nodes if cfg.dominates(sn, ln.id)]
        if not doms:
            return False, f"`{norm(node)}` can be read without a hit and without a preceding store"
        for sn in doms:
            for sh in shrink:
                if sh != sn and cfg.path_exists(sn, sh, exceptional=False) and cfg.path_exists(sh, ln.id, exceptional=False):
                    return False, "the cache can shrink between the store and the read"
        n_ok += 1
    return True, f"{n_ok} read(s) of `{cache}[...]` follow a hit (by fact) or a store"


@conds.cond("memo_store_then_read")
def _cond_store_then_read(ctx: Ctx):
    decs = memo_decorators(ctx)
    if len(decs) < 3:
        raise AnalysisError("memo decorators not found")
    for dq, w in decs.items():
        ok, detail = store_then_read(ctx, w)
        if not ok:
            return False, f"{dq.split('.')[-1]}: {detail}"
    return True, "all wrappers read the cache only after a hit or a store"


# ------------------------------------------------------------------------------------------------
def rule_wrap(ctx: Ctx) -> RuleResult:
    res = RuleResult("R-WRAP")
    decs = memo_decorators(ctx)
    applied = [(f, d) for f, d in memoised_functions(ctx) if d in decs]
    res.floor(len([1 for f, d in applied if f.module.kind in ("library",)]), 9, "applications of the memo decorators in the library")
    exported = set(ctx.p.module("spil").bindings.keys())
    for f, d in sorted(applied, key=lambda x: x[0].qualname):
        w = decs[d]
        a = w.node.args
        fa = f.node.args
        n_params = len(fa.posonlyargs + fa.args + fa.kwonlyargs) - (1 if f.cls is not None and not f.is_static else 0)
        site = f"{f.qualname} under {d.split('.')[-1]}"
        if a.kwarg is None and n_params > 0:
            kw_sites = [cs for cs in ctx.cg.callers.get(f.qualname, []) if isinstance(cs.node, ast.Call)
                        and any(k.arg for k in cs.node.keywords)]
            public = (f.cls is not None and not f.name.startswith("_")) or f.name in exported
            if kw_sites or public:
                where = f"{kw_sites[0].caller.qualname}" if kw_sites else "it is public API"
                res.violation([f.qualname, d, "keyword call shape"],
                              f"{f.short} accepts keyword arguments but its memo wrapper ({d.split('.')[-1]}) takes *args only: "
                              f"a keyword call raises TypeError ({where})", f.relpath, f.node.lineno, site=site)
                continue
        if a.vararg is None and n_params > 0:
            res.violation([f.qualname, d, "positional call shape"], f"{f.short}: memo wrapper takes no positional arguments",
                          f.relpath, f.node.lineno, site=site)
            continue
        res.ok(site, "wrapper accepts every call shape of the wrapped function (*args and **kwargs)")
    return res


# ------------------------------------------------------------------------------------------------
def fs_functions(ctx: Ctx) -> Dict[str, str]:
    """function qualname -> the data-file-system external it calls directly"""
    out: Dict[str, str] = {}
    for q, sites in ctx.cg.sites.items():
        f = ctx.p.functions.get(q)
        if f is None:
            continue
        for cs in sites:
            if cs.external in FS_EXTERNALS:
                if cs.external.startswith("method:") and not _pathlike_receiver(ctx, f, cs):
                    continue
                out.setdefault(q, cs.external)
    return out


def _pathlike_receiver(ctx: Ctx, f: FunctionInfo, cs) -> bool:
    """method:exists / method:open ... on something that is not known to be a program object"""
    if not isinstance(cs.node, ast.Call) or not isinstance(cs.node.func, ast.Attribute):
        return True
    types = ctx.cg.types_of(f, cs.node.func.value)
    return not types  # a typed program receiver would have resolved to a program method


def rule_purememo(ctx: Ctx) -> RuleResult:
    res = RuleResult("R-PUREMEMO")
    memo = memoised_functions(ctx)
    lib = [(f, d) for f, d in memo if f.module.kind in ("library", "config")]
    res.floor(len([1 for f, d in lib if f.module.name != "spil.sid.read.finders.find_cache"]), 9, "memoised functions in property scope")
    fs = fs_functions(ctx)
    for f, d in sorted(memo, key=lambda x: x[0].qualname):
        if f.module.name == "spil.sid.read.finders.find_cache":
            res.note(f.qualname, "find_cache is not imported by the package and anchored by no property: listed, not an instance")
            continue
        site = f"{f.qualname} (memoised by {d.split('.')[-1]})"
        is_gen = any(isinstance(n, (ast.Yield, ast.YieldFrom)) for n in own_nodes(f.node))
        if is_gen:
            res.violation([f.qualname, "generator"], f"{f.short} is a generator and is memoised: the cached generator object is "
                                                     f"exhausted after the first use", f.relpath, f.node.lineno, site=site)
            continue
        reach = ctx.cg.reachable_from([f])
        hit = sorted(q for q in reach if q in fs)
        if hit:
            q = hit[0]
            chain = ctx.cg.chain(reach, q)
            res.violation([f.qualname, "file-system effect", fs[q]],
                          f"{f.short} is memoised but reads or writes the data file system ({fs[q]} in {q}): after the data "
                          f"changes the cached answer is stale", f.relpath, f.node.lineno, chain=chain, site=site)
            continue
        res.ok(site, f"not a generator; no data-file-system call among {len(reach)} reachable functions")
    # the data path itself carries no memo decorator (so a new Getter / process sees the files)
    for q in ("spil.sid.read.finder.Finder.find", "spil.sid.read.finder.Finder.find_one", "spil.sid.read.finder.Finder.exists",
              "spil.sid.pathops.getter_paths.GetFromPaths.get_data", "spil.sid.pathops.write_paths._write_data",
              "spil.sid.pathops.find_paths.FindInPaths.star_search_simple", "spil.sid.read.finders.find_all.FindInAll.find",
              "spil.sid.read.getters.getter_all.GetFromAll.get", "spil.sid.sid.DataSid.exists"):
        f = ctx.p.function(q)
        bad = [d for d in f.decorators if d in memo_decorators(ctx) or d in FUNCTOOLS_MEMO]
        if bad:
            res.violation([q, "memoised data access"], f"{f.short} answers from data and is memoised by {bad[0]}", f.relpath, f.node.lineno)
        else:
            res.ok(f"{q} is not memoised", "data access is recomputed on every call", nontrivial=False)
    return res


# ------------------------------------------------------------------------------------------------
READ_ROOTS = [
    "spil.sid.read.finder.Finder.find", "spil.sid.read.finder.Finder.find_one", "spil.sid.read.finder.Finder.exists",
    "spil.sid.read.finders.find_all.FindInAll.find", "spil.sid.read.getter.Getter.get", "spil.sid.read.getter.Getter.get_one",
    "spil.sid.read.getter.Getter.get_data", "spil.sid.read.getter.Getter.get_attr",
    "spil.sid.read.getters.getter_all.GetFromAll.get", "spil.sid.read.getters.getter_all.GetFromAll.get_data",
    "spil.sid.read.getters.getter_all.GetFromAll.get_attr", "spil.sid.read.getters.getter_finder.GetByFinder.get",
    "spil.sid.read.getters.getter_finder.GetByFinder.do_get", "spil.sid.pathops.getter_paths.GetFromPaths.get_data",
    "spil.sid.sid.DataSid.exists", "spil.sid.sid.DataSid.children", "spil.sid.sid.DataSid.siblings",
    "spil.sid.sid.DataSid.siblings_as", "spil.sid.sid.DataSid.get_last", "spil.sid.sid.DataSid.get_next",
    "spil.sid.sid.DataSid.get_new", "spil.sid.sid.DataSid.get_attr", "spil.sid.sid.TypedSid.match",
    "spil.sid.read.tools.unfold_search",
]
# (function, written target) -> (reason, structural side condition)
NOSTATE_TABLE = {
    ("spil.sid.read.finders.find_list.FindInList._sort_searchlist", "attribute self.searchlist"):
        ("pre-sorting of the list happens only under do_sort=True, which no caller passes", "do_sort_never_passed"),
    ("spil.sid.read.finders.find_list.FindInList._sort_searchlist", "attribute self.is_searchlist_sorted"):
        ("pre-sorting of the list happens only under do_sort=True, which no caller passes", "do_sort_never_passed"),
    ("spil_data_conf.get_finder_for", "module-level container finders_by_type"):
        ("one-time construction of the Finder instances under a miss test (instances, no data); FindInAll groups the "
         "typed searches by Finder instance", "registry_filled_under_miss_test"),
    ("spil_data_conf.get_getter_for", "module-level container getters_by_type"):
        ("one-time construction of the Getter instances under a miss test (instances, no data); GetFromAll groups the "
         "typed searches by Getter instance", "registry_filled_under_miss_test"),
}
MUTATORS = {"append", "extend", "insert", "remove", "pop", "popitem", "clear", "update", "setdefault", "add", "discard", "sort",
            "reverse"}


WRITE_ROOTS = [
    "spil.sid.pathops.write_paths.WriteToPaths.create", "spil.sid.pathops.write_paths.WriteToPaths.update",
    "spil.sid.pathops.write_paths.WriteToPaths.set", "spil.sid.pathops.write_paths.WriteToPaths.delete",
    "spil.sid.write.write_all.WriteToAll.create", "spil.sid.write.write_all.WriteToAll.update", "spil.sid.write.write_all.WriteToAll.set",
    "spil.sid.write.write_all.WriteToAll.delete",
]


CONF_ROOTS = ["spil.conf.util.extrapolate_templates", "spil.conf.util.pattern_replacing"]


def rule_nostate(ctx: Ctx, which: str = "read") -> RuleResult:
    """No function on the read path (``which='write'``: on the write path) keeps results in instance attributes or module-level
    containers, directly or by handing such a container to a callee that fills it (the three memo decorators are the only memory,
    and R-PUREMEMO confines them)."""
    res = RuleResult("R-NOSTATE")
    roots = [ctx.p.function(q) for q in {"read": READ_ROOTS, "write": WRITE_ROOTS, "conf": CONF_ROOTS}[which]]
    reach = ctx.cg.reachable_from(roots)
    from .mutation import _param_effects, bind_args

    pe = _param_effects(ctx)
    wrappers = {w.qualname for w in memo_decorators(ctx).values()}
    n_checked = 0
    for q in sorted(reach):
        f = ctx.p.functions.get(q)
        if f is None or f.module.kind not in ("library", "config") or q in wrappers:
            continue
        if f.name in ("__init__", "_init", "__new__") or f.module.name == "spil.sid.read.finders.find_cache":
            continue
        if f.module.name.startswith("spil.util.log") or (f.module.name.startswith("spil.conf") and which != "conf"):
            continue
        n_checked += 1
        mod_containers = {n for n, bs in f.module.bindings.items()
                          if any(b.kind == "assign" and isinstance(b.value, (ast.Dict, ast.List, ast.Set, ast.Call)) for b in bs)}
        flow = flow_of(f.node)
        # a container of the instance / the module handed to a callee that writes into that parameter
        for cs in ctx.cg.sites.get(q, []):
            if not isinstance(cs.node, ast.Call):
                continue
            for t in cs.targets:
                muts = pe.mutates.get(t.qualname) or set()
                if not muts:
                    continue
                for pname, arg in bind_args(t, cs.node):
                    if pname not in muts:
                        continue
                    held = None
                    if isinstance(arg, ast.Attribute) and isinstance(arg.value, ast.Name) and arg.value.id in ("self", "cls"):
                        held = f"attribute {arg.value.id}.{arg.attr}"
                    elif isinstance(arg, ast.Name) and not flow.is_local(arg.id) and arg.id in mod_containers:
                        held = f"module-level container {arg.id}"
                    if held and (q, held) not in NOSTATE_TABLE:
                        res.violation([q, held, "via " + t.qualname], f"{f.short} is on the {which} path and hands {held} to {t.short}, which writes into it "
                                                                     f"(`{norm(cs.node)[:90]}`): later answers depend on earlier calls", f.relpath,
                                      cs.node.lineno, chain=ctx.cg.chain(reach, q))
        for n in own_nodes(f.node):
            target = None
            if isinstance(n, (ast.Assign, ast.AugAssign, ast.AnnAssign)):
                ts = n.targets if isinstance(n, ast.Assign) else [n.target]
                for t in ts:
                    base = t
                    while isinstance(base, ast.Subscript):
                        base = base.value
                    if isinstance(base, ast.Attribute) and isinstance(base.value, ast.Name) and base.value.id in ("self", "cls"):
                        target = f"attribute {base.value.id}.{base.attr}"
                    elif isinstance(t, ast.Subscript) and isinstance(base, ast.Name) and not flow.is_local(base.id) \
                            and base.id in mod_containers:
                        target = f"module-level container {base.id}"
            elif isinstance(n, ast.Expr) and isinstance(n.value, ast.Call) and isinstance(n.value.func, ast.Attribute) \
                    and n.value.func.attr in MUTATORS:
                base = n.value.func.value
                while isinstance(base, ast.Subscript):
                    base = base.value
                if isinstance(base, ast.Attribute) and isinstance(base.value, ast.Name) and base.value.id in ("self", "cls"):
                    target = f"attribute {base.value.id}.{base.attr}"
                elif isinstance(base, ast.Name) and not flow.is_local(base.id) and base.id in mod_containers:
                    target = f"module-level container {base.id}"
            elif isinstance(n, ast.Global):
                target = f"global {', '.join(n.names)}"
            if target is None:
                continue
            stmt = n
            key = (q, target)
            if key in NOSTATE_TABLE:
                why, cname = NOSTATE_TABLE[key]
                ok, detail = _nostate_cond(ctx, cname, f, n, target)
                if ok:
                    res.ok(f"{q}: writes {target}", f"table: {why} [{detail}]")
                    continue
                res.violation([q, target, cname], f"{f.short} writes {target} and the accepted idiom no longer holds: {detail}",
                              f.relpath, n.lineno, chain=ctx.cg.chain(reach, q))
            else:
                res.violation([q, target], f"{f.short} is on the {which} path and writes {target} (`{norm(stmt)[:100]}`): later answers "
                                               f"depend on earlier calls", f.relpath, n.lineno, chain=ctx.cg.chain(reach, q))
    res.floor(n_checked, {"read": 40, "write": 10, "conf": 2}[which], f"functions on the {which} path examined")
    res.ok(f"{n_checked} functions reachable from the {which} entry points", "no state is kept outside the memo decorators", nontrivial=False)
    return res


def _nostate_cond(ctx: Ctx, cname: str, f: FunctionInfo, node: ast.AST, target: str):
    if cname == "do_sort_never_passed":
        # no call site passes do_sort (keyword or third positional) to star_search / _get_searchlist other than
        # forwarding its own default-False parameter
        for g in ctx.p.functions.values():
            if g.module.kind not in ("library", "config"):
                continue
            for n in own_nodes(g.node):
                if isinstance(n, ast.Call) and isinstance(n.func, ast.Attribute) and n.func.attr in ("star_search", "_get_searchlist",
                                                                                                     "sorted_search"):
                    vals = [kw.value for kw in n.keywords if kw.arg == "do_sort"]
                    if n.func.attr == "star_search" and len(n.args) >= 3:
                        vals.append(n.args[2])
                    if n.func.attr == "_get_searchlist" and len(n.args) >= 1:
                        vals.append(n.args[0])
                    for v in vals:
                        if isinstance(v, ast.Name) and v.id == "do_sort" and "do_sort" in g.params:
                            continue  # forwards its own parameter
                        if isinstance(v, ast.Constant) and not v.value:
                            continue
                        return False, f"{g.qualname} passes do_sort={norm(v)}"
        # and the parameter defaults are False
        for q in ("spil.sid.read.finders.find_list.FindInList.star_search", "spil.sid.read.finders.find_list.FindInList._get_searchlist"):
            g = ctx.p.function(q)
            a = g.node.args
            names = [x.arg for x in a.args]
            if "do_sort" in names:
                d = a.defaults[names.index("do_sort") - (len(names) - len(a.defaults))] if names.index("do_sort") >= len(names) - len(a.defaults) else None
                if not (isinstance(d, ast.Constant) and d.value is False):
                    return False, f"{q}: do_sort does not default to False"
        return True, "no caller passes do_sort; its default is False"
    if cname == "registry_filled_under_miss_test":
        cont = target.split()[-1]
        cfg = cfg_of(f.node)
        cn = cfg.node_of(node)
        if cn is None:
            return False, "store not found in the CFG"
        for t in cfg.nodes:
            if t.kind == "test" and isinstance(t.ast, ast.If) and cfg.dominates(t.id, cn.id):
                test = t.ast.test
                miss = isinstance(test, ast.UnaryOp) and isinstance(test.op, ast.Not) and norm(test.operand) == cont
                # the miss test combined with others (`if not getter and not table:`): the store happens where the table is known empty
                from ..shape import facts_at as _facts_here

                miss = miss or (cont, False) in _facts_here(ctx, f, node)
                if miss and not cfg.path_exists(t.id, cn.id, skip_edges=[(t.id, "true")]):
                    # what is stored: constructor calls / None only
                    vals = []
                    call = node.value if isinstance(node, ast.Expr) else None
                    if call is not None and call.args and isinstance(call.args[0], ast.Dict):
                        vals = call.args[0].values
                    flow = flow_of(f.node)
                    for v in vals:
                        if isinstance(v, ast.Constant) and v.value is None:
                            continue
                        if isinstance(v, ast.Call):
                            continue
                        if isinstance(v, ast.Name):
                            nd = flow.node_of(v)
                            ds = flow.defs_reaching(nd.id, v.id) if nd is not None else []
                            if ds and all(d.kind == "assign" and isinstance(d.value, ast.Call) for d in ds):
                                continue
                        return False, f"stores `{norm(v)}`, which is not a freshly constructed instance"
                    return True, f"filled once under `if not {cont}:` with constructed instances"
        return False, f"the store into {cont} is not under an `if not {cont}:` miss test"
    raise AnalysisError(f"unknown R-NOSTATE side condition {cname}")


def _items_use(root: ast.AST, items_attr: ast.Attribute, parents) -> str:
    """``kwargs.items()`` feeding a comprehension that keeps only one component of each pair is lossy."""
    cur = items_attr
    while id(cur) in parents:
        par = parents[id(cur)]
        if isinstance(par, ast.comprehension):
            comp = parents.get(id(par))
            tgt = par.target
            elts = []
            if isinstance(comp, (ast.ListComp, ast.SetComp, ast.GeneratorExp)):
                elts = [comp.elt]
            elif isinstance(comp, ast.DictComp):
                elts = [comp.key, comp.value]
            used = {n.id for e in elts for n in ast.walk(e) if isinstance(n, ast.Name)}
            if isinstance(tgt, (ast.Tuple, ast.List)) and len(tgt.elts) == 2 and all(isinstance(x, ast.Name) for x in tgt.elts):
                k, v = tgt.elts[0].id, tgt.elts[1].id
                if k in used and v in used:
                    return "items"
                if k in used:
                    return "names"
                if v in used:
                    return "values"
                return "nothing"
            if isinstance(tgt, ast.Name):
                subs = [n for e in elts for n in ast.walk(e) if isinstance(n, ast.Subscript) and isinstance(n.value, ast.Name)
                        and n.value.id == tgt.id]
                whole = any(isinstance(n, ast.Name) and n.id == tgt.id and not isinstance(parents.get(id(n)), ast.Subscript)
                            for e in elts for n in ast.walk(e))
                if whole or not subs:
                    return "items"
                idx = set()
                for sub in subs:
                    try:
                        idx.add(ast.literal_eval(sub.slice))
                    except Exception:
                        return "items"
                if {0, 1} <= idx or {-2, -1} <= idx:
                    return "items"
                return "names" if idx <= {0, -2} else "values"
            return "items"
        cur = par
    return "items"
