"""R-IDENT - identity projections of a Sid: equality on uri, hash and repr functions of uri, order on
the string, copy through the uri.  Serves C14 and C02."""
from __future__ import annotations

import ast
from typing import List, Optional, Set

from ..context import Ctx
from ..dataflow import flow_of
from ..program import FunctionInfo, dotted, norm, own_nodes
from ..report import RuleResult


def _returns(f: FunctionInfo) -> List[ast.Return]:
    return [n for n in own_nodes(f.node) if isinstance(n, ast.Return) and n.value is not None]


def _strip_str(e: ast.AST) -> ast.AST:
    while isinstance(e, ast.Call) and isinstance(e.func, ast.Name) and e.func.id == "str" and len(e.args) == 1:
        e = e.args[0]
    return e


def _attr_of(e: ast.AST, base: str) -> Optional[str]:
    e = _strip_str(e)
    if isinstance(e, ast.Attribute) and isinstance(e.value, ast.Name) and e.value.id == base:
        return e.attr
    if isinstance(e, ast.Name) and e.id == base:
        return ""
    return None


def rule_ident(ctx: Ctx) -> RuleResult:
    res = RuleResult("R-IDENT")
    p = ctx.p
    string_sid = p.cls("spil.sid.sid.StringSid")
    typed = p.cls("spil.sid.sid.TypedSid")

    # ---- __eq__ ---------------------------------------------------------------------------------
    eq = p.function("spil.sid.sid.StringSid.__eq__")
    other = eq.params[1] if len(eq.params) > 1 else "other"
    cfg_flow = flow_of(eq.node)
    sid_branch_ok = str_branch_ok = False
    problems = []
    for r in _returns(eq):
        v = r.value
        if not (isinstance(v, ast.Compare) and len(v.ops) == 1 and isinstance(v.ops[0], ast.Eq)):
            problems.append(f"`{norm(r)}` is not a plain equality")
            continue
        sides = {(_attr_of(v.left, "self"), _attr_of(v.comparators[0], other)), (_attr_of(v.comparators[0], "self"), _attr_of(v.left, other))}
        from ..effects import Effects
        from ..shape import fact_nodes_at

        under_isinstance = ["true" if truth else "false" for t, truth in fact_nodes_at(ctx, eq, r)
                            if isinstance(t, ast.Call) and dotted(t.func) == "isinstance" and t.args and isinstance(t.args[0], ast.Name)
                            and t.args[0].id == other]
        if ("uri", "uri") in sides:
            if under_isinstance == ["true"]:
                sid_branch_ok = True
            else:
                problems.append("the uri comparison is not guarded by isinstance(other, Sid)")
        elif ("", "") in sides:
            if under_isinstance == ["false"]:
                str_branch_ok = True
            else:
                problems.append("a Sid is compared with another Sid by string only: Sids of different type with the same string "
                                "become equal while their hashes differ")
        else:
            problems.append(f"`{norm(r)}` compares neither the uris nor the strings")
    if sid_branch_ok and str_branch_ok and not problems:
        res.ok("StringSid.__eq__", "Sid vs Sid compares uri with uri under isinstance(other, Sid); otherwise str with str")
    else:
        res.violation(["spil.sid.sid.StringSid.__eq__", "equality on uri"],
                      "StringSid.__eq__: " + ("; ".join(problems) or "one of the two branches (uri for Sids, string otherwise) is missing"),
                      eq.relpath, eq.node.lineno)
    for k in p.subclasses(string_sid):
        if "__eq__" in k.methods or "__hash__" in k.methods or "__lt__" in k.methods:
            for nm in ("__eq__", "__hash__", "__lt__"):
                if nm in k.methods:
                    res.violation([k.qualname, nm, "override"], f"{k.name} overrides {nm}: equality / hash / order are defined once, on "
                                                                f"StringSid", k.methods[nm].relpath, k.methods[nm].node.lineno)

    # ---- __hash__ / __repr__ / uri ----------------------------------------------------------------
    h = p.function("spil.sid.sid.StringSid.__hash__")
    rets = _returns(h)
    ok = len(rets) == 1 and isinstance(rets[0].value, ast.Call) and dotted(rets[0].value.func) == "hash" and len(rets[0].value.args) == 1
    if ok:
        arg = rets[0].value.args[0]
        inner = _strip_str(arg)
        via_repr = isinstance(inner, ast.Call) and dotted(inner.func) == "repr" and len(inner.args) == 1 \
            and isinstance(inner.args[0], ast.Name) and inner.args[0].id == "self"
        via_uri = _attr_of(arg, "self") == "uri"
        # any text built from the uri and constants alone (format / f-string / concatenation)
        hflow = flow_of(h.node)
        atoms = hflow.depends(arg)
        built = {a.text for a in atoms if a.kind in ("attr", "param", "free")} - {"self"} == {"self.uri"} and all(a.kind == "param" or (
            a.kind in ("attr", "const") or (a.kind == "call" and (a.text.endswith(".format") or a.text in ("str", "repr")))) for a in atoms)
        ok = via_repr or via_uri or built
    if ok:
        res.ok("StringSid.__hash__", "hash of repr(self) / self.uri: a function of the uri")
    else:
        res.violation(["spil.sid.sid.StringSid.__hash__", "hash on uri"], "StringSid.__hash__ is not hash(repr(self)) / hash(self.uri): equal "
                                                                          "Sids may hash differently", h.relpath, h.node.lineno)
    rp = p.function("spil.sid.sid.StringSid.__repr__")
    flow = flow_of(rp.node)
    deps = set()
    for r in _returns(rp):
        deps |= {a.text for a in flow.depends(r.value) if a.kind in ("attr", "param", "call")}
    if deps <= {"self.uri", "self", "'Sid(\\'{0}\\')'.format", "\"Sid('{0}')\".format"} and "self.uri" in deps:
        res.ok("StringSid.__repr__", "formats self.uri only")
    else:
        res.violation(["spil.sid.sid.StringSid.__repr__", "repr on uri"], f"StringSid.__repr__ depends on {sorted(deps)}, not on the uri alone",
                      rp.relpath, rp.node.lineno)
    for q, allowed in (("spil.sid.sid.TypedSid.uri", {"self._type", "self.string", "self._string"}),
                       ("spil.sid.sid.StringSid.uri", {"self._string", "self.string"})):
        u = p.function(q)
        flow = flow_of(u.node)
        deps = set()
        for r in _returns(u):
            deps |= {a.text for a in flow.depends(r.value) if a.kind == "attr"}
        if deps and deps <= allowed and (q.startswith("spil.sid.sid.StringSid") or "self._type" in deps):
            res.ok(q, f"a function of {sorted(deps)}")
        else:
            res.violation([q, "uri projection"], f"{u.short} depends on {sorted(deps)}; expected type and string only", u.relpath, u.node.lineno)

    # ---- __lt__ + total_ordering ---------------------------------------------------------------------
    lt = p.function("spil.sid.sid.StringSid.__lt__")
    other = lt.params[1] if len(lt.params) > 1 else "other"
    rets = _returns(lt)
    ok = len(rets) == 1 and isinstance(rets[0].value, ast.Compare) and len(rets[0].value.ops) == 1 and isinstance(rets[0].value.ops[0], ast.Lt)
    if ok:
        v = rets[0].value
        l, r = v.left, v.comparators[0]
        ok = isinstance(l, ast.Call) and dotted(l.func) == "str" and isinstance(r, ast.Call) and dotted(r.func) == "str" \
            and _attr_of(l, "self") in ("", "string", "_string") and _attr_of(r, other) in ("", "string", "_string")
    if ok:
        res.ok("StringSid.__lt__", "str(self) < str(other)")
    else:
        res.violation(["spil.sid.sid.StringSid.__lt__", "order on string"], "StringSid.__lt__ does not order by the plain strings "
                                                                           f"(`{norm(rets[0]) if rets else '?'}`)", lt.relpath, lt.node.lineno)
    decos = [dotted(d) for d in string_sid.node.decorator_list]
    if any(d and d.split(".")[-1] == "total_ordering" for d in decos):
        res.ok("StringSid", "@total_ordering derives the other comparisons from __lt__ and __eq__")
    else:
        res.violation(["spil.sid.sid.StringSid", "total_ordering"], "StringSid lost @total_ordering: <=, >, >= are undefined", string_sid.module.relpath,
                      string_sid.node.lineno)

    # ---- copy ---------------------------------------------------------------------------------------------
    cp = p.function("spil.sid.sid.StringSid.copy")
    rets = _returns(cp)
    ok = len(rets) == 1 and isinstance(rets[0].value, ast.Call) and dotted(rets[0].value.func) == "Sid" and len(rets[0].value.args) == 1 \
        and _attr_of(rets[0].value.args[0], "self") == "uri" and not rets[0].value.keywords
    if ok:
        res.ok("StringSid.copy", "Sid(self.uri)")
    else:
        res.violation(["spil.sid.sid.StringSid.copy", "copy through uri"], "copy() is not Sid(self.uri)", cp.relpath, cp.node.lineno)

    # ---- __bool__ / __len__ -----------------------------------------------------------------------------
    for k in p.mro(p.cls("spil.sid.sid.Sid")):
        if "__bool__" in k.methods:
            res.violation([k.qualname, "__bool__"], f"{k.name} defines __bool__: truthiness must be 'has fields' (through __len__)",
                          k.methods["__bool__"].relpath, k.methods["__bool__"].node.lineno)
    ln = p.function("spil.sid.sid.TypedSid.__len__")
    rets = _returns(ln)
    if len(rets) == 1 and norm(rets[0].value) in ("len(self._fields)", "len(self._fields.keys())"):
        res.ok("TypedSid.__len__", "len(self._fields): an untyped Sid is falsy, a typed one truthy")
    else:
        res.violation(["spil.sid.sid.TypedSid.__len__", "length"], "TypedSid.__len__ is not the number of fields", ln.relpath, ln.node.lineno)
    return res
