"""C20 rules: nothing in the library depends on the demo configuration.
R-VOCAB (no demo key / type / value literal in a semantic position), R-TBL (decisions read the
configured tables), R-NOCASE (values are never case-folded), R-CLASSSTATE (no state shared between
configurations), R-LOADALL (the loaders copy every member of the configuration modules)."""
from __future__ import annotations

import ast
from typing import Dict, List, Optional, Set, Tuple

from ..context import Ctx
from ..program import FunctionInfo, Module, dotted, norm, own_nodes
from ..report import RuleResult
from .. import templates as T
from .config import sid_tables, _default_order

# words of the demo vocabulary that are also ordinary API / Python vocabulary of the library itself
# (parameter names, dictionary keys of Spil's own API): using them is not a dependence on the demo values
GENERIC = {"type", "sid", "default", "state", "a", "s", "p", "w", "fx", "cache", "json", "art", "project"}


def demo_vocabulary(ctx: Ctx) -> Dict[str, str]:
    """word -> where it comes from"""
    voc: Dict[str, str] = {}
    tabs = sid_tables(ctx)

    def add(w, src):
        if isinstance(w, str) and w and w not in T.SEARCH_SYMBOLS:
            voc.setdefault(w, src)

    for typ, tpl in tabs["final"].items():
        add(typ, "type name")
        for part in typ.split("__"):
            add(part, "type name part")
        for p in T.parse_template(tpl):
            if p.kind == "ph":
                add(p.text, "key name")
                lang = T.classify(p.expr)
                for w in lang.words:
                    add(w, f"value of {{{p.text}}}")
                for pre, n in lang.shapes:
                    add(pre, f"value prefix of {{{p.text}}}")
    for k, vs in tabs["extension_alias"].items():
        add(k, "extension alias")
        for v in vs:
            add(v, "extension alias member")
    for v in ctx.conf.sid_value("projects", list):
        add(v, "project")
    for name, env in _default_order(ctx).items():
        for key, mapping in env.get("path_mapping", {}).items():
            if isinstance(mapping, dict):
                for a, b in mapping.items():
                    add(a, "path mapping")
                    add(b, "path mapping")
        for k, v in (env.get("path_defaults") or {}).items():
            add(v, "path default")
    return voc


def _semantic_literals(fn_node: ast.AST) -> List[Tuple[ast.Constant, str]]:
    """string constants in positions where they select data: argument of .get/.pop/.get_with/.get_as/
    .get_last/.get_next/.get_new/[...], operand of == != in / not in, keyword *names* of get_with."""
    out: List[Tuple[ast.AST, str]] = []
    for n in own_nodes(fn_node):
        if isinstance(n, ast.Call):
            fn = n.func
            if isinstance(fn, ast.Attribute) and fn.attr in ("get", "pop", "get_with", "get_as", "get_last", "get_next", "get_new", "siblings_as",
                                                             "setdefault"):
                for a in n.args[:1]:
                    if isinstance(a, ast.Constant) and isinstance(a.value, str):
                        out.append((a, f"argument of .{fn.attr}()"))
                if fn.attr in ("get_with",):
                    for k in n.keywords:
                        if k.arg and k.arg not in ("query", "key", "value"):
                            c = ast.Constant(value=k.arg)
                            c.lineno = n.lineno
                            out.append((c, "keyword name of .get_with()"))
                        if k.arg in ("key", "value") and isinstance(k.value, ast.Constant) and isinstance(k.value.value, str):
                            out.append((k.value, f"{k.arg}= of .get_with()"))
        elif isinstance(n, ast.Subscript) and isinstance(n.slice, ast.Constant) and isinstance(n.slice.value, str):
            out.append((n.slice, "subscript"))
        elif isinstance(n, ast.Compare):
            for op, c in zip(n.ops, [n.left] + n.comparators[:-1]):
                pass
            sides = [n.left] + list(n.comparators)
            if any(isinstance(o, (ast.Eq, ast.NotEq, ast.In, ast.NotIn)) for o in n.ops):
                for s in sides:
                    if isinstance(s, ast.Constant) and isinstance(s.value, str):
                        out.append((s, "comparison operand"))
                    if isinstance(s, (ast.List, ast.Tuple, ast.Set)):
                        for e in s.elts:
                            if isinstance(e, ast.Constant) and isinstance(e.value, str):
                                out.append((e, "comparison operand"))
    return out


VOCAB_TABLE: Dict[Tuple[str, str], str] = {
    # (function qualname, literal) -> reason it is not a dependence on the demo configuration
}


def rule_vocab(ctx: Ctx) -> RuleResult:
    res = RuleResult("R-VOCAB")
    voc = demo_vocabulary(ctx)
    res.floor(len(voc), 40, "words in the folded demo vocabulary")
    n = 0
    hits = 0
    for f in ctx.p.iter_functions(kinds=("library",)):
        if f.module.name.startswith("spil.sid.read.finders.find_cache") or f.module.name.startswith("spil.util.log") \
                or f.module.name.startswith("spil.conf.configio"):
            continue
        for c, where in _semantic_literals(f.node):
            n += 1
            w = c.value
            if w not in voc or w in GENERIC:
                continue
            hits += 1
            if (f.qualname, w) in VOCAB_TABLE:
                res.ok(f"{f.qualname}: '{w}' ({where})", f"table: {VOCAB_TABLE[(f.qualname, w)]}")
                continue
            res.violation([f.qualname, w, where], f"{f.short} hard-codes the demo configuration's {voc[w]} '{w}' ({where}): under a configuration "
                                                  f"that names it differently this code path silently does something else", f.relpath, getattr(c, "lineno", 0))
    res.floor(n, 20, "string literals in semantic positions examined")
    res.ok(f"{n} string literals in semantic positions of the library, vocabulary of {len(voc)} demo words",
           f"{hits} belong to the demo vocabulary", nontrivial=False)
    return res


def rule_tbl(ctx: Ctx) -> RuleResult:
    """leaf / narrowing / alias / key-order decisions read the configured tables"""
    res = RuleResult("R-TBL")
    want = [
        ("spil.sid.sid.TypedSid.is_leaf", "conf.leaf_keys", "leaf rule"),
        ("spil.sid.core.utils.expand", "leaf_keys", "'**' completion"),
        ("spil.sid.read.unfolders.typed_narrow.type_narrow", "basetyped_search_narrowing", "basetype narrowing"),
        ("spil.sid.read.unfolders.extensions.handle_extension", "extension_alias", "alias expansion"),
        ("spil.sid.read.unfolders.extensions.extensions", "leaf_keys", "alias expansion in filters"),
        ("spil.sid.pathops.fs_resolver.path_to_dict", "key_types", "field order of path-built Sids"),
        ("spil.sid.sid.StringSid.is_search", "conf.search_symbols", "what a search is"),
        ("spil.sid.sid.StringSid.__truediv__", "conf.sip", "segment separator"),
    ]
    for q, table, what in want:
        f = ctx.p.function(q)
        names = {norm(n) for n in own_nodes(f.node) if isinstance(n, (ast.Name, ast.Attribute))}
        if table in names:
            res.ok(f"{f.short}: {what}", f"reads {table}")
        else:
            res.violation([q, table, "table not consulted"], f"{f.short} decides the {what} without reading {table}", f.relpath, f.node.lineno)
    return res


def rule_nocase(ctx: Ctx) -> RuleResult:
    res = RuleResult("R-NOCASE")
    n = 0
    for f in ctx.p.iter_functions(kinds=("library",)):
        if not (f.module.name.startswith("spil.sid") or f.module.name.startswith("spil.conf.util")) or "find_cache" in f.module.name:
            continue
        n += 1
        for c in own_nodes(f.node):
            if isinstance(c, ast.Call) and isinstance(c.func, ast.Attribute) and c.func.attr in ("lower", "upper", "casefold", "title", "capitalize",
                                                                                                  "swapcase") and not c.args:
                res.violation([f.qualname, norm(c.func), "case folding"], f"{f.short} case-folds a Sid / search value (`{norm(c)[:50]}`): "
                                                                          f"configurations with upper-case values stop resolving", f.relpath, c.lineno)
    res.floor(n, 60, "functions of spil.sid examined")
    res.ok(f"{n} functions of spil.sid / spil.conf.util", "no case folding of values", nontrivial=False)
    return res


def rule_classstate(ctx: Ctx) -> RuleResult:
    """no mutable class-level attribute is written by instances (it would be shared across configurations)"""
    res = RuleResult("R-CLASSSTATE")
    n = 0
    for c in ctx.p.classes.values():
        if c.module.kind != "library" or "find_cache" in c.module.name or not c.module.name.startswith(("spil.sid", "spil.conf")):
            continue  # spil.util.singleton is the generic Singleton helper (its registry is the point of it)
        for name, val in c.attrs.items():
            mutable = isinstance(val, (ast.Dict, ast.List, ast.Set)) or (isinstance(val, ast.Call) and dotted(val.func) in (
                "dict", "list", "set", "defaultdict", "OrderedDict", "collections.defaultdict"))
            if not mutable:
                continue
            n += 1
            for k in [c] + ctx.p.subclasses(c):
                for m in k.methods.values():
                    for x in own_nodes(m.node):
                        tgt = None
                        if isinstance(x, (ast.Assign, ast.AugAssign)):
                            for t in (x.targets if isinstance(x, ast.Assign) else [x.target]):
                                if isinstance(t, ast.Subscript):
                                    tgt = t.value
                        elif isinstance(x, ast.Call) and isinstance(x.func, ast.Attribute) and x.func.attr in (
                                "update", "append", "add", "setdefault", "extend", "pop", "clear", "insert", "remove"):
                            tgt = x.func.value
                        while isinstance(tgt, ast.Subscript):
                            tgt = tgt.value
                        if isinstance(tgt, ast.Attribute) and tgt.attr == name and isinstance(tgt.value, ast.Name) and tgt.value.id in (
                                "self", "cls", c.name):
                            res.violation([c.qualname, name, m.name], f"{c.name}.{name} is a class-level {type(val).__name__.lower()} and {m.short} "
                                                                      f"writes into it: every instance (every path configuration) shares it, the last "
                                                                      f"one wins", m.relpath, x.lineno)
            res.ok(f"{c.qualname}.{name}", "class-level container, never written through an instance") if not any(
                f.key[:2] == [c.qualname, name] for f in res.findings) else None
    res.ok(f"{n} mutable class-level attributes in the library", "none is written by instances", nontrivial=False)
    return res


def rule_loadall(ctx: Ctx) -> RuleResult:
    res = RuleResult("R-LOADALL")
    for modname in ("spil.conf.sid_conf_load", "spil.conf.data_conf_load"):
        m = ctx.p.module(modname)
        if m.loader is None:
            res.violation([modname, "loader"], f"{modname} no longer copies the members of its configuration module into spil.conf", m.relpath, 1)
            continue
        idx, target = m.loader
        loop = m.toplevel[idx]
        # the only filter is the dunder test
        ifs = [n for n in ast.walk(loop) if isinstance(n, ast.If)]
        var = norm(loop.target.elts[0]) if isinstance(loop.target, ast.Tuple) and loop.target.elts else "name"
        ok = all(norm(i.test) in (f"{var}.startswith('__')", f"not {var}.startswith('__')") for i in ifs)
        if ok:
            res.ok(f"{modname}", f"copies every non-dunder member of {target} (no fixed list of names)")
        else:
            res.violation([modname, "filter"], f"{modname} copies only selected members of {target}", m.relpath, loop.lineno)
    from ..shape import family
    from ..dataflow import flow_of

    pc = ctx.p.function("spil.sid.pathops.pathconfig.PathConfig.__init__")
    loops = [n for n in own_nodes(pc.node) if isinstance(n, ast.For) and "getmembers" in norm(n.iter)]
    ok = False
    if loops:
        lp = loops[0]
        var = norm(lp.target.elts[0]) if isinstance(lp.target, ast.Tuple) else "?"
        sets = [x for x in ast.walk(lp) if isinstance(x, ast.Call) and dotted(x.func) == "setattr" and len(x.args) == 3 and norm(x.args[1]) == var]
        # the only filter on the copy is the dunder test, in either spelling
        tests = [norm(i.test) for i in ast.walk(lp) if isinstance(i, ast.If)]
        ok = bool(sets) and all(t in (f"{var}.startswith('__')", f"not {var}.startswith('__')") for t in tests)
    if ok:
        res.ok("PathConfig.__init__", "copies every non-dunder member of the path configuration module")
    else:
        res.violation([pc.qualname, "loader"], "PathConfig does not copy every member of its configuration module", pc.relpath, pc.node.lineno)
    # the module is chosen by configured name
    imp = [(g, n) for g in family(ctx, pc) for n in own_nodes(g.node) if isinstance(n, ast.Call) and dotted(n.func) == "importlib.import_module"]
    good = False
    for g, n in imp:
        a0 = n.args[0] if n.args else None
        if isinstance(a0, ast.Name) and a0.id in g.params:
            good = True  # a parameter: PathConfig(name, module name) / helper(module name)
        elif a0 is not None:
            fl = flow_of(g.node)
            at = fl.node_of(n)
            deps = fl.depends(a0, at.id if at else None)
            if any(a.kind == "param" and a.text not in ("self", "cls") for a in deps) and not any(a.kind == "const" for a in deps if a.text.startswith("'spil")):
                good = True  # derived from the parameters only
    if good:
        res.ok("PathConfig module", "imported by the configured module name")
    else:
        res.violation([pc.qualname, "module name"], "PathConfig imports a fixed module", pc.relpath, pc.node.lineno)
    return res
