"""Path resolution rules: R-MAPAGREE, R-KEYORDER (C05, C03), R-REFORMAT / R-CANON (C06, C01/C02),
R-NOPATH (C05)."""
from __future__ import annotations

import ast
from typing import List, Optional

from ..cfg import cfg_of
from ..context import Ctx
from ..dataflow import flow_of
from ..program import FunctionInfo, dotted, norm, own_nodes
from ..report import RuleResult
from . import config as cfgrules
from ..shape import family, facts_at, inline_locals


def _rets(f: FunctionInfo) -> List[ast.Return]:
    return [n for n in own_nodes(f.node) if isinstance(n, ast.Return)]


def _is_items_key(f: FunctionInfo, e: ast.AST) -> bool:
    """``e`` is the key variable of an enclosing ``for key, value in <dict>.items()`` loop (whatever it is called)"""
    if not isinstance(e, ast.Name):
        return False
    for lp in own_nodes(f.node):
        if isinstance(lp, (ast.For, ast.comprehension)) and isinstance(lp.target, ast.Tuple) and len(lp.target.elts) == 2 \
                and isinstance(lp.target.elts[0], ast.Name) and lp.target.elts[0].id == e.id \
                and isinstance(lp.iter, ast.Call) and isinstance(lp.iter.func, ast.Attribute) and lp.iter.func.attr == "items":
            if isinstance(lp, ast.comprehension) or any(x is e for x in ast.walk(lp)):
                return True
    return e.id == "key"


def rule_mapagree(ctx: Ctx) -> RuleResult:
    """the same mapping tables are read forward in path_to_dict and reversed in dict_to_path"""
    res = RuleResult("R-MAPAGREE")
    p2d = ctx.p.function("spil.sid.pathops.fs_resolver.path_to_dict")
    d2p = ctx.p.function("spil.sid.pathops.fs_resolver.dict_to_path")

    def table_reads(f):
        out = {"global": [], "typed": []}
        for g in family(ctx, f):
            for n in own_nodes(g.node):
                if isinstance(n, ast.Call) and isinstance(n.func, ast.Attribute) and n.func.attr == "get" \
                        and norm(n.func.value).endswith(".path_mapping") and n.args:
                    (out["typed"] if isinstance(n.args[0], ast.Tuple) else out["global"]).append(n)
        return out

    a, b = table_reads(p2d), table_reads(d2p)
    if not a["global"] or not a["typed"] or not b["global"] or not b["typed"]:
        res.violation(["fs_resolver", "mapping tables"], "path_to_dict and dict_to_path do not both read the global and the type-specific "
                                                         "entry of path_mapping", p2d.relpath, p2d.node.lineno)
        return res
    # the typed key is (key, <type>) in both
    fa, fb = flow_of(p2d.node), flow_of(d2p.node)
    for f, reads in ((p2d, a), (d2p, b)):
        for c in reads["typed"]:
            t = c.args[0]
            if not (len(t.elts) == 2 and _is_items_key(f, t.elts[0])):
                res.violation([f.qualname, norm(c), "typed mapping key"], f"{f.short}: `{norm(c)}` is not keyed by (key, type)", f.relpath, c.lineno)
    # forward: value -> mapping.get(value, value); reverse: get_key(mapping, value, value)
    fwd = [n for g in family(ctx, p2d) for n in own_nodes(g.node) if isinstance(n, ast.Call) and isinstance(n.func, ast.Attribute)
           and n.func.attr == "get" and len(n.args) == 2 and norm(n.args[0]) == norm(n.args[1])]
    rev = [n for g in family(ctx, d2p) for n in own_nodes(g.node) if isinstance(n, ast.Call) and (dotted(n.func) or "").endswith("get_key")
           and len(n.args) == 3 and norm(n.args[1]) == norm(n.args[2])]
    if len(fwd) >= 2 and len(rev) >= 2:
        res.ok("fs_resolver path_mapping", f"forward mapping.get(v, v) x{len(fwd)} in path_to_dict; reverse get_key(mapping, v, v) x{len(rev)} "
                                           f"in dict_to_path; same global and (key, type) entries")
    else:
        res.violation(["fs_resolver", "mapping direction"], "the path -> sid lookup (mapping.get(v, v)) and the sid -> path lookup "
                                                            "(get_key(mapping, v, v)) no longer mirror each other", p2d.relpath, p2d.node.lineno)
    gk = ctx.p.function("spil.util.utils.get_key")
    uses_index = any(isinstance(n, ast.Call) and isinstance(n.func, ast.Attribute) and n.func.attr == "index" for n in own_nodes(gk.node))
    ret_default = any(isinstance(r.value, ast.Name) and r.value.id == gk.params[2] for r in _rets(gk))
    if uses_index and ret_default:
        res.ok("utils.get_key", "first key holding the value, else the default")
    else:
        res.violation([gk.qualname, "reverse lookup"], "utils.get_key is not 'first key with that value, else default'", gk.relpath, gk.node.lineno)
    return res


def rule_keyorder(ctx: Ctx) -> RuleResult:
    """the fields of a Sid built from a path are in key_types order (= template order, R-KEYTYPES)"""
    res = RuleResult("R-KEYORDER")
    f = ctx.p.function("spil.sid.pathops.fs_resolver.path_to_dict")
    flow = flow_of(f.node)
    rets = [r for r in _rets(f) if isinstance(r.value, ast.Tuple) and len(r.value.elts) == 2 and not isinstance(r.value.elts[1], ast.Constant)]
    ok = False
    why = "no data-carrying return found"
    for r in rets:
        d = r.value.elts[1]
        at = flow.node_of(r)
        if isinstance(d, ast.Name):
            stores = [n for n in own_nodes(f.node) if isinstance(n, ast.Assign) and isinstance(n.targets[0], ast.Subscript)
                      and norm(n.targets[0].value) == d.id]
            loops = [n for n in own_nodes(f.node) if isinstance(n, ast.For) and any(s in list(ast.walk(n)) for s in stores)]
            fresh = [x for x in flow.defs_reaching(at.id, d.id) if x.kind == "assign" and isinstance(x.value, (ast.Call, ast.Dict))
                     and norm(x.value) in ("OrderedDict()", "{}", "dict()")]
            if loops and fresh:
                lp = loops[-1]
                deps = flow.depends(lp.iter)
                if any(a.kind == "free" and a.text == "key_types" or a.kind == "attr" and a.text.endswith("key_types") for a in deps):
                    ok = True
                else:
                    why = f"the returned dictionary is filled in the order of `{norm(lp.iter)}`, which does not come from key_types"
            else:
                why = "the returned dictionary is the resolver's (path template order), not re-ordered by key_types"
        elif isinstance(d, (ast.DictComp,)):
            deps = flow.depends(d.generators[0].iter)
            ok = any(a.text.endswith("key_types") for a in deps)
            why = "comprehension does not iterate key_types"
        if not ok and isinstance(d, ast.Name):
            # ordered = OrderedDict((key, data.get(key)) for key in <derived from key_types>)  /  {k: ... for k in ...}
            for x in flow.defs_reaching(at.id, d.id):
                v = x.value
                comp = None
                if isinstance(v, ast.Call) and dotted(v.func) in ("OrderedDict", "dict", "collections.OrderedDict") and len(v.args) == 1 \
                        and isinstance(v.args[0], (ast.GeneratorExp, ast.ListComp)):
                    comp = v.args[0]
                elif isinstance(v, ast.DictComp):
                    comp = v
                if comp is not None:
                    deps = flow.depends(comp.generators[0].iter, x.node)
                    if any(a.text.endswith("key_types") for a in deps):
                        ok = True
                    else:
                        why = f"the returned dictionary is built in the order of `{norm(comp.generators[0].iter)}`, which does not come from key_types"
    if ok:
        res.ok("fs_resolver.path_to_dict", "returns a fresh dictionary filled in key_types[basetype] order")
    else:
        res.violation([f.qualname, "field order"], f"path_to_dict: {why}; a Sid built from a path would have its fields in path order "
                                                   f"(keytype / parent / get_as go wrong)", f.relpath, f.node.lineno)
    # basetype for the lookup is the template name's prefix
    bt = [n for n in own_nodes(f.node) if isinstance(n, ast.Subscript) and isinstance(n.value, ast.Call) and isinstance(n.value.func, ast.Attribute)
          and n.value.func.attr == "split" and norm(n.slice) == "0" and "sidtype_keytype_sep" in norm(n.value)]
    if bt:
        res.ok("fs_resolver.path_to_dict basetype", f"`{norm(bt[0])}`")
    else:
        res.violation([f.qualname, "basetype"], "path_to_dict does not derive the basetype from the template name", f.relpath, f.node.lineno)
    return res


def rule_nopath(ctx: Ctx) -> RuleResult:
    """path() answers None (never an error) for an untyped Sid or a type without path template"""
    res = RuleResult("R-NOPATH")
    f = ctx.p.function("spil.sid.sid.PathSid.path")
    calls = [n for n in own_nodes(f.node) if isinstance(n, ast.Call) and (dotted(n.func) or "").endswith("dict_to_path")]
    res.floor(len(calls), 1, "dict_to_path call in PathSid.path")
    c = calls[0]
    ok = ctx.ef.caught_locally(f, c, "SpilException")
    args_ok = len(c.args) >= 2 and norm(c.args[0]) == "self._fields" and norm(c.args[1]) == "self._type" and any(
        k.arg == "config" and norm(k.value) == "config" for k in c.keywords) or (len(c.args) == 3 and norm(c.args[2]) == "config")
    guard = any(r.value is None or (isinstance(r.value, ast.Constant) and r.value.value is None) for r in _rets(f))
    if ok and args_ok and guard:
        res.ok("PathSid.path", "dict_to_path(self._fields, self._type, config=config) inside try/except SpilException; None for an untyped Sid")
    else:
        res.violation([f.qualname, "shape"], "PathSid.path is not `dict_to_path(self._fields, self._type, config=config)` guarded against "
                                             "SpilException with a None fallback", f.relpath, f.node.lineno)
    # the answer is that call's result or None, nothing else (no path borrowed from another Sid when this one has none)
    flow = flow_of(f.node)
    for r in _rets(f):
        v = r.value
        if v is None or (isinstance(v, ast.Constant) and v.value is None) or v is c:
            continue
        at = flow.node_of(r)
        ds = flow.defs_reaching(at.id, v.id) if isinstance(v, ast.Name) and at is not None else []
        foreign = [d for d in ds if not (d.kind == "assign" and (d.value is c or (isinstance(d.value, ast.Constant) and d.value.value is None)))]
        if not ds or foreign:
            what = norm(foreign[0].value)[:60] if foreign and foreign[0].value is not None else norm(v)[:60]
            res.violation([f.qualname, "foreign answer"], f"PathSid.path can answer `{what}`, which is neither dict_to_path(own fields, own type, config) nor "
                                                          f"None: a Sid whose type has no path template gets a path, and that path belongs to another Sid",
                          f.relpath, r.lineno)
    d2p = ctx.p.function("spil.sid.pathops.fs_resolver.dict_to_path")
    # every explicit raise in dict_to_path is a SpilException (so path() turns it into None)
    bad = [rp for rp, node in ctx.ef.points(d2p) if rp.kind == "raise" and rp.exc != "SpilException"]
    if bad:
        res.violation([d2p.qualname, bad[0].text, "foreign exception"], f"dict_to_path raises {bad[0].exc}, which PathSid.path does not turn into None",
                      d2p.relpath, bad[0].lineno)
    else:
        res.ok("dict_to_path raises", "only SpilException")
    return res


LOSSY_PATH_CALLS = {"normpath", "abspath", "realpath", "resolve", "normcase", "lower", "upper", "casefold", "strip", "rstrip", "lstrip",
                    "expanduser", "expandvars", "absolute", "relpath"}


def rule_reformat(ctx: Ctx) -> RuleResult:
    """C06 second clause by shape: a path only yields typed data after the data has been formatted back
    through the same configuration and compared with the given path."""
    res = RuleResult("R-REFORMAT")
    lit = cfgrules.rule_literal(ctx)
    reasons = []
    if getattr(lit, "_found", None):
        nm, typ, metas = lit._found[0]
        reasons.append(f"{len(lit._found)} path templates carry unescaped regex metacharacters {sorted({m for _, _, ms in lit._found for m in ms})} "
                       f"in literal text (e.g. {nm}:{typ}: '..._v001Xma' is accepted where '..._v001.ma' is meant)")
    anchor = ctx.p.function("resolva.template.construct_regular_expression")
    if any(isinstance(n, ast.Constant) and isinstance(n.value, str) and n.value.endswith("$") for n in own_nodes(anchor.node)):
        reasons.append("resolva anchors with '$', which also matches before a trailing newline")
    inj = cfgrules.rule_mapinj(ctx)
    for name, key, ks in getattr(inj, "_found", []):
        reasons.append(f"path_mapping[{key!r}] ({name}) is not one-to-one ({ks})")
    f = ctx.p.function("spil.sid.pathops.fs_resolver.path_to_dict")
    flow = flow_of(f.node)
    cfg = cfg_of(f.node)
    path_p, type_p, conf_p = f.params[0], f.params[1], f.params[2]
    backs = [n for n in own_nodes(f.node) if isinstance(n, ast.Call) and (dotted(n.func) or "").split(".")[-1] == "dict_to_path"]
    typed_rets = [r for r in _rets(f) if isinstance(r.value, ast.Tuple) and len(r.value.elts) == 2 and not isinstance(r.value.elts[1], ast.Constant)]
    ok = False
    why = "path_to_dict returns the resolved data without formatting it back"
    for b in backs:
        kw = {k.arg: k.value for k in b.keywords}
        conf_arg = kw.get("config", b.args[2] if len(b.args) > 2 else None)
        if conf_arg is None or norm(conf_arg) != conf_p:
            why = "the re-format does not use the same path configuration"
            continue
        if not b.args:
            continue
        # the formatted path must be compared with the input path, and the typed return must lie on the equal side
        back_var = None
        for d in flow.all_defs:
            if d.value is b:
                back_var = d.var
        for t in cfg.nodes:
            if t.kind != "test" or not isinstance(t.ast, ast.If):
                continue
            test = t.ast.test
            cmps = [x for x in ast.walk(test) if isinstance(x, ast.Compare) and len(x.ops) == 1 and isinstance(x.ops[0], (ast.Eq, ast.NotEq))]
            for cmp_ in cmps:
                sides = [cmp_.left, cmp_.comparators[0]]
                has_back = any((back_var and back_var in {n.id for n in ast.walk(s) if isinstance(n, ast.Name)}) or any(n is b for n in ast.walk(s))
                               for s in sides)
                has_path = any(any(a.kind == "param" and a.text == path_p for a in flow.depends(s, t.id)) for s in sides)
                if not (has_back and has_path):
                    continue
                # ... with the path *as given* (separators apart): a collapsing normalisation on the way to the comparison
                # makes 'a/../b' own the Sid of 'b'
                lossy = sorted({a.text for s in sides for a in flow.depends(s, t.id)
                                if a.kind == "call" and a.text.split(".")[-1] in LOSSY_PATH_CALLS and not any(n is b for n in ast.walk(s))})
                if lossy:
                    why = (f"the given path goes through {lossy} before it is compared with the re-formatted path: paths that merely "
                           f"normalise to a Sid's path ('x/../y', 'y/.', 'y//') are typed as that Sid")
                    continue
                good_label = "true" if isinstance(cmp_.ops[0], ast.Eq) else "false"
                all_guarded = True
                for r in typed_rets:
                    rn = cfg.node_of(r)
                    if cfg.path_exists(t.id, rn.id, skip_edges=[(t.id, good_label)]) or not cfg.dominates(t.id, rn.id):
                        all_guarded = False
                if all_guarded and typed_rets:
                    # data handed to the re-format is the data returned
                    ret_data = typed_rets[0].value.elts[1]
                    if norm(b.args[0]) == norm(ret_data) or (isinstance(ret_data, ast.Name) and isinstance(b.args[0], ast.Name)):
                        ok = True
                else:
                    why = "a typed return is reachable without passing the re-format comparison"
    if ok:
        res.ok("fs_resolver.path_to_dict", "typed data is returned only when dict_to_path(data, type, config) equals the given path"
               + (f" (this discharges: {'; '.join(reasons)})" if reasons else ""))
    else:
        res.violation([f.qualname, "re-format check"],
                      f"Sid(path=p, config=c) can be typed although sid.path(c) != p: {why}. " + "; ".join(reasons), f.relpath, f.node.lineno)
    return res


def rule_canon(ctx: Ctx) -> RuleResult:
    """C01 / C02 by shape: a string is typed only if its fields format back to that very string."""
    res = RuleResult("R-CANON")
    anchor = ctx.p.function("resolva.template.construct_regular_expression")
    dollar = any(isinstance(n, ast.Constant) and isinstance(n.value, str) and n.value.endswith("$") for n in own_nodes(anchor.node))
    f = ctx.p.function("spil.sid.core.sid_resolver.sid_to_dict")
    flow = flow_of(f.node)
    cfg = cfg_of(f.node)
    sid_p = f.params[0]
    typed_rets = [r for r in _rets(f) if any(isinstance(v, ast.Tuple) and len(v.elts) == 2 and not isinstance(v.elts[1], ast.Constant)
                                             for v in _ret_values(flow, r))]
    ok = False
    for t in cfg.nodes:
        if t.kind != "test" or not isinstance(t.ast, ast.If):
            continue
        for cmp_ in [x for x in ast.walk(t.ast.test) if isinstance(x, ast.Compare) and len(x.ops) == 1 and isinstance(x.ops[0], (ast.Eq, ast.NotEq))]:
            sides = [cmp_.left, cmp_.comparators[0]]
            deps = [flow.depends(s, t.id) for s in sides]
            has_fmt = any(any(a.kind == "call" and (a.text.split(".")[-1] in ("format", "format_one", "dict_to_sid") or _helper_formats(ctx, f, a))
                              for a in d) for d in deps)
            has_sid = any(isinstance(s, ast.Name) and s.id == sid_p for s in sides)
            if has_fmt and has_sid:
                good = "true" if isinstance(cmp_.ops[0], ast.Eq) else "false"
                if typed_rets and all(cfg.dominates(t.id, cfg.node_of(r).id) and not cfg.path_exists(t.id, cfg.node_of(r).id, skip_edges=[(t.id, good)])
                                      for r in typed_rets):
                    ok = True
    if ok:
        res.ok("sid_resolver.sid_to_dict", "typed data is returned only when it formats back to the given string"
               + (" (this discharges resolva's '$' anchor, which also matches before a trailing newline)" if dollar else ""))
    elif dollar:
        res.violation([f.qualname, "canonical string"],
                      "a string can be typed although it is not the canonical rendering of its fields: resolva anchors templates with '$', "
                      "which also matches before a trailing newline (Sid('hamlet\\n') is typed 'project' with fields {'project': 'hamlet'} "
                      "and string 'hamlet\\n'), and sid_to_dict does not compare the re-formatted fields with the input", f.relpath, f.node.lineno)
    else:
        res.ok("resolva anchoring", "templates are anchored without '$'")
    return res


def _ret_values(flow, r: ast.Return) -> List[ast.AST]:
    """the expressions a return statement may hand out (conditional expressions and local names unfolded)"""
    out, todo, seen = [], [r.value], set()
    at = flow.node_of(r)
    while todo:
        v = todo.pop()
        if v is None or id(v) in seen:
            continue
        seen.add(id(v))
        if isinstance(v, ast.IfExp):
            todo += [v.body, v.orelse]
        elif isinstance(v, ast.BoolOp):
            todo += list(v.values)
        elif isinstance(v, ast.Name) and flow.is_local(v.id):
            ds = [d for d in flow.defs_reaching(at.id, v.id)] if at is not None else []
            vals = [d.value for d in ds if d.kind == "assign" and d.value is not None]
            if vals and len(vals) == len(ds):
                todo += vals
            else:
                out.append(v)
        else:
            out.append(v)
    return out


def _helper_formats(ctx: Ctx, f: FunctionInfo, atom) -> bool:
    """the call goes to a private helper of the same module whose result is a template format of its arguments"""
    node = atom.node
    if not isinstance(node, ast.Call):
        return False
    for cs in ctx.cg.sites.get(f.qualname, []):
        if cs.node is node:
            for t in cs.targets:
                if t.module is f.module and t.name.startswith("_"):
                    fl = flow_of(t.node)
                    for r in _rets(t):
                        if r.value is not None and any(a.kind == "call" and a.text.split(".")[-1] in ("format", "format_one") for a in fl.depends(r.value)):
                            return True
    return False


def rule_pathfirst(ctx: Ctx) -> RuleResult:
    """C05 / C06 / C11: a path is typed by the first path template (configuration order) that accepts it, a given type by that one
    template; the templates alone decide (no exit before the resolver was asked, no selection among the templates beside it)."""
    res = RuleResult("R-PATHFIRST")
    f = ctx.p.function("spil.sid.pathops.fs_resolver.path_to_dict")
    flow = flow_of(f.node)
    cfg = cfg_of(f.node)
    path_p = f.params[0]
    type_p = f.params[1] if len(f.params) > 1 else "_type"
    calls = {"resolve_first": [], "resolve_one": [], "resolve_all": []}
    for n in own_nodes(f.node):
        if isinstance(n, ast.Call) and isinstance(n.func, ast.Attribute) and n.func.attr in calls:
            calls[n.func.attr].append(n)
    why: List[str] = []
    firsts = calls["resolve_first"]
    if len(firsts) != 1:
        why.append(f"{len(firsts)} resolve_first calls (expected one: every path template is tried, in configuration order)")
    else:
        c = firsts[0]
        at = flow.node_of(c)
        if len(c.args) != 1 or not any(a.kind == "param" and a.text == path_p for a in flow.depends(c.args[0], at.id if at else None)):
            why.append(f"`{norm(c)}` does not resolve the given path")
        fs = facts_at(ctx, f, c)
        if (type_p, True) in fs:
            why.append("resolve_first is used although a type is given")
        recv_deps = flow.depends(c.func.value, at.id if at else None)
        if not any(a.kind == "call" and a.text.endswith("Resolver.get") for a in recv_deps):
            why.append(f"`{norm(c)}` is not called on the path configuration's Resolver")
    for c in calls["resolve_one"]:
        fs = facts_at(ctx, f, c)
        if (type_p, True) not in fs or len(c.args) != 2 or norm(c.args[1]) != type_p:
            why.append(f"`{norm(c)[:60]}` tries a template chosen by something other than the given type: templates are selected beside the resolver")
    if not why and firsts:
        asked = [cfg.node_of(c).id for c in firsts + calls["resolve_one"] if cfg.node_of(c) is not None]
        for r in [n for n in own_nodes(f.node) if isinstance(n, ast.Return)]:
            rn = cfg.node_of(r)
            if rn is not None and cfg.path_exists(cfg.entry.id, rn.id, avoid=asked, exceptional=False):
                why.append(f"`{norm(r)}` can be reached without asking the resolver")
                break
    if why:
        res.violation([f.qualname, "first template"], "path_to_dict: " + "; ".join(why), f.relpath, f.node.lineno)
    else:
        res.ok("fs_resolver.path_to_dict", "resolve_first(path) on the configuration's Resolver when no type is given, resolve_one(path, _type) "
                                           "otherwise; no exit before one of them")
    # the type that owns the path is the type of the Sid: path_to_sid hands the template found by path_to_dict on, it does not
    # derive a type from the fields a second time (several types share one key set)
    g = ctx.p.function("spil.sid.core.sid_factory.path_to_sid")
    gflow = flow_of(g.node)
    p2d = [n for n in own_nodes(g.node) if isinstance(n, ast.Call) and (dotted(n.func) or "").endswith("path_to_dict")]
    if len(p2d) != 1:
        res.violation([g.qualname, "path_to_dict"], "path_to_sid does not ask path_to_dict once", g.relpath, g.node.lineno)
        return res

    def is_owner_type(e: ast.AST, at_node: ast.AST) -> bool:
        if isinstance(e, ast.Subscript) and e.value is p2d[0] and norm(e.slice) == "0":
            return True
        if not isinstance(e, ast.Name):
            return False
        at = gflow.node_of(at_node)
        ds = gflow.defs_reaching(at.id, e.id) if at is not None else []
        return bool(ds) and all(d.kind == "unpack" and d.index == 0 and d.value is p2d[0] for d in ds)

    sinks = []
    for n in own_nodes(g.node):
        if not isinstance(n, ast.Call):
            continue
        nm = (dotted(n.func) or "").split(".")[-1]
        for k in n.keywords:
            if k.arg in ("type", "_type"):
                sinks.append((n, k.value))
        if nm == "dict_to_sid" and len(n.args) >= 2:
            sinks.append((n, n.args[1]))
    builds = [n for n in own_nodes(g.node) if isinstance(n, ast.Call) and (dotted(n.func) or "").split(".")[-1] in ("dict_to_sid", "_init")]
    bad = [(c, e) for c, e in sinks if not is_owner_type(e, c)]
    untyped_builds = [c for c in builds if not any(c is c2 for c2, _ in sinks)]
    if not sinks or bad or untyped_builds:
        c = (bad[0][0] if bad else (untyped_builds[0] if untyped_builds else g.node))
        res.violation([g.qualname, "owner type"], f"path_to_sid: `{norm(c)[:70]}` builds the Sid without the type path_to_dict found for the path: the type is "
                                                  f"derived again from the fields, and a path of a later type with the same keys becomes a Sid of the first",
                      g.relpath, getattr(c, "lineno", g.node.lineno))
    else:
        res.ok("sid_factory.path_to_sid", f"{len(sinks)} construction step(s) take the type from path_to_dict(path)[0]")
    return res
