"""Side conditions under which entries of the frozen discharge tables apply.  Each returns
(holds, detail).  A condition that cannot be evaluated raises AnalysisError (exit 2)."""
from __future__ import annotations

import ast
from typing import Callable, Dict, Tuple

from ..context import Ctx
from ..program import AnalysisError, dotted, norm, own_nodes

_REG: Dict[str, Callable[[Ctx], Tuple[bool, str]]] = {}
_CACHE: Dict[Tuple[int, str], Tuple[bool, str]] = {}


def cond(name: str):
    def deco(fn):
        _REG[name] = fn
        return fn

    return deco


def holds(ctx: Ctx, name: str) -> Tuple[bool, str]:
    if name not in _REG:
        raise AnalysisError(f"unknown side condition '{name}'")
    key = (id(ctx), name)
    if key not in _CACHE:
        _CACHE[key] = _REG[name](ctx)
    return _CACHE[key]


# --------------------------------------------------------------------------------------------------
@cond("spilexception_has_arg")
def _spilexception_has_arg(ctx: Ctx):
    cls = ctx.p.cls("spil.util.exception.SpilException")
    n = 0
    for f in list(ctx.p.functions.values()) + [ctx.cg.module_function(m) for m in ctx.p.modules.values()]:
        for node in own_nodes(f.node):
            if isinstance(node, ast.Call):
                r = ctx.p.resolve_expr(f.module, node.func, f if f.name != "<module>" else None)
                if r.kind == "class" and r.cls is cls:
                    n += 1
                    if not node.args:
                        return False, f"SpilException() without message in {f.qualname}"
    return n > 0, f"{n} constructions, all with a message"


@cond("searched_is_defaultdict")
def _searched_is_defaultdict(ctx: Ctx):
    f = ctx.p.function("spil.sid.pathops.find_paths.FindInPaths.star_search_simple")
    for node in own_nodes(f.node):
        tgt = val = None
        if isinstance(node, ast.AnnAssign) and isinstance(node.target, ast.Name):
            tgt, val = node.target.id, node.value
        elif isinstance(node, ast.Assign) and len(node.targets) == 1 and isinstance(node.targets[0], ast.Name):
            tgt, val = node.targets[0].id, node.value
        if tgt == "searched":
            ok = isinstance(val, ast.Call) and (dotted(val.func) or "").split(".")[-1] == "defaultdict" and val.args
            if not ok:
                return False, f"`searched = {norm(val) if val is not None else None}` is not a defaultdict"
    return True, "searched = defaultdict(list)"


@cond("path_configs_exist")
def _path_configs_exist(ctx: Ctx):
    pcs = ctx.conf.path_configs
    if not pcs:
        return False, "path_configs is empty"
    for name, mod in pcs.items():
        if mod not in ctx.p.modules:
            return False, f"path configuration '{name}' names a module that does not exist: {mod}"
    d = ctx.conf.data_value("default_path_config")
    if d and d not in pcs:
        return False, f"default_path_config '{d}' is not a key of path_configs"
    return True, f"{len(pcs)} path configurations, all modules present"


@cond("extrakeys_empty")
def _extrakeys_empty(ctx: Ctx):
    for first in list(ctx.conf.path_configs)[:1]:
        for name, env in ctx.conf.fs_envs(first).items():
            v = env.get("extrakeys_to_sidkeys")
            if v != {}:
                return False, f"path configuration '{name}' defines extrakeys_to_sidkeys = {v!r}"
    return True, "extrakeys_to_sidkeys == {} in every path configuration"


@cond("templates_nonempty")
def _templates_nonempty(ctx: Ctx):
    from ..templates import placeholders

    for t, tpl in ctx.conf.sid_value("sid_templates", dict).items():
        if not placeholders(tpl):
            return False, f"sid template '{t}' has no placeholder"
    return True, "every sid template has a placeholder"


@cond("mapping_idempotent")
def _mapping_idempotent(ctx: Ctx):
    """R-MAPIDEM: in every path configuration each mapping's keys and values are disjoint, so applying the
    path -> sid mapping twice is the identity (the mapped value is never itself a key)."""
    n = 0
    for first in list(ctx.conf.path_configs)[:1]:
        for name, env in ctx.conf.fs_envs(first).items():
            pm = ctx.conf.need(env, "path_mapping", dict, f"in path configuration {name}")
            for k, mapping in pm.items():
                if not isinstance(mapping, dict):
                    return False, f"{name}: path_mapping[{k!r}] is not a table"
                n += 1
                common = set(mapping.keys()) & set(mapping.values())
                if common:
                    return False, f"{name}: path_mapping[{k!r}] maps onto its own keys {sorted(common)}"
    ok2, d2 = holds(ctx, "extrakeys_empty")
    if not ok2:
        return False, d2
    return n > 0, f"{n} mappings with disjoint keys and values; no extra-key mapping"
