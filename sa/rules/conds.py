"""Side conditions under which entries of the frozen discharge tables apply.  Each returns
(holds, detail).  A condition that cannot be evaluated raises AnalysisError (exit 2)."""
from __future__ import annotations

import ast
from typing import Callable, Dict, Tuple

from ..context import Ctx
from ..program import AnalysisError, dotted, norm, own_nodes

_REG: Dict[str, Callable[[Ctx], Tuple[bool, str]]] = {}
_CACHE: Dict[Tuple[int, str], Tuple[bool, str]] = {}


def cond(name: str):
    def deco(fn):
        _REG[name] = fn
        return fn

    return deco


_LOADED = False


def _load_all():
    """rule modules register their own side conditions on import"""
    global _LOADED
    if _LOADED:
        return
    _LOADED = True
    import importlib

    for m in ("memo", "config", "search", "versions", "sidops", "pathops"):
        importlib.import_module(f"sa.rules.{m}")


def holds(ctx: Ctx, name: str) -> Tuple[bool, str]:
    _load_all()
    if name not in _REG:
        raise AnalysisError(f"unknown side condition '{name}'")
    key = (id(ctx), name)
    if key not in _CACHE:
        _CACHE[key] = _REG[name](ctx)
    return _CACHE[key]


# --------------------------------------------------------------------------------------------------
@cond("spilexception_has_arg")
def _spilexception_has_arg(ctx: Ctx):
    cls = ctx.p.cls("spil.util.exception.SpilException")
    n = 0
    for f in list(ctx.p.functions.values()) + [ctx.cg.module_function(m) for m in ctx.p.modules.values()]:
        for node in own_nodes(f.node):
            if isinstance(node, ast.Call):
                r = ctx.p.resolve_expr(f.module, node.func, f if f.name != "<module>" else None)
                if r.kind == "class" and r.cls is cls:
                    n += 1
                    if not node.args:
                        return False, f"SpilException() without message in {f.qualname}"
    return n > 0, f"{n} constructions, all with a message"


@cond("searched_is_defaultdict")
def _searched_is_defaultdict(ctx: Ctx):
    f = ctx.p.function("spil.sid.pathops.find_paths.FindInPaths.star_search_simple")
    for node in own_nodes(f.node):
        tgt = val = None
        if isinstance(node, ast.AnnAssign) and isinstance(node.target, ast.Name):
            tgt, val = node.target.id, node.value
        elif isinstance(node, ast.Assign) and len(node.targets) == 1 and isinstance(node.targets[0], ast.Name):
            tgt, val = node.targets[0].id, node.value
        if tgt == "searched":
            ok = isinstance(val, ast.Call) and (dotted(val.func) or "").split(".")[-1] == "defaultdict" and val.args
            if not ok:
                return False, f"`searched = {norm(val) if val is not None else None}` is not a defaultdict"
    return True, "searched = defaultdict(list)"


@cond("path_configs_exist")
def _path_configs_exist(ctx: Ctx):
    pcs = ctx.conf.path_configs
    if not pcs:
        return False, "path_configs is empty"
    for name, mod in pcs.items():
        if mod not in ctx.p.modules:
            return False, f"path configuration '{name}' names a module that does not exist: {mod}"
    d = ctx.conf.data_value("default_path_config")
    if d and d not in pcs:
        return False, f"default_path_config '{d}' is not a key of path_configs"
    return True, f"{len(pcs)} path configurations, all modules present"


@cond("extrakeys_empty")
def _extrakeys_empty(ctx: Ctx):
    for first in list(ctx.conf.path_configs)[:1]:
        for name, env in ctx.conf.fs_envs(first).items():
            v = env.get("extrakeys_to_sidkeys")
            if v != {}:
                return False, f"path configuration '{name}' defines extrakeys_to_sidkeys = {v!r}"
    return True, "extrakeys_to_sidkeys == {} in every path configuration"


@cond("templates_nonempty")
def _templates_nonempty(ctx: Ctx):
    from ..templates import placeholders

    for t, tpl in ctx.conf.sid_value("sid_templates", dict).items():
        if not placeholders(tpl):
            return False, f"sid template '{t}' has no placeholder"
    return True, "every sid template has a placeholder"


@cond("mapping_idempotent")
def _mapping_idempotent(ctx: Ctx):
    """R-MAPIDEM: in every path configuration each mapping's keys and values are disjoint, so applying the
    path -> sid mapping twice is the identity (the mapped value is never itself a key)."""
    n = 0
    for first in list(ctx.conf.path_configs)[:1]:
        for name, env in ctx.conf.fs_envs(first).items():
            pm = ctx.conf.need(env, "path_mapping", dict, f"in path configuration {name}")
            for k, mapping in pm.items():
                if not isinstance(mapping, dict):
                    return False, f"{name}: path_mapping[{k!r}] is not a table"
                n += 1
                common = set(mapping.keys()) & set(mapping.values())
                if common:
                    return False, f"{name}: path_mapping[{k!r}] maps onto its own keys {sorted(common)}"
    ok2, d2 = holds(ctx, "extrakeys_empty")
    if not ok2:
        return False, d2
    ok3, d3 = _mapped_cache_private(ctx)
    if not ok3:
        return False, d3
    return n > 0, f"{n} mappings with disjoint keys and values; no extra-key mapping; {d3}"


_P2D = "spil.sid.pathops.fs_resolver.path_to_dict"
_RESOLVE = ("resolva.resolver.Resolver.resolve_one", "resolva.resolver.Resolver.resolve_first", "resolva.resolver.Resolver.resolve_all")


def _is_sid_resolver(c, path_names, ctx=None, f=None, depth=0) -> bool:
    """c is Resolver.get(<constant string naming no path configuration>), directly, through a class constant, or as the
    value every return of a called library function gives"""
    if not isinstance(c, ast.Call):
        return False
    d = dotted(c.func)
    if d and d.endswith("Resolver.get") and len(c.args) == 1 and not c.keywords:
        a = c.args[0]
        if isinstance(a, ast.Attribute) and isinstance(a.value, ast.Name) and a.value.id in ("cls", "self") and f is not None \
                and getattr(f, "cls", None) is not None:
            vals = [n.value for n in f.cls.node.body if isinstance(n, ast.Assign)
                    and any(isinstance(t, ast.Name) and t.id == a.attr for t in n.targets)]
            a = vals[0] if len(vals) == 1 else a
        return isinstance(a, ast.Constant) and isinstance(a.value, str) and a.value not in path_names
    if ctx is None or f is None or depth > 2:
        return False
    for cs in ctx.cg.sites.get(f.qualname, []):
        if cs.node is c and cs.targets:
            ok = True
            for t in cs.targets:
                rets = [n.value for n in own_nodes(t.node) if isinstance(n, ast.Return)]
                if not rets or not all(r is not None and _is_sid_resolver(r, path_names, ctx, t, depth + 1) for r in rets):
                    ok = False
            return ok
    return False


def _mapped_cache_private(ctx: Ctx):
    """The dictionaries that path_to_dict rewrites in place belong to the lru caches of a *path* Resolver.  Idempotence
    only hides the rewrite from path_to_dict itself (which re-applies the mapping): any other function that reads the
    content of a resolve_* result of a path Resolver sees unmapped values on the first call and mapped ones afterwards.
    Holds when every other resolve_* call site in the library is on Resolver.get(<constant that is no path
    configuration>) (the sid resolver: another instance, other cache entries) or only tests the result for truth."""
    path_names = set(ctx.conf.path_configs)
    n = 0
    for f in ctx.p.iter_functions(kinds=("library", "config")):
        if f.qualname == _P2D:
            continue
        sites = [cs for cs in ctx.cg.sites.get(f.qualname, []) if isinstance(cs.node, ast.Call)
                 and isinstance(cs.node.func, ast.Attribute) and any(t.qualname in _RESOLVE for t in cs.targets)]
        if not sites:
            continue
        truth_only = set()
        for node in own_nodes(f.node):
            tests = []
            if isinstance(node, (ast.If, ast.While, ast.IfExp, ast.Assert)):
                tests.append(node.test)
            elif isinstance(node, ast.UnaryOp) and isinstance(node.op, ast.Not):
                tests.append(node.operand)
            elif isinstance(node, ast.Call) and isinstance(node.func, ast.Name) and node.func.id == "bool" and node.args:
                tests.append(node.args[0])
            for t in tests:
                truth_only.add(id(t))
        for cs in sites:
            n += 1
            if id(cs.node) in truth_only:
                continue
            recv = cs.node.func.value
            if isinstance(recv, ast.Name):
                origins = [n.value for n in own_nodes(f.node) if isinstance(n, ast.Assign)
                           and any(isinstance(t, ast.Name) and t.id == recv.id for t in n.targets)]
            else:
                origins = [recv]
            other = bool(origins) and all(_is_sid_resolver(c, path_names, ctx, f) for c in origins)
            if not other:
                return False, (f"{f.qualname} (line {cs.lineno}) reads `{norm(cs.node)}`: a result of a path Resolver's cache, which "
                               f"path_to_dict rewrites in place (unmapped values on the first call, mapped ones afterwards)")
    return True, f"{n} other resolve_* call sites are on the sid resolver"


@cond("sid_to_dict_pair")
def _sid_to_dict_pair(ctx: Ctx):
    from . import config

    r = config.rule_first(ctx)
    bad = [f for f in r.findings if "untyped pair" in f.key or "resolver dispatch" in f.key]
    if bad:
        return False, bad[0].message
    return True, "sid_to_dict returns (None, None) or (type, non-empty data)"


@cond("get_as_loop_returns")
def _get_as_loop_returns(ctx: Ctx):
    from . import sidops

    r = sidops.rule_nav(ctx)
    bad = [f for f in r.findings if f.key[0].endswith("get_as")]
    if bad:
        return False, bad[0].message
    return True, "get_as returns inside the loop at k == key, and key is known to be a field"


@cond("dict_to_sid_callers_guarded")
def _dict_to_sid_callers_guarded(ctx: Ctx):
    """every caller of sid_resolver.dict_to_sid passes data that a dominating test found non-empty (or a
    type that dict_to_type derived from it, which is empty for empty data)"""
    from ..cfg import cfg_of
    from ..dataflow import flow_of

    target = ctx.p.function("spil.sid.core.sid_resolver.dict_to_sid")
    n = 0
    for cs in ctx.cg.callers.get(target.qualname, []):
        f = cs.caller
        if f.module.kind != "library" or not isinstance(cs.node, ast.Call) or not cs.node.args:
            continue
        n += 1
        arg = cs.node.args[0]
        cfg = cfg_of(f.node)
        flow = flow_of(f.node)
        names = {norm(arg)}
        # names of values derived from the data by dict_to_type(...)
        for d in flow.all_defs:
            if d.kind == "assign" and isinstance(d.value, ast.Call) and (dotted(d.value.func) or "").endswith("dict_to_type") \
                    and d.value.args and norm(d.value.args[0]) == norm(arg):
                names.add(d.var)
        ok = False
        for t, lab in ctx.ef._dominating_tests(cfg, cs.node):
            if isinstance(t, ast.UnaryOp) and isinstance(t.op, ast.Not) and norm(t.operand) in names and lab == "false":
                ok = True
            if norm(t) in names and lab == "true":
                ok = True
        if not ok and f.qualname == "spil.sid.core.sid_factory.dict_to_sid":
            pass
        if not ok:
            return False, f"{f.qualname}: `{norm(cs.node)[:60]}` is not dominated by a non-empty test of its data"
    return n >= 3, f"{n} call sites, each behind a non-empty test"


@cond("sorted_search_called_nonempty")
def _sorted_search_called_nonempty(ctx: Ctx):
    from ..cfg import cfg_of
    from ..dataflow import flow_of

    f = ctx.p.function("spil.sid.read.finders.find_glob.FindByGlob.do_find")
    cfg = cfg_of(f.node)
    flow = flow_of(f.node)
    calls = [n for n in own_nodes(f.node) if isinstance(n, ast.Call) and isinstance(n.func, ast.Attribute) and n.func.attr == "sorted_search"]
    if not calls:
        return False, "do_find no longer delegates to sorted_search"
    for c in calls:
        ok = False
        for t, lab in ctx.ef._dominating_tests(cfg, c):
            if lab != "true" or not isinstance(t, ast.Name):
                continue
            ds = [d for d in flow.all_defs if d.var == t.id and d.kind == "assign"]
            if len(ds) == 1 and isinstance(ds[0].value, ast.Call) and dotted(ds[0].value.func) == "any":
                inner = ds[0].value.args[0]
                gens = getattr(inner, "generators", [])
                if gens and norm(gens[0].iter) == norm(c.args[0] if c.args else ast.Name(id="?")):
                    ok = True
        if not ok:
            return False, "sorted_search is not called under `any(... for ssid in search_sids)`"
    for other in ctx.cg.callers.get("spil.sid.read.finders.find_glob.FindByGlob.sorted_search", []):
        if other.caller is not f:
            return False, f"sorted_search is also called from {other.caller.qualname}"
    return True, "sorted_search is only called from do_find, under any(...) over the same list"


@cond("resolvers_registered")
def _resolvers_registered(ctx: Ctx):
    """'sid' is registered by the configuration loader at module level; every PathConfig registers its own name"""
    m = ctx.p.module("spil.conf.sid_conf_load")
    sid_reg = False
    for st in m.toplevel:
        if isinstance(st, (ast.FunctionDef, ast.ClassDef)):
            continue
        for n in ast.walk(st):
            if isinstance(n, ast.Call) and (dotted(n.func) or "").split(".")[-1] == "Resolver" and n.args \
                    and isinstance(n.args[0], ast.Constant) and n.args[0].value == "sid":
                sid_reg = True
    if not sid_reg:
        return False, "spil.conf.sid_conf_load no longer registers Resolver('sid', ...) at import"
    init = ctx.p.function("spil.sid.pathops.pathconfig.PathConfig.__init__")
    reg = any(isinstance(n, ast.Call) and (dotted(n.func) or "").split(".")[-1] == "Resolver" and n.args and norm(n.args[0]) == "self.name"
              for n in own_nodes(init.node))
    if not reg:
        return False, "PathConfig.__init__ no longer registers Resolver(self.name, ...)"
    # the readers ask for exactly these ids
    for q, want in (("spil.sid.core.sid_resolver.sid_to_dict", "'sid'"), ("spil.sid.core.sid_resolver.dict_to_sid", "'sid'"),
                    ("spil.sid.core.sid_resolver.dict_to_type", "'sid'"), ("spil.sid.core.sid_resolver.sid_to_dicts", "'sid'")):
        f = ctx.p.function(q)
        for n in own_nodes(f.node):
            if isinstance(n, ast.Call) and (dotted(n.func) or "").endswith("Resolver.get") and n.args and norm(n.args[0]) != want:
                return False, f"{f.short} asks for Resolver.get({norm(n.args[0])}), which nothing registers"
    for q in ("spil.sid.pathops.fs_resolver.path_to_dict", "spil.sid.pathops.fs_resolver.dict_to_path"):
        f = ctx.p.function(q)
        for n in own_nodes(f.node):
            if isinstance(n, ast.Call) and (dotted(n.func) or "").endswith("Resolver.get") and n.args and not norm(n.args[0]).endswith(".name"):
                return False, f"{f.short} asks for Resolver.get({norm(n.args[0])}), not for the PathConfig's own name"
    return True, "Resolver('sid', ..) at configuration load; Resolver(self.name, ..) in PathConfig.__init__; readers ask for these ids"


@cond("factory_resolves")
def _factory_resolves(ctx: Ctx):
    sid = ctx.p.cls("spil.sid.sid.Sid")
    fac = ctx.cg.factory_of(sid)
    if fac is None:
        return False, "Sid._factory does not name a function of the program"
    new = ctx.p.find_method(sid, "__new__")
    src = " ".join(norm(n) for n in own_nodes(new.node) if isinstance(n, ast.Assign))
    if "cls._factory" not in src:
        return False, "BaseSid.__new__ no longer reads cls._factory"
    return True, f"_factory -> {fac.qualname}"


@cond("path_resolve_guarded")
def _path_resolve_guarded(ctx: Ctx):
    ok, d = holds(ctx, "sid_resolver_no_dupcheck")
    if not ok:
        return ok, d
    f = ctx.p.function("spil.sid.pathops.fs_resolver.path_to_dict")
    n = 0
    for call in own_nodes(f.node):
        if isinstance(call, ast.Call) and isinstance(call.func, ast.Attribute) and call.func.attr in ("resolve_first", "resolve_one", "resolve_all"):
            n += 1
            if not ctx.ef.caught_locally(f, call, "ResolvaException"):
                return False, f"path_to_dict: `{norm(call)[:50]}` can raise ResolvaException (a path whose repeated fields disagree) and " \
                              f"nothing in path_to_dict catches it"
    if n == 0:
        return False, "path_to_dict no longer resolves through the path resolver"
    ok2, d2 = holds(ctx, "path_segments_unambiguous")
    if not ok2:
        return False, d2
    return True, f"{n} resolve call(s) of path_to_dict inside try/except ResolvaException; re-format of one dictionary cannot disagree"
