"""Accessor-shape rules of the Sid classes: navigation (C03), query / get_with updates (C04), query
routing (C02).  R-NAV, R-RET3, R-UPDATE, R-GETWITH, R-QUERYROUTE."""
from __future__ import annotations

import ast
from typing import Dict, List, Optional, Set, Tuple

from ..cfg import cfg_of
from ..context import Ctx
from ..dataflow import flow_of
from ..program import FunctionInfo, dotted, norm, own_nodes
from ..report import RuleResult
from ..shape import facts_at, holds_one_of, inline_locals, ntext


def _rets(f: FunctionInfo) -> List[ast.Return]:
    return [n for n in own_nodes(f.node) if isinstance(n, ast.Return)]


def _is_empty_sid(e: Optional[ast.AST]) -> bool:
    return isinstance(e, ast.Call) and dotted(e.func) == "Sid" and not e.args and not e.keywords


def _const_index_on_field_keys(e: ast.AST) -> Optional[int]:
    """list(self._fields.keys() [or ...])[i]  /  list(self._fields)[i]  -> i   (after local names were inlined)"""
    if not isinstance(e, ast.Subscript):
        return None
    try:
        i = ast.literal_eval(e.slice)
    except Exception:
        return None
    v = e.value
    if isinstance(v, ast.Call) and dotted(v.func) in ("list", "tuple") and len(v.args) == 1:
        a = v.args[0]
        if isinstance(a, ast.BoolOp):
            a = a.values[0]
        if norm(a) in ("self._fields.keys()", "self._fields"):
            return i if isinstance(i, int) else None
    return None


def _fields_loop(lp: ast.For):
    """(key variable, value variable or None, position variable or None, position start) for a loop over the Sid's own
    field dictionary in one of its spellings; None for any other loop"""
    it = lp.iter
    posvar, pstart = None, None
    tgt = lp.target
    if isinstance(it, ast.Call) and dotted(it.func) == "enumerate" and it.args and isinstance(tgt, ast.Tuple) and len(tgt.elts) == 2:
        pstart = 0
        if len(it.args) > 1 and isinstance(it.args[1], ast.Constant):
            pstart = it.args[1].value
        for k in it.keywords:
            if k.arg == "start" and isinstance(k.value, ast.Constant):
                pstart = k.value.value
        if not isinstance(tgt.elts[0], ast.Name):
            return None
        posvar = tgt.elts[0].id
        it, tgt = it.args[0], tgt.elts[1]
    txt = norm(it)
    if txt == "self._fields.items()" and isinstance(tgt, ast.Tuple) and len(tgt.elts) == 2 and all(isinstance(e, ast.Name) for e in tgt.elts):
        return tgt.elts[0].id, tgt.elts[1].id, posvar, pstart
    if txt in ("self._fields", "self._fields.keys()") and isinstance(tgt, ast.Name):
        return tgt.id, None, posvar, pstart
    return None


def rule_nav(ctx: Ctx) -> RuleResult:
    res = RuleResult("R-NAV")
    p = ctx.p
    # ---- parent ----------------------------------------------------------------------------------
    f = p.function("spil.sid.sid.TypedSid.parent")
    rets = _rets(f)
    main = [r for r in rets if isinstance(r.value, ast.Call) and isinstance(r.value.func, ast.Attribute) and r.value.func.attr == "get_as"
            and norm(r.value.func.value) == "self"]
    ok = len(main) == 1 and len(main[0].value.args) == 1
    if ok:
        arg = inline_locals(f, main[0].value.args[0], main[0])
        ok = _const_index_on_field_keys(arg) == -2
    empties = [r for r in rets if _is_empty_sid(r.value)]
    copies = [r for r in rets if isinstance(r.value, ast.Call) and norm(r.value) == "self.copy()"]
    if ok and empties and copies:
        res.ok("TypedSid.parent", "empty Sid when untyped; self.copy() for one field; otherwise get_as(second-to-last key)")
    else:
        res.violation(["spil.sid.sid.TypedSid.parent", "shape"], "TypedSid.parent is not `get_as(<second-to-last key of the fields>)` with the "
                                                                 "untyped and one-field fallbacks", f.relpath, f.node.lineno)
    # ---- get_as -----------------------------------------------------------------------------------------
    g = p.function("spil.sid.sid.TypedSid.get_as")
    gflow = flow_of(g.node)
    gcfg = cfg_of(g.node)
    key_p = g.params[1] if len(g.params) > 1 else "key"
    loops = [(n, sh) for n in own_nodes(g.node) if isinstance(n, ast.For) for sh in [_fields_loop(n)] if sh is not None]
    problems = []
    # necessary whatever the spelling: the answer is the empty Sid or a Sid rebuilt from fields, and it is empty only for an untyped
    # Sid or a key the Sid does not have
    for r_ in _rets(g):
        v_ = r_.value
        if v_ is None:
            problems.append("a bare return")
            continue
        if _is_empty_sid(v_):
            if not holds_one_of(ctx, g, r_, [("self._fields", False), (f"{key_p} in self._fields", False)]):
                problems.append(f"`{norm(r_)}` (the empty Sid) is not confined to 'no fields' / 'key not in the fields': it is also the answer for keys "
                                f"the Sid has")
            continue
        v2_ = inline_locals(g, v_, r_, depth=1) if isinstance(v_, ast.Name) else v_
        if not (isinstance(v2_, ast.Call) and dotted(v2_.func) == "Sid" and not v2_.args and len(v2_.keywords) == 1 and v2_.keywords[0].arg == "fields"):
            problems.append(f"`{norm(r_)[:70]}` is not the empty Sid and not Sid(fields=<prefix of the fields>): the answer is typed by something else "
                            f"than the field prefix")
    if not loops:
        # the prefix cut out by the position of the key among the keys
        import re as _re

        built_ = [r_ for r_ in _rets(g) if isinstance(r_.value, ast.Call) and dotted(r_.value.func) == "Sid" and r_.value.keywords]
        keys_ = r"list\(self\._fields(?:\.keys\(\))?\)"
        pos_ = rf"{keys_}\.index\({key_p}\) \+ 1"
        forms_ = [rf"\{{(\w+): self\._fields\[\1\] for \1 in {keys_}\[:{pos_}\]\}}",
                  rf"\{{(\w+): (\w+) for \(?\1, \2\)? in list\(self\._fields\.items\(\)\)\[:{pos_}\]\}}",
                  rf"dict\(list\(self\._fields\.items\(\)\)\[:{pos_}\]\)",
                  rf"dict\((?:itertools\.)?islice\(self\._fields\.items\(\), {pos_}\)\)"]
        if len(built_) != 1:
            problems.append("no single Sid(fields=...) result")
        else:
            txt_ = norm(inline_locals(g, built_[0].value.keywords[0].value, built_[0]))
            if not any(_re.fullmatch(f_, txt_) for f_ in forms_):
                problems.append(f"the result is not the prefix of the fields up to and including the key (`{txt_[:90]}`)")
    elif len(loops) != 1:
        problems.append("no single loop over self._fields.items()")
    else:
        lp, (kvar, vvar, posvar, pstart) = loops[0]
        stores = [n for n in ast.walk(lp) if isinstance(n, ast.Assign) and isinstance(n.targets[0], ast.Subscript)]
        rets_in = [n for n in ast.walk(lp) if isinstance(n, ast.Return)]
        if len(rets_in) != 1:
            problems.append("loop body is not one store and one return")
        else:
            rt = rets_in[0]
            tests = ctx.ef._dominating_tests(gcfg, rt)
            if not any(isinstance(t, ast.Compare) and isinstance(t.ops[0], ast.Eq) and {norm(t.left), norm(t.comparators[0])} == {
                    kvar, key_p} and lab == "true" for t, lab in tests):
                problems.append(f"the return is not under `{kvar} == {key_p}`")
            v = rt.value
            built = isinstance(v, ast.Call) and dotted(v.func) == "Sid" and not v.args and len(v.keywords) == 1 and v.keywords[0].arg == "fields"
            if not built:
                problems.append(f"the result is not Sid(fields=<the accumulated prefix>) (`{norm(rt)}`)")
            elif len(stores) == 1 and vvar is not None:
                # form 1: the pairs are copied one by one into a fresh dictionary
                st = stores[0]
                tgt = st.targets[0]
                if not (norm(tgt.slice) == kvar and norm(st.value) == vvar and isinstance(tgt.value, ast.Name)):
                    problems.append(f"`{norm(st)}` does not copy the current (key, value) pair")
                else:
                    acc = tgt.value.id
                    sn, rn = gcfg.node_of(st), gcfg.node_of(rt)
                    if not gcfg.dominates(sn.id, rn.id):
                        problems.append("the pair is stored after the return test: the requested key itself would be missing")
                    if norm(v.keywords[0].value) != acc:
                        problems.append(f"the result is not Sid(fields=<the accumulated prefix>) (`{norm(rt)}`)")
                    ds = [d for d in gflow.all_defs if d.var == acc and d.kind == "assign"]
                    if not (len(ds) == 1 and isinstance(ds[0].value, ast.Dict) and not ds[0].value.keys):
                        problems.append("the accumulator is not a fresh empty dict")
            elif not stores and posvar is not None:
                # form 2: the prefix is cut out of the items by position (the position counts the requested key in)
                want = posvar if pstart == 1 else (f"{posvar} + 1" if pstart == 0 else None)
                txt = norm(inline_locals(g, v.keywords[0].value, rt))
                if want is None or txt not in (f"dict(islice(self._fields.items(), {want}))", f"dict(itertools.islice(self._fields.items(), {want}))",
                                               f"dict(list(self._fields.items())[:{want}])"):
                    problems.append(f"the result is not the prefix of the fields up to and including the key (`{txt}`)")
            else:
                problems.append("loop body is not one store and one return")
    guards = [r for r in _rets(g) if _is_empty_sid(r.value)]
    if not guards:
        problems.append("the untyped / unknown-key fallbacks (empty Sid) are missing")
    else:
        # a key the Sid does not have is answered by the empty Sid: some empty return is taken whenever `key in self._fields` fails
        from ..shape import alternatives as _alts2

        want_ = (f"{key_p} in self._fields", False)
        covered = False
        for r_ in guards:
            if want_ in facts_at(ctx, g, r_):
                covered = True
            for t_, lab_ in ctx.ef._dominating_tests(gcfg, r_):
                if any(set(a_) == {want_} for a_ in _alts2(t_, lab_ == "true")):
                    covered = True
        if not covered:
            problems.append(f"no empty-Sid answer for a key the Sid does not have (`{key_p} not in self._fields`): the walk over the fields finds "
                            f"nothing and ends in an error")
    if problems:
        res.violation(["spil.sid.sid.TypedSid.get_as", "shape"], "TypedSid.get_as: " + "; ".join(problems), g.relpath, g.node.lineno)
    else:
        res.ok("TypedSid.get_as", "copies the pairs up to and including the key into a fresh dict and rebuilds through Sid(fields=...)")
    # ---- keytype / basetype / get / __truediv__ ---------------------------------------------------------
    kt = p.function("spil.sid.sid.TypedSid.keytype")
    main = [r for r in _rets(kt) if r.value is not None and _const_index_on_field_keys(inline_locals(kt, r.value, r)) == -1]
    if main:
        res.ok("TypedSid.keytype", "last key of the fields")
    else:
        res.violation(["spil.sid.sid.TypedSid.keytype", "shape"], "keytype is not the last key of the field dictionary", kt.relpath, kt.node.lineno)
    bt = p.function("spil.sid.sid.TypedSid.basetype")
    found = False
    for n in own_nodes(bt.node):
        if isinstance(n, ast.Subscript) and isinstance(n.value, ast.Call) and isinstance(n.value.func, ast.Attribute) \
                and n.value.func.attr == "split" and norm(n.value.func.value) == "self._type" and norm(n.slice) == "0" \
                and n.value.args and norm(n.value.args[0]).endswith("sidtype_keytype_sep"):
            found = True
    if found:
        res.ok("TypedSid.basetype", "self._type.split(<separator>)[0]")
    else:
        res.violation(["spil.sid.sid.TypedSid.basetype", "shape"], "basetype is not the part of the type before the separator", bt.relpath,
                      bt.node.lineno)
    gt = p.function("spil.sid.sid.TypedSid.get")
    if any(r.value is not None and norm(r.value) == f"self._fields.get({gt.params[1]})" for r in _rets(gt)):
        res.ok("TypedSid.get", "self._fields.get(key)")
    else:
        res.violation(["spil.sid.sid.TypedSid.get", "shape"], "get(key) is not a lookup in the fields", gt.relpath, gt.node.lineno)
    td = p.function("spil.sid.sid.StringSid.__truediv__")
    other = td.params[1]
    good = False
    for r in _rets(td):
        v = r.value
        if isinstance(v, ast.Call) and dotted(v.func) == "Sid" and len(v.args) == 1 and not v.keywords:
            if norm(v.args[0]) in (f"str(self) + conf.sip + str({other})", f"self._string + conf.sip + str({other})",
                                   f"self.string + conf.sip + str({other})"):
                good = True
    if good:
        res.ok("StringSid.__truediv__", "Sid(str(self) + conf.sip + str(other)): the joined string is re-resolved")
    else:
        res.violation(["spil.sid.sid.StringSid.__truediv__", "shape"], "`/` does not re-resolve str(self) + separator + str(other)",
                      td.relpath, td.node.lineno)
    return res


# ------------------------------------------------------------------------------------------------
def rule_update(ctx: Ctx) -> RuleResult:
    res = RuleResult("R-UPDATE")
    f = ctx.p.function("spil.sid.core.query_helper.update")
    flow = flow_of(f.node)
    data_p, query_p = f.params[0], f.params[1]
    stores = [n for n in own_nodes(f.node) if isinstance(n, ast.Assign) and isinstance(n.targets[0], ast.Subscript)]
    res.floor(len(stores), 1, "stores in query_helper.update")
    problems = []
    kinds = set()  # the ways a store is reached, over all stores: by an existing key, by a value that is not optional
    for st in stores:
        tgt = st.targets[0]
        at = flow.node_of(st)
        al = flow.aliases(tgt.value, at.id)
        if any(a.kind == "param" for a in al):
            problems.append(f"`{norm(st)}` writes into the caller's dictionary (no copy before the first store)")
        # the store happens under (key in data) or (not optional): some dominating test must mention both the membership
        # of the key in the working dictionary and a flag that derives from a startswith(option_prefix) test
        cond_ok = False
        for t, lab in ctx.ef._dominating_tests(cfg_of(f.node), st):
            if lab != "true":
                continue
            has_in = any(isinstance(x, ast.Compare) and isinstance(x.ops[0], ast.In) and norm(x.left) == norm(tgt.slice)
                         and norm(x.comparators[0]).split(".keys")[0] == norm(tgt.value) for x in ast.walk(t))
            flag_ok = False
            for x in ast.walk(t):
                if isinstance(x, ast.UnaryOp) and isinstance(x.op, ast.Not):
                    deps = flow.depends(x.operand, at.id)
                    if any(a.kind == "call" and a.text.endswith(".startswith") for a in deps):
                        flag_ok = True
                    # or control dependence: the flag is set to constants under a startswith(...) test
                    if isinstance(x.operand, ast.Name):
                        for d in flow.defs_reaching(at.id, x.operand.id):
                            dn = next((n for n in own_nodes(f.node) if isinstance(n, ast.Assign) and n.value is d.value), None)
                            if dn is not None and any(any(isinstance(c, ast.Call) and isinstance(c.func, ast.Attribute)
                                                          and c.func.attr == "startswith" for c in ast.walk(tt))
                                                      for tt, _ in ctx.ef._dominating_tests(cfg_of(f.node), dn)):
                                flag_ok = True
            if has_in and flag_ok and isinstance(t, ast.BoolOp) and isinstance(t.op, ast.Or):
                cond_ok = True
                kinds.update(("in-data", "not-optional"))
        if not cond_ok:
            # the same decision in another spelling (De Morgan guard with `continue`, nested ifs ...): in every alternative under
            # which the store is reached, the key is in the data or the optional flag is off
            from ..shape import alternatives

            keytxt, dtxt = norm(tgt.slice), norm(tgt.value)
            for t, lab in ctx.ef._dominating_tests(cfg_of(f.node), st):
                alts = alternatives(t, lab == "true")
                flags = set()
                good_all = bool(alts)
                for alt in alts:
                    in_data = (f"{keytxt} in {dtxt}", True) in alt
                    off = [txt for txt, tr in alt if not tr and txt.isidentifier()]
                    flag_off = False
                    for nm in off:
                        for d in flow.all_defs:
                            if d.var != nm or d.kind != "assign":
                                continue
                            dn = next((n for n in own_nodes(f.node) if isinstance(n, ast.Assign) and n.value is d.value), None)
                            via_value = d.value is not None and any(a.kind == "call" and a.text.endswith(".startswith") for a in flow.depends(d.value, d.node))
                            via_ctrl = dn is not None and any(any(isinstance(c, ast.Call) and isinstance(c.func, ast.Attribute) and c.func.attr == "startswith"
                                                                  for c in ast.walk(tt)) for tt, _ in ctx.ef._dominating_tests(cfg_of(f.node), dn))
                            if via_value or via_ctrl:
                                flag_off = True
                    if not (in_data or flag_off):
                        good_all = False
                    kinds.add("in-data" if in_data else "not-optional" if flag_off else "other")
                if good_all and any((f"{keytxt} in {dtxt}", True) in alt for alt in alts):
                    cond_ok = True
        if not cond_ok:
            problems.append(f"`{norm(st)}` is not under `key in data or not <optional>` with the optional flag taken from "
                            f"startswith(option_prefix)")
    if not problems and not {"in-data", "not-optional"} <= kinds:
        problems.append("a value is not stored in every case the rule names: an optional value for an existing key, and a plain value for any key "
                        f"(cases found: {sorted(kinds)})")
    strip = any(isinstance(n, ast.Call) and isinstance(n.func, ast.Attribute) and n.func.attr in ("replace", "removeprefix", "lstrip")
                and n.args and "option_prefix" in norm(n.args[0]) for n in own_nodes(f.node)) or any(
        isinstance(n, ast.Subscript) and isinstance(n.slice, ast.Slice) and "option_prefix" in norm(n.slice) for n in own_nodes(f.node))
    if not strip:
        problems.append("the optional prefix is not removed from the value")
    # the prefix is removed only from values that carry it: every stripping expression is under a startswith test
    for n in own_nodes(f.node):
        is_strip = (isinstance(n, ast.Call) and isinstance(n.func, ast.Attribute) and n.func.attr in ("replace", "lstrip")
                    and n.args and "option_prefix" in norm(n.args[0]))
        if not is_strip:
            continue
        guarded = any(lab == "true" and any(isinstance(c, ast.Call) and isinstance(c.func, ast.Attribute) and c.func.attr == "startswith"
                                            for c in ast.walk(t))
                      for t, lab in ctx.ef._dominating_tests(cfg_of(f.node), n))
        if not guarded:
            # or the flag that guards it derives from startswith
            for t, lab in ctx.ef._dominating_tests(cfg_of(f.node), n):
                at = flow.node_of(n)
                if lab == "true" and any(a.kind == "call" and a.text.endswith(".startswith") for a in flow.depends(t, at.id if at else None)):
                    guarded = True
        if not guarded:
            # the sense of the tests: `<value>.startswith(<prefix>)` is known to hold here (elif chains, negated guards)
            guarded = any(tr_ and ".startswith(" in t_ for t_, tr_ in facts_at(ctx, f, n))
        if not guarded:
            problems.append(f"`{norm(n)}` removes the prefix character from every value, not only from those that start with it "
                            f"(a plain value containing it is altered)")
    rets = _rets(f)
    if not all(r.value is not None and not any(a.kind == "param" and a.text == data_p for a in flow.aliases(r.value)) for r in rets):
        problems.append("returns the caller's dictionary")
    if problems:
        res.violation(["spil.sid.core.query_helper.update", "overlay"], "query_helper.update: " + "; ".join(problems), f.relpath, f.node.lineno)
    else:
        res.ok("query_helper.update", "works on a copy; a key is written only if it exists or the value is not '~'-optional; the prefix "
                                      "is stripped")
    return res


def rule_ret3(ctx: Ctx) -> RuleResult:
    """apply_query returns either the all-new triple (after type re-detection) or the untouched old one
    with the query text kept in the string"""
    res = RuleResult("R-RET3")
    f = ctx.p.function("spil.sid.core.query_helper.apply_query")
    flow = flow_of(f.node)
    cfg = cfg_of(f.node)
    P = {"string": f.params[0], "query": f.params[1], "type": f.params[2], "fields": f.params[3]}
    rets = _rets(f)
    res.floor(len(rets), 3, "return statements of apply_query")
    d2t = [n for n in own_nodes(f.node) if isinstance(n, ast.Call) and (dotted(n.func) or "").endswith("dict_to_type")]
    upd = [n for n in own_nodes(f.node) if isinstance(n, ast.Call) and (dotted(n.func) or "") == "update"]
    if len(d2t) != 1 or len(upd) != 1:
        res.violation([f.qualname, "type re-detection"], "apply_query: expected one update(...) and one dict_to_type(...) call", f.relpath, f.node.lineno)
        return res
    d2t_call = d2t[0]
    all_kw = any(kw.arg == "all" and isinstance(kw.value, ast.Constant) and kw.value.value is True for kw in d2t_call.keywords) or (
        len(d2t_call.args) > 1 and isinstance(d2t_call.args[1], ast.Constant) and d2t_call.args[1].value is True)
    if not all_kw:
        res.violation([f.qualname, "dict_to_type(all=True)"], "apply_query no longer asks for all matching types: an ambiguous overlay is "
                                                              "resolved by guessing", f.relpath, d2t_call.lineno)
    if not (norm(upd[0].args[0]) == P["fields"] and norm(upd[0].args[1]) == P["query"]):
        res.violation([f.qualname, "overlay"], f"apply_query: the overlay is not update({P['fields']}, {P['query']})", f.relpath, upd[0].lineno)
    d2t_node = cfg.node_of(d2t_call)
    new_types_var = next((d.var for d in flow.all_defs if d.value is d2t_call), None)
    new_data_var = next((d.var for d in flow.all_defs if d.value is upd[0]), None)
    if norm(d2t_call.args[0]) != new_data_var:
        res.violation([f.qualname, "types of the overlay"], "apply_query does not ask for the types of the overlaid fields", f.relpath, d2t_call.lineno)
    type_alias = [d for d in flow.all_defs if d.kind == "assign" and isinstance(d.value, ast.Name) and d.value.id == P["type"]]
    NT = new_types_var
    for r in rets:
        v = r.value
        site = f"apply_query: `{norm(r)[:70]}`"
        if not (isinstance(v, ast.Tuple) and len(v.elts) == 3):
            res.violation([f.qualname, norm(r), "shape"], f"{site} is not a (string, type, fields) triple", f.relpath, r.lineno)
            continue
        S, Tt, F = v.elts
        at = flow.node_of(r)
        f_alias = flow.aliases(F, at.id)
        f_old = any(a.kind == "param" and a.text == P["fields"] for a in f_alias)
        f_new = isinstance(F, ast.Name) and F.id == new_data_var
        t_defs = flow.defs_reaching(at.id, Tt.id) if isinstance(Tt, ast.Name) else []
        t_old_only = isinstance(Tt, ast.Name) and (Tt.id == P["type"] or (t_defs and all(d in type_alias for d in t_defs)))
        s_deps = flow.depends(S, at.id)
        # follow same-module helpers such as _with_query(string, query)
        s_params = {a.text for a in s_deps if a.kind == "param"}
        s_has_query = P["query"] in s_params
        s_from_format = any(a.kind == "call" and a.text.endswith("dict_to_sid") for a in s_deps)
        facts = facts_at(ctx, f, r)
        if f_old and not f_new:
            before_overlay = not cfg.path_exists(cfg.node_of(upd[0]).id, at.id)
            if before_overlay:
                res.ok(site, "no query: the input triple is returned unchanged", nontrivial=False)
                continue
            if not t_old_only:
                res.violation([f.qualname, norm(r), "mixed triple"], f"{site}: a refused query returns the old fields with a re-assigned type",
                              f.relpath, r.lineno)
            elif not s_has_query or s_from_format:
                res.violation([f.qualname, norm(r), "query text dropped"], f"{site}: a refused query must stay visible in the string", f.relpath, r.lineno)
            else:
                res.ok(site, "refusal: old type, old fields, string carries the query text")
        elif f_new:
            if not s_from_format:
                res.violation([f.qualname, norm(r), "string not re-formatted"], f"{site}: the accepted overlay is not rendered through its "
                                                                               f"type's template", f.relpath, r.lineno)
                continue
            if d2t_node is None or not cfg.dominates(d2t_node.id, at.id):
                res.violation([f.qualname, norm(r), "no type re-detection"],
                              f"{site}: the overlaid fields are accepted on a path that never asked dict_to_type(all=True) which types "
                              f"they fit", f.relpath, r.lineno)
                continue
            if (NT, True) not in facts:
                res.violation([f.qualname, norm(r), "accepts without a type"], f"{site}: reachable although no type fits the overlay", f.relpath, r.lineno)
                continue
            fmt = [a.node for a in s_deps if a.kind == "call" and a.text.endswith("dict_to_sid")]
            if fmt and isinstance(fmt[0], ast.Call) and len(fmt[0].args) >= 2 and norm(fmt[0].args[0]) == new_data_var \
                    and norm(fmt[0].args[1]) == norm(Tt):
                res.ok(site, "acceptance: string = dict_to_sid(new fields, type), same type returned, new fields returned")
            else:
                res.violation([f.qualname, norm(r), "string/type mismatch"], f"{site}: the string is not formatted from the returned fields and type",
                              f.relpath, r.lineno)
        else:
            res.violation([f.qualname, norm(r), "unknown fields"], f"{site}: returns fields that are neither the input nor the overlay", f.relpath, r.lineno)
    # decision table: which type is taken
    assigns = [n for n in own_nodes(f.node) if isinstance(n, ast.Assign) and isinstance(n.targets[0], ast.Name) and isinstance(n.value, ast.Subscript)
               and norm(n.value.value) == NT]
    # the type an accepted overlay is rendered with is one of the fitting types: on every path from the re-detection to an
    # accepting return it was either taken from them or found among them
    if assigns and d2t_node is not None:
        tvar0 = norm(assigns[0].targets[0])
        # the names the old type goes by: the parameter and the locals it is copied to
        old_type_names = {tvar0, P["type"]} | {d.var for d in type_alias}
        through = [cfg.node_of(a).id for a in assigns if cfg.node_of(a) is not None]
        from ..shape import _atomise, _norm_fact

        def disjuncts(test, truth):
            """the outcome `test is truth` as a list of alternatives, each a list of (text, truth) atoms"""
            if isinstance(test, ast.UnaryOp) and isinstance(test.op, ast.Not):
                return disjuncts(test.operand, not truth)
            if isinstance(test, ast.BoolOp):
                conj = (isinstance(test.op, ast.And) and truth) or (isinstance(test.op, ast.Or) and not truth)
                parts = [disjuncts(v, truth) for v in test.values]
                if conj:
                    out = [[]]
                    for ps in parts:
                        out = [a + b for a in out for b in ps]
                    return out
                return [alt for ps in parts for alt in ps]
            return [[(_norm_fact(e), t) for e, t in _atomise(test, truth)]]

        validated_edges = []
        for t in cfg.nodes:
            if t.kind != "test" or not isinstance(t.ast, ast.If):
                continue
            known = facts_at(ctx, f, t.ast.test)
            for label in ("true", "false"):
                alts = disjuncts(t.ast.test, label == "true")
                ok_all = bool(alts)
                for alt in alts:
                    validating = any((f"{nm_} in {NT}", True) in alt for nm_ in old_type_names)
                    infeasible = any(txt in (f"len({NT}) > 1", f"len({NT}) >= 2") and not tr for txt, tr in alt) and (NT, True) in known \
                        and (f"len({NT}) == 1", False) in known
                    contradiction = any((txt, not tr) in known for txt, tr in alt)
                    if not (validating or infeasible or contradiction):
                        ok_all = False
                if ok_all:
                    validated_edges.append((t.id, label))
        for r in rets:
            v = r.value
            if not (isinstance(v, ast.Tuple) and len(v.elts) == 3 and isinstance(v.elts[2], ast.Name) and v.elts[2].id == new_data_var):
                continue
            rn = cfg.node_of(r)
            if rn is not None and cfg.path_exists(d2t_node.id, rn.id, avoid=set(through), exceptional=False, skip_edges=validated_edges):
                res.violation([f.qualname, norm(r), "type not among the fitting ones"],
                              f"apply_query: `{norm(r)[:60]}` can be reached with the old type although it was neither found among the types "
                              f"that fit the overlay nor replaced by one of them: the overlay is rendered with a template it does not fit",
                              f.relpath, r.lineno)
    if not assigns:
        res.violation([f.qualname, "no new type taken"], "apply_query never adopts a re-detected type", f.relpath, f.node.lineno)
    for a in assigns:
        facts = facts_at(ctx, f, a)
        tvar = norm(a.targets[0])
        one = (f"len({NT}) == 1", True) in facts
        many = (f"len({NT}) > 1", True) in facts or ((f"len({NT}) == 1", False) in facts and (NT, True) in facts_at(ctx, f, a))
        if norm(a.value.slice) != "0":
            res.violation([f.qualname, norm(a), "not the first type"], f"apply_query: `{norm(a)}` does not take the first fitting type", f.relpath, a.lineno)
        elif one:
            res.ok(f"apply_query: `{norm(a)}` under exactly one fitting type", "the single new type is taken")
        elif many:
            kept = any((f"{nm_} in {NT}", False) in facts for nm_ in {tvar, P["type"]} | {d.var for d in type_alias})
            search_nodes = [(e, truth) for e, truth in _fact_nodes(ctx, f, a) if truth and any(
                isinstance(x, ast.Attribute) and x.attr == "search_symbols" for x in ast.walk(e))]
            # the search test asks whether a symbol IS in the text
            inverted = any(isinstance(c_, ast.Compare) and isinstance(c_.ops[0], ast.NotIn) and any(
                isinstance(x, ast.Attribute) and x.attr == "search_symbols" for x in ast.walk(e_)) for e_, _ in search_nodes for c_ in ast.walk(e_))
            if inverted:
                res.violation([f.qualname, norm(a), "search test inverted"], "apply_query: the first fitting type is taken when NO search symbol is in "
                                                                             "string?query: a concrete Sid gets a guessed type, a search is refused",
                              f.relpath, a.lineno)
            elif not kept or not search_nodes:
                res.violation([f.qualname, norm(a), "guess"], "apply_query: with several fitting types the first one is taken although the old "
                                                              "type is among them or the Sid is not a search", f.relpath, a.lineno)
            else:
                ps = _params_behind(ctx, f, search_nodes[0][0], cfg.node_of(a).id)
                if {P["string"], P["query"]} <= ps:
                    res.ok(f"apply_query: `{norm(a)}` under several types", "only when the old type is not among them and string+query is a search")
                else:
                    res.violation([f.qualname, norm(a), "search test incomplete"],
                                  f"apply_query: the search test looks at {sorted(ps)} only; a search symbol given in the query (or in the "
                                  f"string) is not seen and the query is refused", f.relpath, a.lineno)
        else:
            # the decision spelled with disjunctions (`if len == 1 or <search>:` after `if len > 1 and type in types:`): every way
            # of reaching the assignment is 'exactly one fitting type' or 'old type not among them, and a search'
            from ..shape import alternatives as _alts

            combos = [[]]
            for t_, lab_ in ctx.ef._dominating_tests(cfg, a):
                combos = [c_ + alt_ for c_ in combos for alt_ in _alts(t_, lab_ == "true")][:128]
            names_ = {tvar, P["type"]} | {d.var for d in type_alias}
            bad_alt = None
            tests_ = [t_ for t_, _ in ctx.ef._dominating_tests(cfg, a)]
            s_nodes = [x for t_ in tests_ for x in ast.walk(t_) if isinstance(x, ast.Call) and dotted(x.func) == "any" and any(
                isinstance(y, ast.Attribute) and y.attr == "search_symbols" for y in ast.walk(x))]
            for c_ in combos:
                alt_ = set(c_) | set(facts)
                if any((txt, not tr) in alt_ for txt, tr in alt_):
                    continue  # contradictory: not a way of getting here
                one_ = (f"len({NT}) == 1", True) in alt_ or ((f"len({NT}) > 1", False) in alt_ and (NT, True) in alt_)
                kept_ = any((f"{nm_} in {NT}", False) in alt_ for nm_ in names_)
                search_ = any(tr and "search_symbols" in txt and " not in " not in txt for txt, tr in alt_)
                if not (one_ or (kept_ and search_)):
                    bad_alt = c_
                    break
            ps = set().union(*[_params_behind(ctx, f, x, cfg.node_of(a).id) for x in s_nodes]) if s_nodes else set()
            if len(combos) > 1 and bad_alt is None and s_nodes and {P["string"], P["query"]} <= ps:
                res.ok(f"apply_query: `{norm(a)}` (decision with disjunctions)", "every alternative: one fitting type, or the old type is not among "
                                                                                 "several and string+query is a search")
            elif len(combos) > 1 and bad_alt is None and s_nodes:
                res.violation([f.qualname, norm(a), "search test incomplete"],
                              f"apply_query: the search test looks at {sorted(ps)} only; a search symbol given in the query (or in the "
                              f"string) is not seen and the query is refused", f.relpath, a.lineno)
            else:
                res.violation([f.qualname, norm(a), "unguarded"], f"apply_query: `{norm(a)}` is not under a len(new_types) decision"
                              + (f" (reachable with {[t for t, tr in bad_alt if tr][:3]} alone)" if bad_alt else ""), f.relpath, a.lineno)
    return res


def _fact_nodes(ctx: Ctx, f: FunctionInfo, node: ast.AST):
    from ..shape import fact_nodes_at

    return fact_nodes_at(ctx, f, node)


def _params_behind(ctx: Ctx, f: FunctionInfo, expr: ast.AST, at: int) -> set:
    """parameters of f an expression depends on, looking through calls to private same-module helpers"""
    flow = flow_of(f.node)
    out = {a.text for a in flow.depends(expr, at) if a.kind == "param"}
    return out


def rule_getwith(ctx: Ctx) -> RuleResult:
    """Necessary conditions of C04's get_with clause, tolerant of how the overlay is spelled:
    works on a copy of the fields; the key/value pair is merged into the overlay before the overlay is read;
    None values are singled out; the result is Sid(fields=<that copy>), Sid('<uri>?<query>') or the empty Sid."""
    res = RuleResult("R-GETWITH")
    f = ctx.p.function("spil.sid.sid.TypedSid.get_with")
    flow = flow_of(f.node)
    cfg = cfg_of(f.node)
    a = f.node.args
    kw = a.kwarg.arg if a.kwarg else None
    if kw is None:
        res.violation([f.qualname, "signature"], "get_with lost **kwargs", f.relpath, f.node.lineno)
        return res
    problems = []
    # the Sid that is returned is built from a dictionary derived from a copy of the fields and from the overlay
    built = [n for n in own_nodes(f.node) if isinstance(n, ast.Call) and dotted(n.func) == "Sid" and any(k.arg == "fields" for k in n.keywords)]
    if len(built) != 1:
        problems.append("the result is not built with exactly one Sid(fields=...)")
    else:
        b = built[0]
        arg = next(k.value for k in b.keywords if k.arg == "fields")
        bn = flow.node_of(b)
        deps = flow.depends(arg, bn.id)
        if not any(x.kind == "attr" and x.text == "self._fields" for x in deps):
            problems.append("the rebuilt Sid does not start from the Sid's own fields")
        # the overlay reaches the dictionary either by data flow or by an in-place update of it
        name = arg.id if isinstance(arg, ast.Name) else None
        upd = [n for n in own_nodes(f.node) if isinstance(n, ast.Call) and isinstance(n.func, ast.Attribute) and n.func.attr == "update"
               and norm(n.func.value) == name]
        overlay_in = any(x.kind == "param" and x.text == kw for x in deps) or any(
            any(x.kind == "param" and x.text == kw for x in flow.depends(u.args[0], flow.node_of(u).id)) for u in upd if u.args)
        if not overlay_in:
            problems.append("the keyword overlay never reaches the rebuilt fields")
        for u in upd:
            if not cfg.path_exists(cfg.node_of(u).id, bn.id, exceptional=False):
                problems.append("the Sid is built before the overlay is applied")
        if any(x.kind == "attr" and x.text == "self._fields" for x in flow.aliases(arg, bn.id)):
            problems.append("the rebuilt Sid is given the Sid's own dictionary, not a copy")
    # key / value merged into the overlay before any other use of the overlay
    fold = [n for n in own_nodes(f.node) if isinstance(n, ast.Assign) and isinstance(n.targets[0], ast.Subscript)
            and norm(n.targets[0].value) == kw and norm(n.targets[0].slice) == "key" and norm(n.value) == "value"]
    merged_other = [n for n in own_nodes(f.node) if isinstance(n, ast.Assign) and isinstance(n.value, ast.Dict) and any(
        k is None and norm(v) == kw for k, v in zip(n.value.keys, n.value.values)) and any(
        k is not None and norm(k) == "key" and norm(v) == "value" for k, v in zip(n.value.keys, n.value.values))]
    if len(fold) == 1:
        sn = cfg.node_of(fold[0])
        for n in cfg.nodes:
            if n.id == sn.id:
                continue
            reads = any(isinstance(x, ast.Name) and x.id == kw and isinstance(x.ctx, ast.Load) for e in n.exprs() for x in ast.walk(e))
            if reads and cfg.path_exists(n.id, sn.id, exceptional=False):
                problems.append("the key/value pair is merged into the overlay after the overlay was already read: "
                                "get_with(key=k, value=None) does not remove k")
                break
    elif not merged_other:
        problems.append("`key=` / `value=` are not merged into the keyword overlay")
    # None is singled out
    none_tests = [n for n in own_nodes(f.node) if isinstance(n, ast.Compare) and isinstance(n.ops[0], (ast.Is, ast.IsNot))
                  and isinstance(n.comparators[0], ast.Constant) and n.comparators[0].value is None]
    if not none_tests:
        problems.append("a None value is not treated as 'remove the key'")
    elif len(built) == 1 and isinstance(next(k.value for k in built[0].keywords if k.arg == "fields"), ast.Name):
        # ... and for real: under `<value> is None` the key leaves the copy, and the None never reaches it through the overlay
        name_ = next(k.value for k in built[0].keywords if k.arg == "fields").id

        def under_none(node) -> bool:
            return any(truth and t.endswith(" is None") for t, truth in facts_at(ctx, f, node))

        def not_none(node) -> bool:
            return any((not truth) and t.endswith(" is None") for t, truth in facts_at(ctx, f, node))

        removes = [n for n in own_nodes(f.node) if (isinstance(n, ast.Call) and isinstance(n.func, ast.Attribute) and n.func.attr == "pop"
                                                    and norm(n.func.value) == name_) or (isinstance(n, ast.Delete) and any(
            isinstance(t, ast.Subscript) and norm(t.value) == name_ for t in n.targets))]
        comp_removes = [n for n in own_nodes(f.node) if isinstance(n, (ast.ListComp, ast.SetComp, ast.GeneratorExp, ast.DictComp)) and any(
            isinstance(c_, ast.Compare) and isinstance(c_.ops[0], ast.Is) and isinstance(c_.comparators[0], ast.Constant) and c_.comparators[0].value is None
            for g_ in n.generators for i_ in g_.ifs for c_ in ast.walk(i_))]
        if not any(under_none(n) for n in removes) and not (removes and comp_removes):
            problems.append("a None value does not remove the key from the copied fields")
        def only_none(node) -> bool:
            """under `<value> is None` and under nothing else that was not already known where that test is made"""
            fs = facts_at(ctx, f, node)
            for stt in own_nodes(f.node):
                if isinstance(stt, ast.If) and any(c_ in none_tests for c_ in ast.walk(stt.test)):
                    base = facts_at(ctx, f, stt)
                    extra = {(t, tr) for t, tr in fs if (t, tr) not in base and not t.endswith(" is None")}
                    if any(tr and t.endswith(" is None") for t, tr in fs) and not extra:
                        return True
            return False

        kw_pops = [n for n in own_nodes(f.node) if isinstance(n, ast.Call) and isinstance(n.func, ast.Attribute) and n.func.attr == "pop"
                   and norm(n.func.value) == kw and under_none(n)]
        if kw_pops and not any(only_none(n) for n in kw_pops):
            problems.append("a None value stays in the overlay under some further condition and is then written into the rebuilt fields")
        filtered = [n for n in own_nodes(f.node) if isinstance(n, (ast.DictComp, ast.GeneratorExp, ast.ListComp)) and any(
            isinstance(c_, ast.Compare) and isinstance(c_.ops[0], ast.IsNot) and isinstance(c_.comparators[0], ast.Constant) and c_.comparators[0].value is None
            for g_ in n.generators for i_ in g_.ifs for c_ in ast.walk(i_))]
        stores_ok = [n for n in own_nodes(f.node) if isinstance(n, ast.Assign) and isinstance(n.targets[0], ast.Subscript)
                     and norm(n.targets[0].value) == name_ and not_none(n)]
        if not (kw_pops or filtered or stores_ok):
            problems.append("a None value is written into the rebuilt fields (it is not taken out of the overlay)")
    # query form
    qret = []
    for r in _rets(f):
        v = r.value
        if isinstance(v, ast.Call) and dotted(v.func) == "Sid" and len(v.args) == 1 and not v.keywords:
            a0 = v.args[0]
            txt = norm(a0)
            if txt.startswith("'{}?{}'.format(self.uri, query") or txt in ("f'{self.uri}?{query}'", "self.uri + '?' + query"):
                qret.append(r)
    if not qret:
        problems.append("get_with(query=...) is not Sid('<uri>?<query>')")
    else:
        if not all(("query", True) in facts_at(ctx, f, r) for r in qret):
            problems.append("the query form is not under `if query`")
    def _is_rebuilt(v, r) -> bool:
        if isinstance(v, ast.BoolOp):
            return all(_is_rebuilt(x, r) for x in v.values)
        if isinstance(v, ast.IfExp):
            return _is_rebuilt(v.body, r) and _is_rebuilt(v.orelse, r)
        if isinstance(v, ast.Name):
            at = flow.node_of(r)
            ds = flow.defs_reaching(at.id, v.id)
            return bool(ds) and all(d.kind == "assign" and d.value is not None and _is_rebuilt(d.value, r) for d in ds)
        return isinstance(v, ast.Call) and dotted(v.func) == "Sid"

    for r in _rets(f):
        v = r.value
        if _is_empty_sid(v) or r in qret:
            continue
        if _is_rebuilt(v, r):
            continue
        problems.append(f"`{norm(r)}` returns something that is not a rebuilt Sid")
    # a second construction from the joined values is a fallback for an overlay that fits no type: only then
    if len(built) == 1:
        from ..shape import facts_at as _fa

        holder = next((d.var for d in flow.all_defs if d.kind == "assign" and d.value is built[0]), None)
        qcalls = {id(x) for r in qret for x in ast.walk(r)}
        for n in own_nodes(f.node):
            if isinstance(n, ast.Call) and dotted(n.func) == "Sid" and n is not built[0] and id(n) not in qcalls and (n.args or n.keywords):
                fs = _fa(ctx, f, n)
                if holder is None or (holder, False) not in fs:
                    problems.append(f"`{norm(n)[:60]}` replaces the overlaid Sid although it may be typed: the returned fields can differ "
                                    f"from the requested overlay")
                elif (f"{holder}.is_search()", True) not in fs:
                    # under `<overlay Sid>.is_search() and not <overlay Sid>` the construction is dead (an untyped Sid built from
                    # fields is the empty Sid, which is no search); under any other guard it runs, and types the joined values by position
                    problems.append(f"`{norm(n)[:60]}` is reachable for an overlay that fits no type: the joined values are typed again by "
                                    f"position and a typed Sid with other fields than requested comes back")
    if problems:
        res.violation([f.qualname, "overlay"], "get_with: " + "; ".join(dict.fromkeys(problems)), f.relpath, f.node.lineno)
    else:
        res.ok("TypedSid.get_with", "copy of the fields; key/value merged before the overlay is read; None singled out; overlay applied; "
                                    "Sid(fields=copy) or Sid(uri?query) or empty Sid")
    return res


def rule_queryroute(ctx: Ctx) -> RuleResult:
    """Sid(query=q) is Sid('?' + q); as_query renders the Sid's own fields"""
    res = RuleResult("R-QUERYROUTE")
    f = ctx.p.function("spil.sid.core.sid_factory.sid_factory")
    ok = False
    for n in own_nodes(f.node):
        if isinstance(n, ast.If) and norm(n.test) == "query":
            for c in ast.walk(ast.Module(body=n.body, type_ignores=[])):
                if isinstance(c, ast.Call) and (dotted(c.func) or "").endswith("sid_to_sid") and c.args:
                    a = c.args[0]
                    if isinstance(a, ast.JoinedStr) and norm(a) in ("f'?{query}'",):
                        ok = True
                    if isinstance(a, ast.BinOp) and norm(a) in ("'?' + query",):
                        ok = True
    if ok:
        res.ok("sid_factory(query=)", "routed as sid_to_sid('?' + query)")
    else:
        res.violation([f.qualname, "query routing"], "Sid(query=q) is no longer built as the empty string plus '?q'", f.relpath, f.node.lineno)
    aq = ctx.p.function("spil.sid.sid.TypedSid.as_query")
    if any(r.value is not None and norm(r.value) == "query_helper.to_string(self._fields)" for r in _rets(aq)):
        res.ok("TypedSid.as_query", "query_helper.to_string(self._fields)")
    else:
        res.violation([aq.qualname, "as_query"], "as_query does not render the Sid's own fields", aq.relpath, aq.node.lineno)
    # to_dict / to_string are inverse for plain values: parse_qsl of the '&'-joined key=value pairs
    td = ctx.p.function("spil.sid.core.query_helper.to_dict")
    ts = ctx.p.function("spil.sid.core.query_helper.to_string")
    uses_qsl = any(isinstance(n, ast.Call) and (dotted(n.func) or "").endswith("parse_qsl") for n in own_nodes(td.node))
    uses_enc = any(isinstance(n, ast.Call) and (dotted(n.func) or "").endswith("urlencode") and n.args and norm(n.args[0]) == ts.params[0]
                   for n in own_nodes(ts.node))
    # the text is cleaned the way urlsplit does (tab / line breaks removed, '#fragment' cut) before it is split into pairs: a value read
    # from a file keeps no line ending that the template expressions would let through ('$' matches before a final newline)
    qsl = [n for n in own_nodes(td.node) if isinstance(n, ast.Call) and (dotted(n.func) or "").endswith("parse_qsl")]
    for c_ in qsl:
        a0 = c_.args[0] if c_.args else None
        cleaned = a0 is not None and any(isinstance(x, ast.Call) and (dotted(x.func) or "").split(".")[-1] in ("urlsplit", "urlparse") for x in ast.walk(a0))
        if not cleaned and a0 is not None:
            tdflow = flow_of(td.node)
            at_ = tdflow.node_of(c_)
            cleaned = any(a_.kind == "call" and a_.text.split(".")[-1] in ("urlsplit", "urlparse", "splitlines", "strip", "rstrip")
                          for a_ in tdflow.depends(a0, at_.id if at_ is not None else None))
        if not cleaned:
            res.violation([td.qualname, "codec", "raw text"], f"to_dict hands the raw query text to `{norm(c_)[:50]}`: a trailing line break (or tab) stays in "
                                                              f"the last value, passes the template expressions and ends up in the fields and the string of a "
                                                              f"typed Sid", td.relpath, c_.lineno)
    # the values go into the query text as they are (blanks aside): apply_query reads search symbols in that text, and a typed Sid is
    # compared through it, so an escaping that to_dict undoes is still visible
    enc_calls = [n for n in own_nodes(ts.node) if isinstance(n, ast.Call) and (dotted(n.func) or "").endswith("urlencode")]
    verbatim = False
    why_enc = "urlencode is used without a quote_via that keeps the characters"
    for c_ in enc_calls:
        qv = next((k.value for k in c_.keywords if k.arg == "quote_via"), None)
        body = None
        if isinstance(qv, ast.Lambda):
            body = [qv.body]
        elif isinstance(qv, ast.Name) and qv.id in ts.nested:
            body = [r_.value for r_ in own_nodes(ts.nested[qv.id].node) if isinstance(r_, ast.Return) and r_.value is not None]
        elif isinstance(qv, (ast.Name, ast.Attribute)):
            r0 = ctx.p.resolve_expr(ts.module, qv, ts)
            if r0 is not None and r0.kind == "func" and r0.func is not None and r0.func.module.kind in ("library", "config"):
                body = [r_.value for r_ in own_nodes(r0.func.node) if isinstance(r_, ast.Return) and r_.value is not None]
        if body:
            foreign = [x for b_ in body for x in ast.walk(b_) if isinstance(x, ast.Call) and not (
                (isinstance(x.func, ast.Attribute) and x.func.attr in ("replace", "strip", "lstrip", "rstrip")) or dotted(x.func) == "str")]
            if foreign:
                why_enc = f"`{norm(foreign[0])[:50]}` alters the values on their way into the query text"
            else:
                verbatim = True
    if uses_qsl and uses_enc and not verbatim:
        res.violation(["spil.sid.core.query_helper", "codec", "values altered"], f"to_string: {why_enc}: '>' and other search symbols no longer stand "
                                                                                 f"in the text that apply_query inspects, and the query form of a Sid is not "
                                                                                 f"the text it is compared by", ts.relpath, ts.node.lineno)
    elif uses_qsl and uses_enc:
        res.ok("query_helper.to_dict / to_string", "urlencode of the whole dictionary with the characters kept / parse_qsl of the whole string")
    else:
        res.violation(["spil.sid.core.query_helper", "codec"], "to_string / to_dict no longer encode / decode the whole mapping", td.relpath, td.node.lineno)
    return res


# ------------------------------------------------------------------------------------------------
def _whole_copy_of(e: ast.AST, pname: str) -> bool:
    """``e`` is the parameter or a complete copy of it"""
    if isinstance(e, ast.Name) and e.id == pname:
        return True
    if isinstance(e, ast.Call) and not e.keywords:
        if isinstance(e.func, ast.Name) and e.func.id in ("dict", "OrderedDict") and len(e.args) == 1:
            return _whole_copy_of(e.args[0], pname)
        if isinstance(e.func, ast.Attribute) and e.func.attr == "copy" and not e.args:
            return _whole_copy_of(e.func.value, pname)
    if isinstance(e, ast.Dict) and len(e.keys) == 1 and e.keys[0] is None:
        return _whole_copy_of(e.values[0], pname)
    return False


def rule_fieldsarg(ctx: Ctx) -> RuleResult:
    """Sid(fields=d): the dictionary that is typed and formatted is d itself, all of it (C02: the fields form
    denotes the Sid with exactly these fields; a dropped or rewritten key makes another Sid of it)"""
    res = RuleResult("R-FIELDSARG")
    f = ctx.p.function("spil.sid.core.sid_factory.dict_to_sid")
    flow = flow_of(f.node)
    pname = f.params[0]
    n = 0
    for cs in ctx.cg.sites.get(f.qualname, []):
        if not isinstance(cs.node, ast.Call):
            continue
        names = {t.qualname for t in cs.targets}
        if not names & {"spil.sid.core.sid_resolver.dict_to_type", "spil.sid.core.sid_resolver.dict_to_sid"}:
            continue
        if not cs.node.args:
            continue
        n += 1
        arg = cs.node.args[0]
        at = flow.node_of(cs.node)
        vals = [arg]
        if isinstance(arg, ast.Name) and flow.is_local(arg.id):
            ds = list(flow.defs_reaching(at.id, arg.id)) if at is not None else []
            vals = [d.value if d.kind == "assign" else (ast.Name(id=d.var, ctx=ast.Load()) if d.kind == "param" else None) for d in ds]
        bad = [v for v in vals if v is None or not _whole_copy_of(v, pname)]
        site = f"{f.short}: `{norm(cs.node)[:60]}`"
        if bad:
            shown = norm(bad[0])[:70] if bad[0] is not None else "a value that is not the given dictionary"
            res.violation([f.qualname, norm(cs.node.func), "fields argument"],
                          f"{f.short} types / formats `{shown}` instead of the given fields dictionary: keys are dropped or rewritten "
                          f"before the Sid is built, so Sid(fields=d) is not the Sid with the fields d", f.relpath, cs.lineno, site=site)
        else:
            res.ok(site, "receives the given dictionary itself (or a complete copy)")
    res.floor(n, 2, "resolver calls in sid_factory.dict_to_sid (dict_to_type, dict_to_sid)")
    return res
