"""R-FWD - argument forwarding (DESIGN.md A.4): the path-configuration domain and the
attributes / sid_encode delegation chains.  Serves C05 C06 C11 C12 C13 C15 C16."""
from __future__ import annotations

import ast
from typing import Dict, List, Optional, Set, Tuple

from ..context import Ctx
from ..dataflow import flow_of
from ..program import AnalysisError, FunctionInfo, dotted, norm, own_nodes
from ..report import RuleResult
from .mutation import bind_args

# function qualname -> name of its path-configuration parameter
CONFIG_PARAM: Dict[str, str] = {
    "spil.sid.core.sid_factory.sid_factory": "config",
    "spil.sid.core.sid_factory.path_to_sid": "config",
    "spil.sid.pathops.fs_resolver.path_to_dict": "config",
    "spil.sid.pathops.fs_resolver.dict_to_path": "config",
    "spil.sid.sid.PathSid.path": "config",
    "spil.sid.pathops.pathconfig.get_path_config": "name",
    "spil.sid.pathops.pathconfig.PathConfig.__init__": "name",
    "spil.sid.pathops.find_paths.FindInPaths.__init__": "config",
    "spil.sid.pathops.getter_paths.GetFromPaths.__init__": "config",
    "spil.sid.pathops.write_paths.WriteToPaths.__init__": "config",
}
# class -> attribute that carries the configuration name (set in __init__ from the parameter)
CONFIG_ATTR: Dict[str, str] = {
    "spil.sid.pathops.find_paths.FindInPaths": "config_name",
    "spil.sid.pathops.getter_paths.GetFromPaths": "config",
    "spil.sid.pathops.write_paths.WriteToPaths": "config",
    "spil.sid.pathops.pathconfig.PathConfig": "name",
}
# parameters forwarded by name along the Getter chains
CHAIN_PARAMS = ("attributes", "sid_encode")


def _carrier_atoms(f: FunctionInfo) -> Set[str]:
    """names of the data-flow atoms that carry the path configuration inside function f"""
    out: Set[str] = set()
    if f.qualname in CONFIG_PARAM:
        out.add("param:" + CONFIG_PARAM[f.qualname])
    if f.cls is not None:
        for cq, attr in CONFIG_ATTR.items():
            if f.cls.qualname == cq or any(b == cq for b in f.cls.base_names):
                # in __init__ the attribute is the parameter stored a line earlier (checked in part 1)
                out.add("attr:self." + attr)
    return out


def _derives(flow, expr: ast.AST, at: Optional[int], carriers: Set[str]) -> bool:
    deps = flow.depends(expr, at)
    for a in deps:
        if f"{a.kind}:{a.text}" in carriers:
            return True
    return False


def rule_fwd_config(ctx: Ctx) -> RuleResult:
    res = RuleResult("R-FWD")
    p = ctx.p
    for q in CONFIG_PARAM:
        f = p.function(q)
        res.require(CONFIG_PARAM[q] in f.params, f"{q} lost its '{CONFIG_PARAM[q]}' parameter")
    n = 0
    # (1) attributes initialised from the parameter
    for cq, attr in CONFIG_ATTR.items():
        c = p.cls(cq)
        init = c.methods.get("__init__")
        res.require(init is not None, f"{cq}.__init__ vanished")
        flow = flow_of(init.node)
        par = CONFIG_PARAM[init.qualname]
        stores = [n_ for n_ in own_nodes(init.node) if isinstance(n_, ast.Assign) and any(
            isinstance(t, ast.Attribute) and isinstance(t.value, ast.Name) and t.value.id == "self" and t.attr == attr for t in n_.targets)]
        n += 1
        if len(stores) != 1:
            res.violation([cq, attr, "initialisation"], f"{c.name}.{attr} is not assigned exactly once in __init__", init.relpath, init.node.lineno)
            continue
        st = stores[0]
        at = flow.node_of(st)
        ok = False
        v = st.value
        cands = [v] + (list(v.values) if isinstance(v, ast.BoolOp) and isinstance(v.op, ast.Or) else [])
        first = cands[1] if len(cands) > 1 else cands[0]
        if isinstance(first, ast.Name) and first.id == par:
            ds = flow.defs_reaching(at.id, par) if at else []
            # the argument itself, or the argument completed by a default (`config = config or <default>`)
            ok = bool(ds) and all(d.kind == "param" or (d.kind == "assign" and isinstance(d.value, ast.BoolOp) and isinstance(d.value.op, ast.Or)
                                                         and isinstance(d.value.values[0], ast.Name) and d.value.values[0].id == par) for d in ds)
        if ok:
            res.ok(f"{c.name}.{attr}", f"`{norm(st)}`: the instance keeps the configuration it was given")
        else:
            res.violation([cq, attr, "initialisation"], f"{c.name}.__init__: `{norm(st)}` does not store the `{par}` argument itself (the "
                                                        f"name may have been rebound before the store)", init.relpath, st.lineno)
    # (2) every call to a configuration-carrying callee forwards the caller's configuration
    for f in p.iter_functions(kinds=("library",)):
        if f.module.name == "spil.sid.read.finders.find_cache":
            continue
        carriers = _carrier_atoms(f)
        if not carriers:
            continue
        flow = flow_of(f.node)
        for cs in ctx.cg.sites.get(f.qualname, []):
            if not isinstance(cs.node, ast.Call):
                continue
            for t in cs.targets:
                if t.qualname not in CONFIG_PARAM:
                    continue
                par = CONFIG_PARAM[t.qualname]
                bound = dict(bind_args(t, cs.node))
                n += 1
                site = f"{f.qualname} -> {t.short}({par}=...)"
                at = flow.node_of(cs.node)
                if par not in bound:
                    res.violation([f.qualname, t.qualname, par, "omitted"],
                                  f"{f.short} calls {t.short} without passing its path configuration: `{norm(cs.node)[:90]}` uses the "
                                  f"default configuration whatever the caller was given", f.relpath, cs.lineno, site=site)
                elif not _derives(flow, bound[par], at.id if at else None, carriers):
                    res.violation([f.qualname, t.qualname, par, "not forwarded"],
                                  f"{f.short} passes `{norm(bound[par])}` as `{par}` to {t.short}: it does not come from the caller's own "
                                  f"configuration ({sorted(carriers)})", f.relpath, cs.lineno, site=site)
                else:
                    res.ok(site, f"`{norm(bound[par])}` derives from {sorted(carriers)}")
    # (3) the resolver is the one of that configuration, for parsing and for formatting
    for q in ("spil.sid.pathops.fs_resolver.path_to_dict", "spil.sid.pathops.fs_resolver.dict_to_path"):
        f = p.function(q)
        flow = flow_of(f.node)
        gets = [n_ for n_ in own_nodes(f.node) if isinstance(n_, ast.Call) and (dotted(n_.func) or "") == "Resolver.get"]
        n += 1
        if len(gets) != 1:
            res.violation([q, "Resolver.get"], f"{f.short}: expected one Resolver.get call", f.relpath, f.node.lineno)
            continue
        g = gets[0]
        deps = flow.depends(g.args[0]) if g.args else set()
        via_pc = any(a.kind == "call" and a.text.endswith("get_path_config") for a in deps) and any(
            a.kind == "param" and a.text == "config" for a in deps)
        arg = g.args[0] if g.args else None
        if via_pc and isinstance(arg, ast.Attribute) and arg.attr == "name":
            res.ok(f"{f.short}: Resolver.get({norm(arg)})", "resolver id = name of get_path_config(config)")
        else:
            res.violation([q, "Resolver.get", "resolver id"], f"{f.short}: the resolver is not looked up by the name of "
                                                              f"get_path_config(config) (`{norm(g)}`)", f.relpath, g.lineno)
        # all resolver operations in the function go through that one resolver
        recv_names = set()
        for n_ in own_nodes(f.node):
            if isinstance(n_, ast.Call) and isinstance(n_.func, ast.Attribute) and n_.func.attr in (
                    "resolve_first", "resolve_one", "format_first", "format_one", "get_format_for", "get_keys_for"):
                d = flow.depends(n_.func.value)
                if not any(a.kind == "call" and a.text == "Resolver.get" for a in d):
                    res.violation([q, norm(n_.func), "foreign resolver"], f"{f.short}: `{norm(n_)[:60]}` does not use the configuration's "
                                                                          f"resolver", f.relpath, n_.lineno)
    # PathConfig: the resolver is registered under the configuration's own name
    pc_init = p.function("spil.sid.pathops.pathconfig.PathConfig.__init__")
    flow = flow_of(pc_init.node)
    rcalls = [n_ for n_ in own_nodes(pc_init.node) if isinstance(n_, ast.Call) and (dotted(n_.func) or "") in ("Resolver", "Resolver.get")]
    n += 1
    bad = [c for c in rcalls if not (c.args and norm(c.args[0]) == "self.name")]
    if rcalls and not bad:
        res.ok("PathConfig.__init__", "Resolver.get(self.name) or Resolver(self.name, self.path_templates)")
    else:
        res.violation([pc_init.qualname, "resolver id"], "PathConfig.__init__ does not create / look up the resolver under self.name",
                      pc_init.relpath, pc_init.node.lineno)
    # get_path_config: PathConfig(name, conf.path_configs.get(name))
    gpc = p.function("spil.sid.pathops.pathconfig.get_path_config")
    flow = flow_of(gpc.node)
    ctor = [n_ for n_ in own_nodes(gpc.node) if isinstance(n_, ast.Call) and (dotted(n_.func) or "") == "PathConfig"]
    n += 1
    if len(ctor) == 1 and len(ctor[0].args) == 2 and norm(ctor[0].args[0]) == "name":
        d = flow.depends(ctor[0].args[1])
        if any(a.kind == "attr" and a.text == "conf.path_configs" for a in d) and any(a.kind == "param" and a.text == "name" for a in d):
            res.ok("get_path_config", "PathConfig(name, conf.path_configs.get(name))")
        else:
            res.violation([gpc.qualname, "module lookup"], "get_path_config does not look the module up in conf.path_configs by name",
                          gpc.relpath, ctor[0].lineno)
    else:
        res.violation([gpc.qualname, "PathConfig construction"], "get_path_config does not build PathConfig(name, <module>)", gpc.relpath,
                      gpc.node.lineno)
    res.floor(n, 16, "path-configuration forwarding sites")
    _default_config_choice(ctx, res)
    return res


# ------------------------------------------------------------------------------------------------
def _default_config_choice(ctx: Ctx, res: RuleResult):
    """no name given: the configured default path configuration, else the first configured one - in this order"""
    f = ctx.p.function("spil.sid.pathops.pathconfig.get_path_config")
    from ..shape import facts_at

    name_p = f.params[0]
    hits = 0
    assigns = sorted([st for st in own_nodes(f.node) if isinstance(st, ast.Assign) and len(st.targets) == 1 and norm(st.targets[0]) == name_p],
                     key=lambda st: (st.lineno, st.col_offset))
    seq = []  # what the name may become, in order of preference
    bad = None
    for st in assigns:
        hits += 1
        v = st.value
        ops = list(v.values) if isinstance(v, ast.BoolOp) and isinstance(v.op, ast.Or) else [v]
        fs = facts_at(ctx, f, st)
        if norm(ops[0]) == name_p:
            ops = ops[1:]  # `name = name or ...`: only when there is none yet
        elif (name_p, False) not in fs:
            bad = st
        if any(isinstance(o, (ast.BoolOp, ast.IfExp)) for o in ops):
            bad = st  # `default and first`: the default is never the answer
        seq += [norm(o) for o in ops]
    if hits:
        i_def = next((i for i, t in enumerate(seq) if "default_path_config" in t), None)
        i_first = next((i for i, t in enumerate(seq) if "path_configs" in t and "default_path_config" not in t), None)
        if bad is None and i_def is not None and (i_first is None or i_def < i_first):
            res.ok("get_path_config default", "only when no name is given: conf.default_path_config, else the first configured one")
        else:
            st = bad or assigns[0]
            res.violation([f.qualname, "default choice"], f"get_path_config: `{norm(st)[:80]}` is not `default_path_config or <first configured>` under "
                                                          f"'no name given': the default configuration is ignored or a given name is replaced",
                          f.relpath, st.lineno)
    if hits == 0:
        res.note("get_path_config default", "no re-binding of the name: the given name is used as it is")


def rule_fwd_chain(ctx: Ctx) -> RuleResult:
    """attributes / sid_encode are handed unchanged down the Getter chains"""
    res = RuleResult("R-FWD")
    p = ctx.p
    n = 0
    roots = [c for c in p.classes.values() if c.module.kind == "library" and any(
        k.qualname == "spil.sid.read.getter.Getter" for k in p.mro(c))]
    res.floor(len(roots), 4, "Getter classes")
    for c in roots:
        for m in c.methods.values():
            mine = [x for x in CHAIN_PARAMS if x in m.params]
            if not mine:
                continue
            flow = flow_of(m.node)
            for cs in ctx.cg.sites.get(m.qualname, []):
                if not isinstance(cs.node, ast.Call):
                    continue
                for t in cs.targets:
                    if t.cls is None or not any(k.qualname == "spil.sid.read.getter.Getter" for k in p.mro(t.cls)):
                        continue
                    bound = dict(bind_args(t, cs.node))
                    for par in mine:
                        if par not in t.params:
                            continue
                        n += 1
                        site = f"{m.qualname} -> {t.short}({par})"
                        at = flow.node_of(cs.node)
                        if par not in bound:
                            res.violation([m.qualname, t.name, par, "omitted"],
                                          f"{m.short} calls {t.name} without `{par}`: the request's {par} are dropped", m.relpath, cs.lineno, site=site)
                        else:
                            deps = flow.depends(bound[par], at.id if at else None)
                            ds = flow.defs_reaching(at.id, par) if at else []
                            if any(a.kind == "param" and a.text == par for a in deps) and isinstance(bound[par], ast.Name) \
                                    and all(d.kind == "param" for d in ds):
                                res.ok(site, "forwarded unchanged")
                            else:
                                res.violation([m.qualname, t.name, par, "altered"],
                                              f"{m.short} passes `{norm(bound[par])}` as `{par}` to {t.name} instead of its own `{par}`",
                                              m.relpath, cs.lineno, site=site)
    res.floor(n, 10, "attributes / sid_encode forwarding sites")
    return res


def _handed_out(m: FunctionInfo, flow, call: ast.Call) -> bool:
    """the results of the call leave the method as they are: `yield from call`, `return call`, or through a local that is only
    yielded from / returned"""
    parents = {}
    for x in ast.walk(m.node):
        for ch in ast.iter_child_nodes(x):
            parents[id(ch)] = x
    par = parents.get(id(call))
    if isinstance(par, (ast.YieldFrom, ast.Return)):
        return True
    if isinstance(par, ast.Assign) and len(par.targets) == 1 and isinstance(par.targets[0], ast.Name):
        nm = par.targets[0].id
        uses = [x for x in own_nodes(m.node) if isinstance(x, ast.Name) and x.id == nm and isinstance(x.ctx, ast.Load)]
        return bool(uses) and all(isinstance(parents.get(id(u)), (ast.YieldFrom, ast.Return)) for u in uses)
    return False


def rule_fwd_assid(ctx: Ctx) -> RuleResult:
    """a Finder method that is asked for Sids or for strings (as_sid) asks the Finder methods it delegates to for the same:
    the flag is handed on (or chosen explicitly with a literal), never left to the callee's default"""
    res = RuleResult("R-FWD")
    p = ctx.p
    n = 0
    fam = [c for c in p.classes.values() if c.module.kind == "library" and c.module.name != "spil.sid.read.finders.find_cache" and any(
        k.qualname in ("spil.sid.read.finder.Finder", "spil.sid.read.getter.Getter") for k in p.mro(c))]
    res.floor(len(fam), 6, "Finder / Getter classes")
    for c in fam:
        for m in c.methods.values():
            if "as_sid" not in m.params:
                continue
            flow = flow_of(m.node)
            for cs in ctx.cg.sites.get(m.qualname, []):
                if not isinstance(cs.node, ast.Call):
                    continue
                ts = [t for t in cs.targets if t.cls is not None and "as_sid" in t.params and any(
                    k.qualname in ("spil.sid.read.finder.Finder", "spil.sid.read.getter.Getter") for k in p.mro(t.cls))]
                if not ts:
                    continue
                t = ts[0]
                bound = dict(bind_args(t, cs.node))
                n += 1
                site = f"{m.qualname} -> {t.short}(as_sid)"
                if "as_sid" not in bound and not _handed_out(m, flow, cs.node):
                    res.ok(site, "results are consumed here (as the callee's default gives them), not handed out")
                    continue
                if "as_sid" not in bound:
                    res.violation([m.qualname, t.name, "as_sid", "omitted"],
                                  f"{m.short} calls {t.name} without `as_sid`: the callee's default decides whether Sids or strings come back, "
                                  f"whatever the caller was asked for", m.relpath, cs.lineno, site=site)
                    continue
                v = bound["as_sid"]
                at = flow.node_of(cs.node)
                if isinstance(v, ast.Constant):
                    res.ok(site, f"explicit as_sid={v.value!r} (the caller converts the results itself)")
                elif any(a.kind == "param" and a.text == "as_sid" for a in flow.depends(v, at.id if at else None)):
                    res.ok(site, "forwarded")
                else:
                    res.violation([m.qualname, t.name, "as_sid", "altered"], f"{m.short} passes `{norm(v)}` as `as_sid` to {t.name}", m.relpath,
                                  cs.lineno, site=site)
    res.floor(n, 6, "as_sid forwarding sites")
    return res
