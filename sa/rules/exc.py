"""R-EXC - exception contract of the public entry points (DESIGN.md A.1).

For an entry e with allowed set A(e): every partial construct reachable from e whose exception
class is not within A(e) and is not caught on the call chain is a violation, unless discharged by a
guard recognised in the CFG (effects.py) or by an entry of the frozen table below (each with the
reason it was accepted after reading the code).
"""
from __future__ import annotations

import ast

from dataclasses import dataclass, field
from typing import Dict, List, Optional, Sequence, Set, Tuple

from ..context import Ctx
from ..program import own_nodes, AnalysisError
from ..report import RuleResult
from ..tables import EXC_DISCHARGE
from . import conds


@dataclass
class Entry:
    name: str
    roots: Sequence[str]
    allowed: Sequence[str] = ()
    self_class: Optional[str] = None
    blocked: Sequence[str] = ()
    own_only: Sequence[str] = ()
    must_reach: Sequence[str] = ()
    min_constructs: int = 1  # floor on (discharged + automatically discharged + allowed) constructs


ENTRIES: Dict[str, Entry] = {
    "Sid(str)": Entry(
        "Sid(str)",
        roots=["spil.sid.sid.BaseSid.__new__", "spil.sid.core.sid_factory.sid_factory", "spil.sid.core.sid_factory.sid_to_sid",
               "spil.util.caching.lru_cache.<locals>.wrapper"],
        own_only=["spil.sid.sid.BaseSid.__new__", "spil.sid.core.sid_factory.sid_factory",
                  "spil.util.caching.lru_cache.<locals>.wrapper"],
        must_reach=["spil.sid.core.sid_resolver.sid_to_dict", "resolva.resolver.Resolver.resolve_first",
                    "resolva.resolver.Resolver.resolve_one", "resolva.template.match_to_dict",
                    "spil.sid.core.query_helper.apply_query", "spil.sid.core.sid_resolver.dict_to_type",
                    "spil.sid.core.sid_resolver.dict_to_sid", "spil.util.caching.lru_cache.<locals>.wrapper"],
        min_constructs=8,
    ),
    "Sid(fields)": Entry(
        "Sid(fields)",
        roots=["spil.sid.core.sid_factory.dict_to_sid"],
        must_reach=["spil.sid.core.sid_resolver.dict_to_type", "resolva.resolver.Resolver.format_all",
                    "resolva.resolver.Resolver.format_one", "spil.sid.core.sid_resolver.sid_to_dict"],
        min_constructs=3,
    ),
    "Sid(path,config)": Entry(
        "Sid(path,config)",
        roots=["spil.sid.core.sid_factory.path_to_sid"],
        must_reach=["spil.sid.pathops.fs_resolver.path_to_dict", "spil.sid.pathops.pathconfig.get_path_config",
                    "resolva.resolver.Resolver.resolve_first", "resolva.template.match_to_dict",
                    "spil.sid.core.sid_resolver.dict_to_sid"],
        min_constructs=6,
    ),
    "navigation": Entry(
        "navigation",
        roots=["spil.sid.sid.StringSid.copy", "spil.sid.sid.StringSid.__truediv__", "spil.sid.sid.StringSid.string",
               "spil.sid.sid.StringSid.is_search", "spil.sid.sid.StringSid.__str__", "spil.sid.sid.StringSid.__repr__",
               "spil.sid.sid.StringSid.__hash__", "spil.sid.sid.StringSid.__eq__", "spil.sid.sid.StringSid.__lt__",
               "spil.sid.sid.TypedSid.parent", "spil.sid.sid.TypedSid.get_as", "spil.sid.sid.TypedSid.get",
               "spil.sid.sid.TypedSid.keytype", "spil.sid.sid.TypedSid.basetype", "spil.sid.sid.TypedSid.__len__",
               "spil.sid.sid.TypedSid.as_query", "spil.sid.sid.TypedSid.is_leaf", "spil.sid.sid.TypedSid.uri",
               "spil.sid.sid.TypedSid.fields", "spil.sid.sid.TypedSid.type"],
        must_reach=["spil.sid.core.sid_factory.dict_to_sid", "spil.sid.core.sid_factory.sid_to_sid",
                    "spil.sid.core.query_helper.to_string"],
        min_constructs=8,
    ),
    "get_with": Entry(
        "get_with",
        roots=["spil.sid.sid.TypedSid.get_with"],
        must_reach=["spil.sid.core.sid_factory.dict_to_sid", "spil.sid.core.sid_factory.sid_to_sid"],
        min_constructs=8,
    ),
    "path(config)": Entry(
        "path(config)",
        roots=["spil.sid.sid.PathSid.path", "spil.util.caching.lru_cache.<locals>.wrapper"],
        own_only=["spil.util.caching.lru_cache.<locals>.wrapper"],
        must_reach=["spil.sid.pathops.fs_resolver.dict_to_path", "spil.sid.pathops.pathconfig.get_path_config",
                    "spil.util.utils.get_key", "resolva.resolver.Resolver.format_one"],
        min_constructs=5,
    ),
    "unfold_search": Entry(
        "unfold_search",
        roots=["spil.sid.read.tools.unfold_search", "spil.util.caching.lru_kw_cache.<locals>.wrapper"],
        own_only=["spil.util.caching.lru_kw_cache.<locals>.wrapper"],
        allowed=["SpilException"],
        must_reach=["spil.sid.read.tools.apply_unfolders", "spil.sid.read.unfolders.extensions.extensions",
                    "spil.sid.read.unfolders.or_op.or_op", "spil.sid.read.unfolders.or_op.or_on_path",
                    "spil.sid.read.unfolders.or_op.or_on_query", "spil.sid.core.utils.expand",
                    "spil.sid.core.utils.simple_typing", "spil.sid.read.unfolders.typed_narrow.type_narrow",
                    "spil.sid.core.utils.extrapolate", "spil.sid.sid.TypedSid.get_with",
                    "spil.sid.core.sid_resolver.sid_to_dicts", "resolva.resolver.Resolver.resolve_all"],
        min_constructs=15,
    ),
    "FindInList.find": Entry(
        "FindInList.find",
        roots=["spil.sid.read.finder.Finder.find", "spil.sid.read.finder.Finder.find_one", "spil.sid.read.finder.Finder.exists",
               "spil.sid.sid.TypedSid.match", "spil.sid.read.finders.find_list.FindInList.__init__"],
        self_class="spil.sid.read.finders.find_list.FindInList",
        # C08 quantifies over searches without '>': the sorted ('>') branch belongs to C09, which states no error contract
        blocked=["spil.sid.read.finders.find_glob.FindByGlob.sorted_search"],
        allowed=["SpilException"],
        must_reach=["spil.sid.read.finders.find_list.FindInList.star_search", "spil.sid.read.finders.find_list.glob2re",
                    "spil.sid.read.tools.unfold_search", "spil.sid.read.util.first"],
        min_constructs=15,
    ),
    "FindInPaths.scan": Entry(
        "FindInPaths.scan",
        roots=["spil.sid.pathops.find_paths.FindInPaths.star_search_simple", "spil.sid.pathops.find_paths.FindInPaths.star_search"],
        self_class="spil.sid.pathops.find_paths.FindInPaths",
        blocked=["spil.sid.pathops.find_paths.FindInPaths.star_search_framed"],
        must_reach=["spil.sid.core.sid_factory.path_to_sid", "spil.sid.sid.PathSid.path",
                    "spil.sid.pathops.fs_resolver.path_to_dict"],
        min_constructs=8,
    ),
    "GetFromAll.dispatch": Entry(
        "GetFromAll.dispatch",
        roots=["spil.sid.read.getters.getter_all.GetFromAll.get"],
        blocked=["spil.sid.read.getter.Getter.do_get", "spil.sid.read.getters.getter_finder.GetByFinder.do_get",
                 "spil.sid.read.tools.unfold_search", "spil.util.caching.lru_kw_cache.<locals>.wrapper",
                 "spil_data_conf.get_getter_for"],
        must_reach=["spil.sid.read.getters.getter_all.get_getter"],
        min_constructs=0,
    ),
    "GetFromPaths.get_data": Entry(
        "GetFromPaths.get_data",
        roots=["spil.sid.pathops.getter_paths.GetFromPaths.get_data"],
        must_reach=["spil_data_conf.get_data_json_path", "spil.sid.sid.PathSid.path"],
        min_constructs=4,
    ),
    "versions": Entry(
        "versions",
        roots=["spil.sid.sid.DataSid.get_last", "spil.sid.sid.DataSid.get_new", "spil.sid.sid.DataSid.get_next",
               "hamlet_plugins.next_get.NextGetter.get_attr"],
        blocked=["spil.sid.read.finder.Finder.find_one", "spil.sid.read.finder.Finder.find",
                 "spil.sid.read.finders.find_all.FindInAll.find", "spil.sid.read.getter.Getter.get_attr",
                 "spil.sid.read.getter.Getter.get_data", "spil_plugins.*"],
        must_reach=["spil.sid.read.getters.getter_all.GetFromAll.get_attr", "spil.sid.read.getters.getter_all.get_getter",
                    "spil_data_conf.get_getter_for", "spil.sid.sid.TypedSid.get_with"],
        min_constructs=6,
    ),
}


def run(ctx: Ctx, entry_name: str) -> RuleResult:
    res = RuleResult("R-EXC")
    e = ENTRIES[entry_name]
    p, ef = ctx.p, ctx.ef
    roots = [p.function(q) for q in e.roots]
    self_class = p.cls(e.self_class) if e.self_class else None
    blocked = set()
    for b in e.blocked:
        if b.endswith("*"):
            blocked |= {q for q in p.functions if q.startswith(b[:-1])}
        else:
            blocked.add(b)
    note_moved(p)
    escapes, reached = ef.entry_escapes(roots, self_class=self_class, blocked=blocked, own_only=e.own_only)
    for q in e.must_reach:
        if q not in p.functions:
            mv = p.moved(q)
            if mv is None:
                raise AnalysisError(f"R-EXC[{e.name}]: anchor function vanished: {q}")
            q = mv.qualname
        res.require(q in reached, f"[{e.name}] call graph no longer reaches {q} from the entry (resolution broken or "
                                  f"delegation removed)")
    allowed = set(e.allowed)
    n_checked = 0
    # automatically discharged constructs in the reached functions are part of the evidence
    for q in sorted(reached):
        f = p.functions.get(q)
        if f is None:
            continue
        for rp, why in ef.auto_discharged(f):
            n_checked += 1
            res.ok(f"[{e.name}] {_short(rp.fn)}: `{_clip(rp.text)}` ({rp.exc})", f"guard: {why}")
    for esc in sorted(escapes, key=lambda x: (x.point.fn, x.point.text, x.point.exc)):
        rp = esc.point
        n_checked += 1
        site = f"[{e.name}] {_short(rp.fn)}: `{_clip(rp.text)}` ({rp.exc})"
        if any(ef.h.is_sub(rp.exc, a) for a in allowed):
            res.ok(site, f"{rp.exc} is within the allowed set {sorted(allowed)}", nontrivial=True)
            continue
        rf = p.functions.get(rp.fn)
        d = lookup_discharge(e.name, rp.fn, rp.text, rp.exc, rp.kind, _locals_of(rf) if rf is not None else frozenset())
        failed = ""
        if d is not None:
            if d.get("cond"):
                ok, detail = conds.holds(ctx, d["cond"])
                if ok:
                    res.ok(site, f"table: {d['why']} [side condition {d['cond']}: {detail}]")
                    continue
                failed = f"; the table entry's side condition '{d['cond']}' no longer holds: {detail}"
            else:
                res.ok(site, f"table: {d['why']}")
                continue
        f = p.functions.get(rp.fn)
        res.violation(
            key=[e.name, rp.fn, rp.text, rp.exc],
            message=f"{rp.exc} can escape {e.name}: `{_clip(rp.text, 120)}` in {rp.fn} is neither guarded, caught on the "
                    f"chain, nor allowed ({sorted(allowed) or 'nothing may be raised'}){failed}",
            file=f.relpath if f else "", line=rp.lineno, chain=[c for c in esc.chain], site=site)
    res.floor(n_checked, e.min_constructs, f"partial constructs examined for entry {e.name}")
    return res


def _same_module(a: str, b: str) -> bool:
    """two function qualnames of one module (an extracted helper keeps the table entry of the code it took along)"""
    def mod(q):
        parts = q.split(".")
        for i in range(len(parts), 0, -1):
            if parts[i - 1][:1].isupper() or parts[i - 1].startswith("<"):
                continue
        # module = everything before the first CapWord / function segment; approximated by the known module prefixes
        return q
    ma = a.rsplit(".", 1)[0]
    mb = b.rsplit(".", 1)[0]
    # strip a class segment
    def strip_cls(x):
        segs = x.split(".")
        while segs and (segs[-1][:1].isupper() or segs[-1] == "<locals>"):
            segs = segs[:-1]
        return ".".join(segs)
    return strip_cls(ma) == strip_cls(mb) or strip_cls(a) == strip_cls(mb) or strip_cls(ma) == strip_cls(b)


def _locals_of(f) -> frozenset:
    names = set(f.params)
    for n in own_nodes(f.node):
        if isinstance(n, ast.Name) and isinstance(n.ctx, (ast.Store, ast.Del)):
            names.add(n.id)
        elif isinstance(n, ast.ExceptHandler) and n.name:
            names.add(n.name)
    return frozenset(names)


def _alpha(text: str, local_names) -> str:
    """the construct text with every local variable name replaced by `_`: a table entry must not depend on how a
    refactoring names its temporaries"""
    try:
        tree = ast.parse(text)
    except SyntaxError:
        return text

    class A(ast.NodeTransformer):
        def visit_Name(self, n: ast.Name):
            if n.id in local_names or n.id.startswith("_h"):
                return ast.copy_location(ast.Name(id="_", ctx=n.ctx), n)
            return n

    try:
        return ast.unparse(A().visit(tree))
    except Exception:
        return text


def _raise_signature(text: str):
    """(exception type, the long literal pieces of its message) of a `raise X(<message>)` statement; None for anything else.
    How the message interpolates its values (f-string, .format, a helper) is not part of the identity of a raise."""
    try:
        st = ast.parse(text).body[0]
    except Exception:
        return None
    if not isinstance(st, ast.Raise) or not isinstance(st.exc, ast.Call) or not st.exc.args:
        return None
    m = st.exc.args[0]
    if isinstance(m, ast.Call) and isinstance(m.func, ast.Attribute) and m.func.attr == "format":
        m = m.func.value
    pieces = []
    if isinstance(m, ast.Constant) and isinstance(m.value, str):
        import re as _re

        pieces = [x for x in _re.split(r"\{[^{}]*\}", m.value)]
    elif isinstance(m, ast.JoinedStr):
        pieces = [v.value for v in m.values if isinstance(v, ast.Constant) and isinstance(v.value, str)]
    else:
        return None
    longp = tuple(x.strip() for x in pieces if len(x.strip()) >= 12)
    if not longp:
        return None
    return (ast.unparse(st.exc.func), longp)


def _same_raise(a: str, b: str) -> bool:
    sa_, sb_ = _raise_signature(a), _raise_signature(b)
    return sa_ is not None and sa_ == sb_


_MOVED: Dict[str, str] = {}


def note_moved(p) -> None:
    """table entries name functions by their home in the reference tree; a function that was moved to another module and
    is imported back under the old name keeps its entries"""
    _MOVED.clear()
    for d in EXC_DISCHARGE:
        q = d["fn"]
        if q not in p.functions and q not in _MOVED:
            mv = p.moved(q)
            if mv is not None:
                _MOVED[q] = mv.qualname


def lookup_discharge(entry: str, fn: str, text: str, exc: str, kind: str = "", local_names=frozenset()) -> Optional[dict]:
    atext = None
    for d in EXC_DISCHARGE:
        dfn = _MOVED.get(d["fn"], d["fn"])
        if "kind" in d:
            if d["kind"] != kind or not (dfn == fn or _same_module(dfn, fn)):
                continue
        elif not (dfn == fn or _same_module(dfn, fn)):
            continue
        elif d["text"] != text:
            if atext is None:
                atext = _alpha(text, local_names)
            if _alpha(d["text"], local_names) != atext and not _same_raise(d["text"], text):
                continue
        if d.get("exc") not in (None, "*", exc):
            continue
        ents = d.get("entries")
        if ents is not None and entry not in ents:
            continue
        return d
    return None


def _short(q: str) -> str:
    parts = q.split(".")
    return ".".join(parts[-3:]) if len(parts) > 3 else q


def _clip(s: str, n: int = 80) -> str:
    s = " ".join(s.split())
    return s if len(s) <= n else s[: n - 3] + "..."
