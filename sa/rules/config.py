"""Configuration rules on the folded tables (DESIGN.md 3.2, last row) and the code that loads them.
R-FIRST R-SEGSHAPE R-PREFIX R-PATSUP R-KEYTYPES R-ROOT R-IDEM R-MAPINJ R-SEGAMB R-LITERAL R-CTOR.
Serve C01 C03 C05 C06 C11 C13 C20."""
from __future__ import annotations

import ast
import copy
import re
from typing import Any, Dict, List, Optional, Set, Tuple

from ..cfg import cfg_of
from ..context import Ctx
from ..dataflow import flow_of
from ..program import AnalysisError, dotted, norm, own_nodes
from ..report import RuleResult
from .. import templates as T
from . import conds


# ------------------------------------------------------------------------------------------------
def sid_tables(ctx: Ctx) -> Dict[str, Any]:
    c = getattr(ctx, "_sid_tables", None)
    if c is None:
        conf = ctx.conf
        explicit = conf.sid_value("sid_templates", dict)
        to_ex = conf.sid_value("to_extrapolate", list)
        sep = "__"
        extrapolated = T.ref_extrapolate(explicit, to_ex, sep)
        final = dict(extrapolated)
        T.ref_pattern_replacing(final, conf.sid_value("key_patterns", dict))
        c = {"explicit": explicit, "to_extrapolate": to_ex, "extrapolated": extrapolated, "final": final,
             "key_types": conf.sid_value("key_types", dict), "leaf_keys": conf.sid_value("leaf_keys", dict),
             "extension_alias": conf.sid_value("extension_alias", dict)}
        ctx._sid_tables = c
    return c


def fs_tables(ctx: Ctx) -> Dict[str, Dict[str, Dict[str, Any]]]:
    """first-loaded configuration -> configuration name -> environment (templates pattern-replaced)"""
    c = getattr(ctx, "_fs_tables", None)
    if c is None:
        c = {}
        for first in ctx.conf.path_configs:
            c[first] = ctx.conf.fs_envs(first)
        ctx._fs_tables = c
    return c


def _default_order(ctx: Ctx) -> Dict[str, Dict[str, Any]]:
    first = list(ctx.conf.path_configs)[0]
    return fs_tables(ctx)[first]


# ------------------------------------------------------------------------------------------------
def rule_first(ctx: Ctx) -> RuleResult:
    """first match in configuration order; a 'type:' prefix forces that one template"""
    res = RuleResult("R-FIRST")
    p = ctx.p
    # (a) sid_to_dict
    f = p.function("spil.sid.core.sid_resolver.sid_to_dict")
    flow = flow_of(f.node)
    params = f.params
    res.require(len(params) >= 2, "sid_to_dict lost its (sid, _type) signature")
    sid_p, type_p = params[0], params[1]
    calls = {"resolve_first": [], "resolve_one": []}
    for n in own_nodes(f.node):
        if isinstance(n, ast.Call) and isinstance(n.func, ast.Attribute) and n.func.attr in calls:
            calls[n.func.attr].append(n)
    ok = True
    why = []
    if len(calls["resolve_first"]) != 1 or len(calls["resolve_one"]) != 1:
        ok = False
        why.append("expected exactly one resolve_first and one resolve_one call")
    else:
        rf, ro = calls["resolve_first"][0], calls["resolve_one"][0]
        if [norm(a) for a in rf.args] != [sid_p]:
            ok = False
            why.append(f"resolve_first is called with {[norm(a) for a in rf.args]}, expected ({sid_p})")
        if [norm(a) for a in ro.args] != [sid_p, type_p]:
            ok = False
            why.append(f"resolve_one is called with {[norm(a) for a in ro.args]}, expected ({sid_p}, {type_p})")
        for c in (rf, ro):
            recv = c.func.value
            src = flow.depends(recv)
            if not any(a.kind == "call" and a.text.endswith("Resolver.get") for a in src) or not any(
                    a.kind == "const" and a.text == "'sid'" for a in src):
                ok = False
                why.append(f"`{norm(c)}` is not called on Resolver.get('sid')")
        cfg = cfg_of(f.node)
        tests = ctx.ef._dominating_tests(cfg, ro)
        if not any(norm(t) == type_p and lab == "true" for t, lab in tests):
            ok = False
            why.append("resolve_one is not under `if _type`")
        tests = ctx.ef._dominating_tests(cfg, rf)
        if not any(norm(t) == type_p and lab == "false" for t, lab in tests):
            ok = False
            why.append("resolve_first is not on the else-branch of `if _type`")
    if ok:
        res.ok("sid_to_dict", "typed: Resolver.get('sid').resolve_one(sid, _type); untyped: resolve_first(sid)")
    else:
        res.violation(["spil.sid.core.sid_resolver.sid_to_dict", "resolver dispatch"], "sid_to_dict: " + "; ".join(why), f.relpath, f.node.lineno)
    # the untyped pair
    from ..shape import facts_at

    rets = [n for n in own_nodes(f.node) if isinstance(n, ast.Return)]
    none_rets = [r for r in rets if isinstance(r.value, ast.Tuple) and all(isinstance(e, ast.Constant) and e.value is None for e in r.value.elts)]
    full = [r for r in rets if isinstance(r.value, ast.Tuple) and len(r.value.elts) == 2 and not all(
        isinstance(e, ast.Constant) for e in r.value.elts)]
    data_var = None
    for r in full:
        if isinstance(r.value.elts[1], ast.Name):
            data_var = r.value.elts[1].id
    if none_rets and len(full) == 1 and data_var and (data_var, True) in facts_at(ctx, f, full[0]):
        res.ok("sid_to_dict returns", "(template, data) only when the resolved data is non-empty, else (None, None)")
    else:
        res.violation(["spil.sid.core.sid_resolver.sid_to_dict", "untyped pair"], "sid_to_dict can return a type with empty data, or no longer "
                                                                                  "answers (None, None) for an unresolved string", f.relpath, f.node.lineno)

    # no answer before the resolver was asked: an exit that does not pass a resolve call is a filter of its own in front of
    # the templates (the templates alone say what is typed)
    if len(calls["resolve_first"]) == 1 and len(calls["resolve_one"]) == 1:
        cfg = cfg_of(f.node)
        asked = [cfg.node_of(c).id for c in (calls["resolve_first"][0], calls["resolve_one"][0]) if cfg.node_of(c) is not None]
        early = [r for r in rets if cfg.node_of(r) is not None and cfg.path_exists(cfg.entry.id, cfg.node_of(r).id, avoid=asked, exceptional=False)]
        if early:
            res.violation([f.qualname, "answer before the resolver"], f"sid_to_dict: `{norm(early[0])}` can be reached without asking the resolver: "
                                                                      f"strings are sorted out by something other than the templates", f.relpath, early[0].lineno)
        else:
            res.ok("sid_to_dict exits", f"all {len(rets)} returns come after resolve_first / resolve_one")

    # (a') the fields direction: dict_to_sid formats with the given type when there is one, else with the first fitting
    # template; dict_to_type answers the first fitting type (configuration order) unless all are asked for
    from ..shape import facts_at as _fa

    d2s = p.function("spil.sid.core.sid_resolver.dict_to_sid")
    tp = d2s.params[1] if len(d2s.params) > 1 else "_type"
    for n in own_nodes(d2s.node):
        if isinstance(n, ast.Call) and isinstance(n.func, ast.Attribute) and n.func.attr in ("format_one", "format_first"):
            fs = _fa(ctx, d2s, n)
            want = n.func.attr == "format_one"
            if (tp, want) in fs and (n.func.attr == "format_first" or (len(n.args) == 2 and norm(n.args[1]) == tp)):
                res.ok(f"dict_to_sid: `{norm(n)}`", f"under `{tp}` {'given' if want else 'not given'}")
            else:
                res.violation([d2s.qualname, n.func.attr, "dispatch"], f"dict_to_sid: `{norm(n)}` is not on the `{tp}` "
                                                                       f"{'given' if want else 'not given'} side: a forced type is ignored or a missing "
                                                                       f"one is used", d2s.relpath, n.lineno)
    d2t = p.function("spil.sid.core.sid_resolver.dict_to_type")
    allp = d2t.params[1] if len(d2t.params) > 1 else "all"
    firsts = 0
    for r_ in [n for n in own_nodes(d2t.node) if isinstance(n, ast.Return) and n.value is not None]:
        v_ = r_.value
        if isinstance(v_, ast.Subscript):
            firsts += 1
            idx_ok = norm(v_.slice) == "0"
            if idx_ok and (allp, True) not in _fa(ctx, d2t, r_):
                res.ok(f"dict_to_type: `{norm(r_)}`", "the first fitting type, in configuration order")
            else:
                res.violation([d2t.qualname, norm(r_), "not the first type"], f"dict_to_type: `{norm(r_)}` is not the first fitting type when a single "
                                                                            f"one is asked for", d2t.relpath, r_.lineno)
    res.floor(firsts, 1, "single-type returns of dict_to_type")
    # (b) sid_to_sid: the uri branch forces the prefix type, the plain branch passes no type
    g = p.function("spil.sid.core.sid_factory.sid_to_sid")
    gflow = flow_of(g.node)
    gcfg = cfg_of(g.node)
    s2d_calls = [n for n in own_nodes(g.node) if isinstance(n, ast.Call) and (dotted(n.func) or "").endswith("sid_to_dict")]
    res.floor(len(s2d_calls), 1, "sid_to_dict calls in sid_to_sid")
    for c in s2d_calls:
        tests = ctx.ef._dominating_tests(gcfg, c)
        uri = [(t, lab) for t, lab in tests if any(isinstance(x, ast.Constant) and x.value == ":" for x in ast.walk(t))]
        # `head, sep, tail = s.partition(':')` ... `if sep:` is the same test
        for t, lab in tests:
            if isinstance(t, ast.Name):
                du = _unpack_def(gflow, t, gflow.node_of(t).id if gflow.node_of(t) is not None else gflow.node_of(c).id)
                if du is not None and du.index == 1 and isinstance(du.value, ast.Call) and isinstance(du.value.func, ast.Attribute) \
                        and du.value.func.attr == "partition" and du.value.args and norm(du.value.args[0]) == "':'":
                    uri.append((t, lab))
        if not uri and _merged_uri_call(ctx, g, gflow, gcfg, c):
            res.ok("sid_to_sid (one call)", "sid_to_dict(<rest>, <prefix or None>): the type is the uri prefix when there is one, else None")
            continue
        if not uri:
            res.violation([g.qualname, norm(c), "uri test"], f"sid_to_sid: `{norm(c)}` is not under the uri (':') test", g.relpath, c.lineno)
            continue
        lab = uri[-1][1]
        # the sense of the test, not its spelling: is "':' in <string>" known to hold here?
        fs_ = _fa(ctx, g, c)
        if any(t_.startswith("':' in ") and tr_ for t_, tr_ in fs_):
            lab = "true"
        elif any(t_.startswith("':' in ") and not tr_ for t_, tr_ in fs_):
            lab = "false"
        if lab == "true":
            good = len(c.args) == 2 and not c.keywords
            if good:
                def _through_alias(e_):
                    # `string = tail`: one plain copy of a name is looked through
                    if isinstance(e_, ast.Name):
                        ds_ = gflow.defs_reaching(gflow.node_of(c).id, e_.id)
                        if len(ds_) == 1 and ds_[0].kind == "assign" and isinstance(ds_[0].value, ast.Name):
                            return ds_[0].value, ds_[0].node
                    return e_, gflow.node_of(c).id
                a1, at1 = _through_alias(c.args[1])
                a0, at0 = _through_alias(c.args[0])
                d = _unpack_def(gflow, a1, at1)
                d0 = _unpack_def(gflow, a0, at0)
                good = d is not None and d0 is not None and d.value is d0.value and isinstance(d.value, ast.Call) \
                    and isinstance(d.value.func, ast.Attribute) and norm(d.value.args[0]) == "':'" and (
                        (d.value.func.attr == "split" and (d.index, d0.index) == (0, 1)) or (d.value.func.attr == "partition" and (d.index, d0.index) == (0, 2)))
            if good:
                res.ok("sid_to_sid uri branch", "sid_to_dict(<rest>, <prefix>) with prefix, rest = string.split(':', 1)")
            else:
                res.violation([g.qualname, norm(c), "forced type"], f"sid_to_sid: in the uri branch `{norm(c)}` does not force the "
                                                                    f"prefix type on the remainder", g.relpath, c.lineno)
        else:
            if len(c.args) == 1 and not c.keywords:
                res.ok("sid_to_sid plain branch", "sid_to_dict(<string>) : natural first-match typing")
            else:
                res.violation([g.qualname, norm(c), "natural typing"], f"sid_to_sid: the plain branch passes a type (`{norm(c)}`)", g.relpath, c.lineno)
    # the '?' query is put aside before the uri prefix is looked for (a ':' inside a query value is not a uri separator)
    qtests = [t for t in gcfg.nodes if t.kind == "test" and isinstance(t.ast, ast.If) and any(
        isinstance(x, ast.Constant) and x.value == "?" for x in ast.walk(t.ast.test))]
    utests = [t for t in gcfg.nodes if t.kind == "test" and isinstance(t.ast, ast.If) and any(
        isinstance(x, ast.Constant) and x.value == ":" for x in ast.walk(t.ast.test))]
    if qtests and utests:
        if any(gcfg.path_exists(u.id, q_.id, exceptional=False) for u in utests for q_ in qtests):
            res.violation([g.qualname, "uri before query"], "sid_to_sid looks for the 'type:' prefix before it puts the '?query' aside: a ':' in a "
                                                            "query value is taken for a uri separator", g.relpath, utests[0].lineno)
        else:
            res.ok("sid_to_sid order", "the query is split off before the uri prefix is looked for")
    # the string stored is the input remainder, unchanged
    # (c) sid_conf_load: extrapolate -> pattern_replacing -> Resolver('sid', ...) on the same table, no re-ordering
    m = p.module("spil.conf.sid_conf_load")
    seq = []
    for st in m.toplevel:
        for n in ast.walk(st) if not isinstance(st, (ast.FunctionDef, ast.ClassDef)) else []:
            if isinstance(n, ast.Call):
                nm = (dotted(n.func) or "").split(".")[-1]
                if nm in ("extrapolate_templates", "pattern_replacing", "Resolver"):
                    seq.append((nm, n, st))
    names = [x[0] for x in seq]
    if names != ["extrapolate_templates", "pattern_replacing", "Resolver"]:
        res.violation([m.name, "load sequence"], f"sid_conf_load: expected extrapolate_templates, pattern_replacing, Resolver in this order, "
                                                 f"found {names}", m.relpath, 1)
    else:
        ex_call, ex_st = seq[0][1], seq[0][2]
        pr_call = seq[1][1]
        rs_call = seq[2][1]
        var = ex_st.targets[0].id if isinstance(ex_st, ast.Assign) and isinstance(ex_st.targets[0], ast.Name) else None
        problems = []
        if var is None:
            problems.append("the extrapolated table is not bound to a name")
        else:
            if not (pr_call.args and norm(pr_call.args[0]) == var):
                problems.append(f"pattern_replacing is not applied to `{var}`")
            if not (len(rs_call.args) >= 2 and norm(rs_call.args[1]) == var):
                problems.append(f"the resolver is not built from `{var}` itself (`{norm(rs_call.args[1]) if len(rs_call.args) > 1 else '?'}`): "
                                f"configuration order may be lost")
            if not (isinstance(rs_call.args[0], ast.Constant) and rs_call.args[0].value == "sid"):
                problems.append("the resolver id is not 'sid'")
            later = [b for b in m.bindings.get(var, []) if b.index > m.toplevel.index(ex_st)]
            if later:
                problems.append(f"`{var}` is re-assigned after extrapolation")
            if not (ex_call.args and norm(ex_call.args[0]) == var):
                problems.append("extrapolate_templates does not receive the configured sid_templates")
        if problems:
            res.violation([m.name, "load sequence"], "sid_conf_load: " + "; ".join(problems), m.relpath, rs_call.lineno)
        else:
            res.ok("sid_conf_load", f"`{var}` = extrapolate_templates(...) ; pattern_replacing({var}, ...) ; Resolver('sid', {var}, ...): "
                                    f"one table, configuration order kept")
    # (d) resolva.resolve_first returns inside an ordered loop over the compiled templates
    rf = p.function("resolva.resolver.Resolver.resolve_first")
    loops = [n for n in own_nodes(rf.node) if isinstance(n, ast.For)]
    good = len(loops) == 1 and norm(loops[0].iter) == "self._regexes.items()" and any(isinstance(x, ast.Return) for x in ast.walk(loops[0]))
    init = p.function("resolva.resolver.Resolver.__init__")
    built = any(isinstance(n, ast.Assign) and norm(n.targets[0]) == "self._regexes" and isinstance(n.value, ast.DictComp)
                and norm(n.value.generators[0].iter) == "patterns.items()" for n in own_nodes(init.node))
    if good and built:
        res.ok("resolva.Resolver.resolve_first", "iterates the compiled templates in insertion order and returns at the first match")
    else:
        res.violation(["resolva.resolver.Resolver.resolve_first", "ordered first match"], "resolve_first is not an ordered first-match loop "
                                                                                          "over the templates", rf.relpath, rf.node.lineno)
    return res


def _merged_uri_call(ctx: Ctx, g, gflow, gcfg, c: ast.Call) -> bool:
    """sid_to_dict(string, _type) outside the uri test, where _type is None unless the uri branch set it to the prefix"""
    if len(c.args) != 2 or c.keywords or not all(isinstance(a, ast.Name) for a in c.args):
        return False
    at = gflow.node_of(c).id
    tdefs = list(gflow.defs_reaching(at, c.args[1].id))
    sdefs = list(gflow.defs_reaching(at, c.args[0].id))
    unp = [d for d in tdefs if d.kind == "unpack"]
    rest = [d for d in tdefs if d.kind != "unpack"]
    if len(unp) != 1 or not rest:
        return False
    if not all(d.kind == "assign" and isinstance(d.value, ast.Constant) and d.value.value is None for d in rest):
        return False
    u = unp[0]
    if not (u.index == 0 and isinstance(u.value, ast.Call) and isinstance(u.value.func, ast.Attribute) and u.value.func.attr == "split"
            and u.value.args and norm(u.value.args[0]) == "':'"):
        return False
    # the string handed over is the remainder of that very split wherever the prefix was taken
    return any(d.kind == "unpack" and d.value is u.value and d.index == 1 for d in sdefs) or any(
        d.kind == "unpack" and d.index == 0 and any(x.kind == "unpack" and x.value is u.value and x.index == 1
                                                     for x in gflow.defs_reaching(d.node, c.args[0].id)) for d in sdefs)


def _unpack_def(flow, e: ast.AST, at: int):
    if not isinstance(e, ast.Name):
        return None
    ds = flow.defs_reaching(at, e.id)
    if len(ds) == 1 and ds[0].kind == "unpack":
        return ds[0]
    return None


# ------------------------------------------------------------------------------------------------
def rule_segshape(ctx: Ctx) -> RuleResult:
    res = RuleResult("R-SEGSHAPE")
    tabs = sid_tables(ctx)
    n = 0
    for typ, tpl in tabs["final"].items():
        segs = T.segments(tpl)
        bad = None
        for s in segs:
            if len(s) != 1 or s[0].kind != "ph":
                bad = f"segment {''.join(x.text for x in s)!r} is not exactly one placeholder"
                break
            lang = T.classify(s[0].expr)
            if lang.can_contain_sep:
                bad = f"placeholder {{{s[0].text}}} accepts '/' ({lang.raw})"
                break
        n += 1
        if bad:
            res.violation(["sid_templates", typ, "segment shape"], f"sid template '{typ}': {bad}: the number of '/'-separated segments no "
                                                                   f"longer equals the number of placeholders", "spil_hamlet_conf/spil_sid_conf.py", 0)
        else:
            res.ok(f"sid template {typ}", f"{len(segs)} placeholders joined by '/', none accepting '/'")
    res.floor(n, 5, "sid templates")
    return res


def rule_prefix(ctx: Ctx) -> RuleResult:
    """every '/'-prefix of every template is the template of some type (R-PREFIX), with compatible
    placeholder languages (R-PATSUP)"""
    res = RuleResult("R-PREFIX")
    tabs = sid_tables(ctx)
    final = tabs["final"]
    by_tpl: Dict[str, str] = {}
    for t, tpl in final.items():
        by_tpl.setdefault(tpl, t)
    names_by_keys: Dict[Tuple[str, ...], List[str]] = {}
    for t, tpl in final.items():
        names_by_keys.setdefault(tuple(T.placeholders(tpl)), []).append(t)
    n = 0
    for typ, tpl in final.items():
        segs = tpl.split("/")
        # templates are placeholders joined by '/' (R-SEGSHAPE), expressions contain no '/'
        for k in range(1, len(segs)):
            prefix = "/".join(segs[:k])
            n += 1
            if prefix in by_tpl:
                res.ok(f"{typ}[:{k}]", f"owned by type '{by_tpl[prefix]}'", nontrivial=k > 1)
                continue
            keys = tuple(T.placeholders(prefix))
            cands = names_by_keys.get(keys, [])
            sup = None
            for c in cands:
                cs = final[c].split("/")
                if all(_lang_superset(cs[i], segs[i]) for i in range(k)):
                    sup = c
                    break
            if sup:
                res.ok(f"{typ}[:{k}]", f"accepted by type '{sup}' (same keys, each pattern at least as wide) [R-PATSUP]")
            else:
                res.violation(["sid_templates", typ, f"prefix {k}", "/".join(keys)],
                              f"type '{typ}': no type owns the {k}-segment prefix ({'/'.join(keys)}); parent / get_as of such a Sid "
                              f"falls out of the hierarchy", "spil_hamlet_conf/spil_sid_conf.py", 0)
    res.floor(n, 20, "template prefixes")
    return res


def _lang_superset(wide_seg: str, narrow_seg: str) -> bool:
    pw, pn = T.parse_template(wide_seg), T.parse_template(narrow_seg)
    if len(pw) != 1 or len(pn) != 1 or pw[0].text != pn[0].text:
        return False
    if pw[0].expr == pn[0].expr:
        return True
    lw, ln = T.classify(pw[0].expr), T.classify(pn[0].expr)
    if lw.kind == "open":
        return True
    if lw.kind == "other" or ln.kind in ("other", "open"):
        return False
    return set(ln.words) <= set(lw.words) and set(ln.shapes) <= set(lw.shapes) and set(ln.symbols) <= set(lw.symbols)


def rule_keytypes(ctx: Ctx) -> RuleResult:
    res = RuleResult("R-KEYTYPES")
    tabs = sid_tables(ctx)
    kt = tabs["key_types"]
    n = 0
    for typ, tpl in tabs["final"].items():
        base = typ.split("__")[0]
        keys = T.placeholders(tpl)
        n += 1
        if base not in kt:
            res.violation(["key_types", base, "missing"], f"basetype '{base}' (type '{typ}') has no key_types entry: a Sid built from a path "
                                                          f"of that type cannot order its fields", "spil_hamlet_conf/spil_sid_conf.py", 0)
            continue
        order = [k for k in kt[base] if k in keys]
        if order != keys or set(keys) - set(kt[base]):
            res.violation(["key_types", base, typ, "order"], f"key_types['{base}'] = {kt[base]} does not list the keys of '{typ}' {keys} in "
                                                             f"template order: fields of a Sid built from a path come out wrong",
                          "spil_hamlet_conf/spil_sid_conf.py", 0)
        else:
            res.ok(f"key_types[{base}] vs {typ}", "lists every key of the template, in template order")
    for name, env in _default_order(ctx).items():
        for typ, tpl in env["path_templates"].items():
            base = typ.split("__")[0]
            keys = set(T.placeholders(tpl))
            n += 1
            if base not in kt or keys - set(kt[base]):
                res.violation(["key_types", base, typ, f"path configuration {name}"],
                              f"path template '{typ}' ({name}) uses keys {sorted(keys - set(kt.get(base, [])))} that key_types['{base}'] does "
                              f"not list: path_to_dict silently drops them", env_file(name, ctx), 0)
            else:
                # the path type must be a sid type with the same key set
                st = tabs["final"].get(typ)
                if st is None:
                    res.violation(["path_templates", name, typ, "no sid type"], f"path template '{typ}' ({name}) has no sid template of that "
                                                                               f"name", env_file(name, ctx), 0)
                elif set(T.placeholders(st)) != keys:
                    res.violation(["path_templates", name, typ, "key set"],
                                  f"path template '{typ}' ({name}) has keys {sorted(keys)} but the sid template has "
                                  f"{sorted(T.placeholders(st))}", env_file(name, ctx), 0)
                else:
                    res.ok(f"path template {name}:{typ}", "same key set as the sid template; keys listed in key_types")
    res.floor(n, 30, "templates checked against key_types")
    return res


def env_file(name: str, ctx: Ctx) -> str:
    mod = ctx.conf.path_configs.get(name)
    m = ctx.p.modules.get(mod)
    return m.relpath if m else ""


# ------------------------------------------------------------------------------------------------
def rule_root_idem(ctx: Ctx) -> RuleResult:
    """R-ROOT: path configurations are the same tables up to the root.  R-IDEM: the tables do not depend on
    which configuration is instantiated first."""
    res = RuleResult("R-ROOT")
    tables = fs_tables(ctx)
    names = list(ctx.conf.path_configs)
    res.floor(len(names), 2, "path configurations")
    base_order = tables[names[0]]
    # R-IDEM
    for first in names[1:]:
        other = tables[first]
        for n in names:
            a, b = base_order[n]["path_templates"], other[n]["path_templates"]
            if a != b:
                diff = [t for t in a if a.get(t) != b.get(t)] + [t for t in b if t not in a]
                res.violation(["path_templates", n, "load order", f"{names[0]} vs {first}"],
                              f"the templates of path configuration '{n}' differ depending on whether '{names[0]}' or '{first}' is "
                              f"instantiated first (e.g. type '{diff[0]}'): answers depend on call history", env_file(n, ctx), 0)
            else:
                res.ok(f"path configuration {n}: '{names[0]}' first vs '{first}' first", f"{len(a)} templates identical")
    # R-ROOT
    ref_name = names[0]
    ref = base_order[ref_name]
    for n in names[1:]:
        env = base_order[n]
        a, b = ref["path_templates"], env["path_templates"]
        if list(a.keys()) != list(b.keys()):
            res.violation(["path_templates", n, "type set"], f"path configurations '{ref_name}' and '{n}' define different types (or a different "
                                                             f"order)", env_file(n, ctx), 0)
            continue
        roots = set()
        bad = None
        import re as _re

        def _canon(tpl: str) -> str:
            # a placeholder without expression is resolva's default `[^/]*`: `{asset}` and `{asset:[^/]*}` are one template
            return _re.sub(r"\{(\w+)\}", r"{\1:[^/]*}", tpl)

        for t in a:
            ta, tb = _canon(a[t]), _canon(b[t])
            i = 0
            while i < min(len(ta), len(tb)) and ta[-1 - i] == tb[-1 - i]:
                i += 1
            ra, rb = ta[: len(ta) - i], tb[: len(tb) - i]
            if "{" in ra or "{" in rb:
                bad = (t, ra, rb)
                break
            roots.add((ra, rb))
        if bad:
            res.violation(["path_templates", n, bad[0], "beyond the root"], f"type '{bad[0]}': configurations '{ref_name}' and '{n}' differ beyond "
                                                                           f"the root", env_file(n, ctx), 0)
        elif len(roots) != 1:
            res.violation(["path_templates", n, "several roots"], f"'{ref_name}' and '{n}' do not differ by one constant root: {sorted(roots)[:3]}",
                          env_file(n, ctx), 0)
        else:
            ra, rb = list(roots)[0]
            res.ok(f"path configurations {ref_name} / {n}", f"{len(a)} templates identical up to the root ({ra!r} vs {rb!r})")
            if ra == rb:
                res.violation(["path_templates", n, "same root"], f"'{ref_name}' and '{n}' have the same root: they are not two file systems",
                              env_file(n, ctx), 0)
        for tab in ("path_mapping", "path_defaults", "extrakeys_to_sidkeys", "sidkeys_to_extrakeys", "search_path_mapping"):
            if ref.get(tab) != env.get(tab):
                res.violation([tab, n, "differs"], f"'{tab}' differs between '{ref_name}' and '{n}'", env_file(n, ctx), 0)
            else:
                res.ok(f"{tab}: {ref_name} / {n}", "identical")
    return res


def rule_mapinj(ctx: Ctx) -> RuleResult:
    res = RuleResult("R-MAPINJ")
    n = 0
    found = []
    for name, env in _default_order(ctx).items():
        pm = ctx.conf.need(env, "path_mapping", dict, f"in path configuration {name}")
        for key, mapping in pm.items():
            n += 1
            vals = list(mapping.values())
            dup = sorted({v for v in vals if vals.count(v) > 1})
            if dup:
                ks = [k for k, v in mapping.items() if v in dup]
                # not a violation by itself: a path spelled with the second name does not format back to itself and is
                # rejected by the re-format comparison (R-REFORMAT lists these tables among what it discharges)
                found.append((name, key, ks))
                res.note(f"path_mapping[{key!r}] ({name})", f"{ks} map onto the same value {dup}; only the first spelling is a conform path "
                                                              f"(enforced by R-REFORMAT)")
            else:
                res.ok(f"path_mapping[{key!r}] ({name})", f"one-to-one ({len(mapping)} pairs)")
    res.floor(n, 2, "mappings")
    res._found = found
    return res


def rule_segamb(ctx: Ctx) -> RuleResult:
    """in every path segment at most one placeholder may contain the literal text that separates the
    placeholders of that segment"""
    res = RuleResult("R-SEGAMB")
    n = 0
    for name, env in _default_order(ctx).items():
        for typ, tpl in env["path_templates"].items():
            for seg in T.segments(tpl):
                phs = [p for p in seg if p.kind == "ph"]
                if len(phs) < 2:
                    continue
                n += 1
                seps = {ch for p in seg if p.kind == "lit" for ch in p.text}
                risky = []
                for p in phs:
                    lang = T.classify(p.expr)
                    if lang.kind == "open" or (lang.kind == "other" and T.may_contain(p.expr, sorted(seps))):
                        risky.append(p.text)
                    elif any(ch in w for w in lang.words for ch in seps) or any(ch in pre for pre, _ in lang.shapes for ch in seps):
                        risky.append(p.text)
                if len(risky) > 1:
                    res.violation(["path_templates", name, typ, "".join(x.text if x.kind == "lit" else "{" + x.text + "}" for x in seg)],
                                  f"path template '{typ}' ({name}): placeholders {risky} of one segment can all contain the separating "
                                  f"text {sorted(seps)}: the segment parses ambiguously and path -> Sid -> path is not the identity",
                                  env_file(name, ctx), 0)
                else:
                    res.ok(f"{name}:{typ} segment {''.join(x.text if x.kind == 'lit' else '{' + x.text + '}' for x in seg)}",
                           f"at most one placeholder ({risky or 'none'}) may contain {sorted(seps)}")
    res.floor(n, 4, "multi-placeholder path segments")
    return res


@conds.cond("path_segments_unambiguous")
def _cond_segamb(ctx: Ctx):
    r = rule_segamb(ctx)
    if r.findings:
        return False, r.findings[0].message
    return True, f"{len(r.instances)} multi-placeholder segments, each with at most one open placeholder"


def rule_literal(ctx: Ctx) -> RuleResult:
    """literal text of a path template enters resolva's regular expression unescaped: a regex
    metacharacter there makes the template accept paths it can never produce"""
    res = RuleResult("R-LITERAL")
    n = 0
    found = []
    for name, env in _default_order(ctx).items():
        for typ, tpl in env["path_templates"].items():
            n += 1
            metas = sorted({ch for lit, ch in T.literal_metachars(tpl) if not lit.startswith("$REPO")})
            # the root is also literal text
            if metas:
                found.append((name, typ, metas))
    res.floor(n, 10, "path templates")
    res._found = found  # consumed by R-REFORMAT (C06)
    if found:
        kinds = sorted({m for _, _, ms in found for m in ms})
        res.note("path templates with regex metacharacters in literal text",
                 f"{len(found)} templates contain {kinds} unescaped (e.g. {found[0][0]}:{found[0][1]}); harmless only while "
                 f"Sid(path=) verifies the re-formatted path (R-REFORMAT)")
    else:
        res.ok("path templates", "no regex metacharacter in literal text")
    return res


# ------------------------------------------------------------------------------------------------
def _resolva_regex(tpl: str) -> Tuple[str, List[str]]:
    """the regular expression resolva builds for a template (text only; nothing is matched)"""
    counts: Dict[str, int] = {}
    names: List[str] = []

    def conv(m):
        name = m.group("placeholder")
        counts[name] = counts.get(name, 0) + 1
        names.append(name)
        expr = m.group("expression")
        if expr is None:
            expr = T.DEFAULT_EXPR
        expr = expr.replace("\\{", "{").replace("\\}", "}")
        return "(?P<{0}{1:03d}>{2})".format(name, counts[name], expr)

    rx = re.sub(r"{(?P<placeholder>.+?)(:(?P<expression>(\\}|.)+?))?}", conv, tpl)
    return "^" + rx + "$", names


@conds.cond("resolver_ctor_total")
def _cond_resolver_ctor(ctx: Ctx):
    import re._parser as sp  # type: ignore
    import string as _s

    tabs = sid_tables(ctx)
    sets = [("sid", tabs["final"])] + [(n, e["path_templates"]) for n, e in _default_order(ctx).items()]
    n = 0
    for rid, tpls in sets:
        for typ, tpl in tpls.items():
            text = tpl.replace("$REPO", "/repo")
            rx, names = _resolva_regex(text)
            n += 1
            for nm in names:
                if not nm.isidentifier():
                    return False, f"{rid}:{typ}: placeholder name {nm!r} is not a valid group name"
            try:
                sp.parse(rx)
            except Exception as e:
                return False, f"{rid}:{typ}: the regular expression does not parse: {e}"
            fmt = re.sub(r"{(.+?)(:(\\}|.)+?)}", r"{\g<1>}", text)
            a = set(re.findall(r"{(.+?)}", fmt))
            try:
                b = {t[1] for t in _s.Formatter().parse(fmt) if t[1] is not None}
            except ValueError as e:
                return False, f"{rid}:{typ}: format specification does not parse: {e}"
            if a != b:
                return False, f"{rid}:{typ}: key extraction disagrees: {sorted(a)} vs {sorted(b)}"
    return True, f"{n} templates: regular expression parses, group names valid, both key extractions agree"


@conds.cond("sid_resolver_no_dupcheck")
def _cond_sid_nodup(ctx: Ctx):
    m = ctx.p.module("spil.conf.sid_conf_load")
    found = False
    for st in m.toplevel:
        for n in ast.walk(st):
            if isinstance(n, ast.Call) and (dotted(n.func) or "").split(".")[-1] == "Resolver" and n.args \
                    and isinstance(n.args[0], ast.Constant) and n.args[0].value == "sid":
                kw = {k.arg: k.value for k in n.keywords}
                v = kw.get("check_duplicate_placeholders")
                if isinstance(v, ast.Constant) and v.value is False:
                    found = True
                else:
                    return False, "Resolver('sid', ...) is built with duplicate-placeholder checking on"
    if not found:
        return False, "Resolver('sid', ...) construction not found in sid_conf_load"
    for typ, tpl in sid_tables(ctx)["final"].items():
        ks = T.placeholders(tpl)
        if len(ks) != len(set(ks)):
            return False, f"sid template '{typ}' repeats a placeholder"
    # the functions on these chains use the 'sid' resolver
    for q in ("spil.sid.core.sid_resolver.sid_to_dict", "spil.sid.core.sid_resolver.sid_to_dicts",
              "spil.sid.core.sid_resolver.dict_to_sid", "spil.sid.core.sid_resolver.dict_to_type"):
        f = ctx.p.function(q)
        gets = [n for n in own_nodes(f.node) if isinstance(n, ast.Call) and (dotted(n.func) or "") == "Resolver.get"]
        if not gets or not all(g.args and isinstance(g.args[0], ast.Constant) and g.args[0].value == "sid" for g in gets):
            return False, f"{q} does not use Resolver.get('sid')"
    return True, "Resolver('sid', check_duplicate_placeholders=False); no sid template repeats a placeholder"


# ------------------------------------------------------------------------------------------------
def rule_disj(ctx: Ctx) -> RuleResult:
    """R-DISJ: within one resolver, a concrete string accepted by a template is accepted by no *earlier* template
    (resolve_first would answer with the earlier type: Sid -> path -> Sid, or Sid -> string -> Sid, changes type).
    Decided on the regular expressions resolva builds, by NFA product emptiness over an alphabet abstraction;
    search symbols are excluded (a concrete entity never carries them)."""
    from .. import nfa

    res = RuleResult("R-DISJ")
    forbidden = "*><,"
    sets = [(n, e["path_templates"], env_file(n, ctx)) for n, e in _default_order(ctx).items()]
    n_pairs = 0
    for rid, tpls, where in sets:
        names = list(tpls)
        rx = {}
        for t in names:
            rx[t] = _resolva_regex(tpls[t].replace("$REPO", "/repo"))[0]
        overlaps = []
        for i, a in enumerate(names):
            for b in names[i + 1:]:
                n_pairs += 1
                try:
                    w = nfa.witness_of_intersection(rx[a], rx[b], forbidden)
                except nfa.Unsupported as e:
                    raise AnalysisError(f"R-DISJ: template '{a}' or '{b}' of '{rid}' uses a construct outside the supported subset: {e}")
                if w is not None:
                    overlaps.append((a, b, w))
        if overlaps:
            for a, b, w in overlaps[:5]:
                res.violation(["path_templates", rid, a, b, "overlap"],
                              f"path configuration '{rid}': the concrete path {w!r} is accepted by template '{a}' and by the later "
                              f"template '{b}': a '{b}' Sid whose path looks like this comes back as '{a}'", where, 0)
        else:
            res.ok(f"path configuration {rid}", f"{len(names) * (len(names) - 1) // 2} template pairs: no concrete path is accepted by two templates")
    res.floor(n_pairs, 50, "template pairs compared")
    return res


def rule_sidamb(ctx: Ctx) -> RuleResult:
    """C03 'parent / last-value gives back the Sid' and C02 'rebuilding from the string': a typed Sid whose string an EARLIER
    sid template accepts as well cannot be rebuilt from its string (Sid(string) and `parent / value` answer with the earlier
    type).  Decided on the regular expressions of the final sid templates by NFA product emptiness; reported per group of
    templates that accept a common string, once for concrete strings and once for search strings ('*', '>')."""
    from .. import nfa

    res = RuleResult("R-SIDAMB")
    tabs = sid_tables(ctx)
    final = tabs["final"]
    names = list(final)
    rx = {}
    for t in names:
        rx[t] = _resolva_regex(final[t])[0]
    depth = {t: final[t].count("/") for t in names}
    n_pairs = 0
    concrete_shadowed: Set[str] = set()
    for kind, forbidden in (("concrete", "*><,"), ("search", ",")):
        shadowed: Dict[str, List[Tuple[str, str]]] = {}
        for i, a in enumerate(names):
            for b in names[i + 1:]:
                if depth[a] != depth[b]:
                    continue
                n_pairs += 1
                try:
                    w = nfa.witness_of_intersection(rx[a], rx[b], forbidden)
                except nfa.Unsupported as e:
                    raise AnalysisError(f"R-SIDAMB: sid template '{a}' or '{b}' uses a construct outside the supported subset: {e}")
                if w is not None:
                    shadowed.setdefault(b, []).append((a, w))
        if kind == "search":
            # one finding for the whole set of types whose search strings an earlier template accepts as well (search symbols are
            # accepted in every position of every hierarchy, so whole hierarchies shadow each other)
            only_search = {b: lst for b, lst in shadowed.items() if b not in concrete_shadowed}
            if only_search:
                b0 = sorted(only_search)[0]
                a0, w0 = only_search[b0][0]
                res.violation(["sid_templates", "search", ",".join(sorted(only_search))],
                              f"{len(only_search)} sid templates accept search strings that an earlier template accepts as well (e.g. "
                              f"'{b0}' and '{a0}' both accept {w0!r}): for such a search Sid `parent / value` and Sid(string) answer with the "
                              f"earlier type. Shadowed: {', '.join(sorted(only_search))}", "spil_hamlet_conf/spil_sid_conf.py", 0,
                              site="search strings shared between templates")
            else:
                res.ok("sid templates (search strings)", "no further template is shadowed for search strings")
            continue
        concrete_shadowed = set(shadowed)
        for b, lst in shadowed.items():
            a, w = lst[0]
            res.violation(["sid_templates", kind, b, a],
                          f"sid template '{b}' ({kind} strings): the string {w!r} is also accepted by the earlier template '{a}': a '{b}' Sid "
                          f"with this string is not given back by `parent / value` nor by Sid(string) (they answer '{a}')",
                          "spil_hamlet_conf/spil_sid_conf.py", 0, site=f"{b} vs {a} ({kind})")
        if not shadowed:
            res.ok(f"sid templates ({kind} strings)", "no template is shadowed by an earlier one")
    res.floor(n_pairs, 20, "same-depth sid template pairs compared")
    return res


def rule_deadpattern(ctx: Ctx) -> RuleResult:
    """C04 / C01: every pattern entry of key_patterns that names a placeholder of some type it selects takes effect on that type: an
    entry whose find-string was already consumed by an earlier group (selectors and pairs are applied in table order) is dead, and the
    values it was meant to constrain are accepted"""
    res = RuleResult("R-DEADPATTERN")
    tabs = sid_tables(ctx)
    kp = ctx.conf.sid_value("key_patterns", dict)
    n = 0
    for typ, template in tabs["extrapolated"].items():
        cur = template
        for selector, pairs in kp.items():
            if selector not in typ:
                continue
            for find, repl in pairs.items():
                if find in template:
                    n += 1
                    if find not in cur:
                        res.violation(["key_patterns", selector, find, typ], f"key_patterns['{selector}']['{find}'] never applies to type '{typ}': an earlier group "
                                                                             f"already replaced that placeholder, so the pattern `{str(repl)[:50]}` does not "
                                                                             f"constrain the values of this type", "spil_hamlet_conf/spil_sid_conf.py", 0)
                cur = cur.replace(find, repl)
    res.floor(n, 10, "pattern entries that name a placeholder of a selected type")
    res.ok("key_patterns", f"{n} (group, placeholder, type) entries: each finds its placeholder still unreplaced when its turn comes", nontrivial=False)
    return res


def rule_confshadow(ctx: Ctx) -> RuleResult:
    """C05 / C06 / C13: PathConfig copies every public member of its configuration module onto itself, after it has set its own
    attributes: a module-level name that is also one of those attributes replaces it - `name` is the key of the Resolver instance, so
    two configurations with the same stray `name` share whichever Resolver was built first"""
    res = RuleResult("R-CONFSHADOW")
    init = ctx.p.function("spil.sid.pathops.pathconfig.PathConfig.__init__")
    own = set()
    for n in own_nodes(init.node):
        if isinstance(n, (ast.Assign, ast.AnnAssign)):
            for t in (n.targets if isinstance(n, ast.Assign) else [n.target]):
                if isinstance(t, ast.Attribute) and isinstance(t.value, ast.Name) and t.value.id == "self":
                    own.add(t.attr)
    copies = any(isinstance(n, ast.Call) and dotted(n.func) == "setattr" and n.args and norm(n.args[0]) == "self" for n in own_nodes(init.node))
    if not copies:
        res.note("PathConfig.__init__", "does not copy module members with setattr any more: nothing to shadow")
        return res
    res.floor(len(own), 1, "attributes PathConfig sets itself")
    tabs = fs_tables(ctx)
    first = list(tabs)[0]
    n = 0
    for cname, env in tabs[first].items():
        n += 1
        clash = sorted(k for k in env.keys() if k in own)
        if clash:
            res.violation(["path configuration", cname, "shadowed attribute", clash[0]],
                          f"the module of path configuration '{cname}' has a module-level name `{clash[0]}` (a loop variable or constant left behind): "
                          f"PathConfig copies it over its own `self.{clash[0]}`" + (": the Resolver instances of the configurations are looked up by "
                                                                                   "that name and collapse into one" if clash[0] == "name" else ""),
                          env_file(cname, ctx), 0)
        else:
            res.ok(f"path configuration {cname}", f"no module-level name among {sorted(own)}")
    res.floor(n, 2, "path configurations")
    return res


def rule_leafkeys(ctx: Ctx) -> RuleResult:
    """C07 / C08 / C10: '**' completes a search to the leaf types of the root's basetype, `leaf_keys[basetype]` names the key they end in.
    Every basetype a root can have (the part of a type name before the separator, or the name itself) has an entry, and the entry is
    the last key of the deepest template that continues that basetype's own templates."""
    res = RuleResult("R-LEAFKEYS")
    tabs = sid_tables(ctx)
    final = tabs["final"]
    leaf = tabs["leaf_keys"]
    keys_of = {t: T.placeholders(tpl) for t, tpl in final.items()}
    basetypes = []
    for t in final:
        b = t.split("__")[0]
        if b not in basetypes:
            basetypes.append(b)
    n = 0
    for b in basetypes:
        own = [keys_of[t] for t in final if t.split("__")[0] == b]
        root = min(own, key=len)
        ext = [ks for ks in keys_of.values() if ks[:len(root)] == root]
        deepest = max(len(ks) for ks in ext)
        lasts = sorted({ks[-1] for ks in ext if len(ks) == deepest})
        n += 1
        if b not in leaf:
            res.violation(["leaf_keys", b, "missing"], f"leaf_keys has no entry for basetype '{b}': a '/**' right after a {b} root ends in an error "
                                                       f"instead of the leaf searches below it", "spil_hamlet_conf/spil_sid_conf.py", 0)
        elif len(lasts) == 1 and leaf[b] != lasts[0]:
            res.violation(["leaf_keys", b, str(leaf[b])], f"leaf_keys['{b}'] is '{leaf[b]}', but the deepest templates below a {b} root end in "
                                                          f"'{lasts[0]}': '/**' after such a root completes to the wrong level (or to nothing)",
                          "spil_hamlet_conf/spil_sid_conf.py", 0)
        else:
            res.ok(f"leaf_keys['{b}']", f"'{leaf[b]}': the last key of the deepest template ({deepest} keys) below a {b} root")
    res.floor(n, 2, "basetypes")
    return res


def _closed_alternatives(expr: Optional[str]) -> Optional[Set[str]]:
    """`(a|b|\\*|\\>)` -> {'a', 'b'}: the literal values of a closed vocabulary (search symbols left out); None if it is not one"""
    import re as _re

    if not expr:
        return None
    e = expr.strip()
    if e.startswith("(") and e.endswith(")"):
        e = e[1:-1]
    parts = e.split("|")
    out = set()
    for p_ in parts:
        if p_ in ("\\*", "\\>", "\\<"):
            continue
        if not _re.fullmatch(r"[A-Za-z0-9_\-]+", p_):
            return None
        out.add(p_)
    return out or None


def rule_constvocab(ctx: Ctx) -> RuleResult:
    """C11 / C12: a level that the data configuration answers from constants (FindInConstants(key, values)) lists exactly the values the
    Sid templates accept for that key: a value the templates know and the constants do not is an entity that exists, can be created and
    found by its own Sid, but is missing from every search over that level (children, siblings, '*')"""
    res = RuleResult("R-CONSTVOCAB")
    gf = ctx.p.function("spil_data_conf.get_finder_for")
    tabs = sid_tables(ctx)
    n = 0
    for c in own_nodes(gf.node):
        if not (isinstance(c, ast.Call) and (dotted(c.func) or "").split(".")[-1] == "FindInConstants" and len(c.args) >= 2):
            continue
        if not isinstance(c.args[0], ast.Constant):
            continue
        key = c.args[0].value
        vexpr = c.args[1]
        values = None
        if isinstance(vexpr, (ast.List, ast.Tuple)) and all(isinstance(e, ast.Constant) for e in vexpr.elts):
            values = [e.value for e in vexpr.elts]
        elif isinstance(vexpr, ast.Name):
            try:
                values = list(ctx.conf.sid_value(vexpr.id, list))
            except Exception:
                values = None
        if values is None:
            res.note(f"FindInConstants('{key}', {norm(vexpr)[:30]})", "values not a literal list / configured list: not compared")
            continue
        accepted: Set[str] = set()
        closed = True
        for t, tpl in tabs["final"].items():
            for p_ in T.parse_template(tpl):
                if p_.kind == "ph" and p_.text == key:
                    alts = _closed_alternatives(p_.expr)
                    if alts is None:
                        closed = False
                    else:
                        accepted |= alts
        n += 1
        if not closed or not accepted:
            res.note(f"FindInConstants('{key}', …)", "the templates do not restrict this key to a closed vocabulary")
            continue
        missing = sorted(accepted - set(values))
        extra = sorted(set(values) - accepted)
        if missing or extra:
            res.violation(["get_finder_for", "FindInConstants", key], f"FindInConstants('{key}', {values}) and the Sid templates disagree on the values of "
                                                                      f"'{key}': " + (f"{missing} accepted by the templates but not listed (such entities exist "
                                                                                      f"and are never found by a search over this level)" if missing else "")
                          + (f" {extra} listed but accepted by no template" if extra else ""), gf.relpath, c.lineno)
        else:
            res.ok(f"FindInConstants('{key}', …)", f"{sorted(values)} = the closed vocabulary of '{{{key}}}' in the Sid templates")
    res.floor(n, 3, "FindInConstants instances in get_finder_for")
    return res


def rule_aliasvalue(ctx: Ctx) -> RuleResult:
    """C07 / C09 / C12: an extension alias is itself a value the templates accept wherever they accept its members, so that a Sid written
    with the alias is typed (get_last / exists / children of such a Sid start from a typed Sid, and the search unfolds from it)"""
    import re as _re

    res = RuleResult("R-ALIASVALUE")
    tabs = sid_tables(ctx)
    alias = tabs["extension_alias"]
    leaf = set(tabs["leaf_keys"].values())
    n = 0
    for a, members in alias.items():
        for t, tpl in tabs["final"].items():
            for p_ in T.parse_template(tpl):
                if p_.kind != "ph" or p_.text not in leaf or not p_.expr:
                    continue
                try:
                    rx = _re.compile(p_.expr)
                except _re.error:
                    continue
                if members and all(rx.fullmatch(m_) for m_ in members):
                    n += 1
                    if not rx.fullmatch(a):
                        res.violation(["extension_alias", a, t], f"type '{t}' accepts {list(members)[:4]} for '{p_.text}' but not their alias '{a}': a Sid "
                                                                 f"written with the alias is untyped, so get_last / exists / children on it answer empty "
                                                                 f"although the search with the same alias finds entries", "spil_hamlet_conf/spil_sid_conf.py", 0)
    res.floor(n, 2, "(alias, type) pairs whose members the type accepts")
    res.ok("extension_alias", f"{n} (alias, type) pairs: the alias is accepted wherever all its members are", nontrivial=False)
    return res


def rule_keysetdisj(ctx: Ctx) -> RuleResult:
    """C02 / C04: types with the same keys are told apart by their values alone (Sid(fields=..) and a query take the first type that
    fits; a concrete Sid that fits two is refused by apply_query): no concrete string is accepted by two templates with identical keys"""
    from .. import nfa

    res = RuleResult("R-KEYSETDISJ")
    final = sid_tables(ctx)["final"]
    keys = {t: tuple(T.placeholders(tpl)) for t, tpl in final.items()}
    names = list(final)
    n = 0
    for i, a in enumerate(names):
        for b in names[i + 1:]:
            if keys[a] != keys[b]:
                continue
            n += 1
            try:
                w = nfa.witness_of_intersection(_resolva_regex(final[a])[0], _resolva_regex(final[b])[0], "*><,")
            except nfa.Unsupported as e:
                raise AnalysisError(f"R-KEYSETDISJ: sid template '{a}' or '{b}' uses a construct outside the supported subset: {e}")
            if w is not None:
                res.violation(["sid_templates", "same keys", a, b], f"sid templates '{a}' and '{b}' have the same keys and both accept the concrete string "
                                                                   f"{w!r}: the fields of such a Sid fit two types, so rebuilding it from fields / query "
                                                                   f"gives the first type or is refused as ambiguous", "spil_hamlet_conf/spil_sid_conf.py", 0)
            else:
                res.ok(f"{a} / {b}", "same keys, no common concrete string")
    res.floor(n, 4, "pairs of sid templates with identical keys")
    return res


def rule_deadtype(ctx: Ctx) -> RuleResult:
    """C01 / C11 / C15: no sid template is swallowed by an earlier one. If every segment of a later template accepts only values that
    the earlier template's segment accepts too, no string is ever given the later type: its entities are typed as the earlier one
    (which may have no path, other keys, another Finder)"""
    import re as _re

    res = RuleResult("R-DEADTYPE")
    final = sid_tables(ctx)["final"]
    names = list(final)

    def seg_exprs(tpl: str):
        out = []
        for seg in T.segments(tpl):
            if len(seg) == 1 and seg[0].kind == "ph":
                out.append(("ph", seg[0].expr))
            else:
                out.append(("mixed", "".join((p.text if p.kind == "lit" else "{" + p.text + ":" + str(p.expr) + "}") for p in seg)))
        return out

    def included(later, earlier) -> bool:
        kl, el = later
        ke, ee = earlier
        if kl != ke:
            return False
        if kl == "mixed":
            return el == ee
        if ee is None or ee in ("[^/]*", ".*", "[^/]+"):
            return True  # free segment
        if el == ee:
            return True
        al, ae = _closed_alternatives(el), _closed_alternatives(ee)
        return al is not None and ae is not None and al <= ae
    n = 0
    for i, a in enumerate(names):
        sa_ = seg_exprs(final[a])
        for b in names[i + 1:]:
            sb_ = seg_exprs(final[b])
            if len(sa_) != len(sb_):
                continue
            n += 1
            if all(included(x, y) for x, y in zip(sb_, sa_)):
                res.violation(["sid_templates", "swallowed", b, a], f"sid template '{b}' comes after '{a}', which accepts every string '{b}' accepts "
                                                                    f"(segment by segment): no string is ever typed '{b}'; its entities become '{a}' Sids",
                              "spil_hamlet_conf/spil_sid_conf.py", 0)
    res.floor(n, 20, "same-depth sid template pairs compared")
    res.ok("sid templates", f"{n} same-depth pairs: no later template is contained in an earlier one", nontrivial=False)
    return res


def rule_searchsym(ctx: Ctx) -> RuleResult:
    """C07 / C09 / C10: a search symbol ('*', '>') can stand at every position of every hierarchy: each placeholder expression of the
    final sid templates accepts both. A pattern that forgets one makes searches with that symbol at that level untypable - they are
    dropped as invalid and answered with nothing"""
    import re as _re

    res = RuleResult("R-SEARCHSYM")
    final = sid_tables(ctx)["final"]
    n = 0
    seen = set()
    for t, tpl in final.items():
        for p_ in T.parse_template(tpl):
            if p_.kind != "ph":
                continue
            expr = p_.expr if p_.expr is not None else T.DEFAULT_EXPR
            key = (p_.text, expr)
            if key in seen:
                continue
            seen.add(key)
            try:
                rx = _re.compile(expr)
            except _re.error:
                continue
            n += 1
            missing = [s_ for s_ in ("*", ">") if not rx.fullmatch(s_)]
            if missing:
                res.violation(["sid_templates", "search symbol", p_.text, expr], f"the pattern of '{{{p_.text}}}' (`{expr[:50]}`, e.g. in type '{t}') does not accept "
                                                                                 f"{missing}: a search with that symbol at the {p_.text} level fits no template, is "
                                                                                 f"dropped as invalid and answered with nothing", "spil_hamlet_conf/spil_sid_conf.py", 0)
            else:
                res.ok(f"{{{p_.text}:{expr[:30]}}}", "accepts '*' and '>'")
    res.floor(n, 8, "distinct placeholder expressions in the sid templates")
    return res
