"""C18 rules: R-FMT (formatter inside the configured version pattern), R-ROUTE (attribute routing),
R-GETNEW / R-GETLAST (composition and empty-Sid discipline)."""
from __future__ import annotations

import ast
import re
from typing import List, Optional, Tuple

from ..cfg import cfg_of
from ..context import Ctx
from ..dataflow import flow_of
from ..program import FunctionInfo, dotted, norm, own_nodes
from ..report import RuleResult
from .. import templates as T
from . import conds
from .config import sid_tables

NEXT = "hamlet_plugins.next_get.NextGetter.get_attr"


def _rets(f):
    return [n for n in own_nodes(f.node) if isinstance(n, ast.Return)]


def _is_empty_sid(e) -> bool:
    return isinstance(e, ast.Call) and dotted(e.func) == "Sid" and not e.args and not e.keywords


def _version_langs(ctx: Ctx) -> List[T.Lang]:
    out = []
    for typ, tpl in sid_tables(ctx)["final"].items():
        for p in T.parse_template(tpl):
            if p.kind == "ph" and p.text == "version":
                out.append(T.classify(p.expr))
    return out


def _format_shape(ctx: Ctx, f: FunctionInfo) -> Optional[Tuple[str, int]]:
    """('v', 3) for  "v" + str("%03d" % version)  /  f"v{version:03d}"  /  "v" + str(version).zfill(3)"""
    flow = flow_of(f.node)
    for c in own_nodes(f.node):
        if isinstance(c, ast.Call) and isinstance(c.func, ast.Attribute) and c.func.attr == "get_with":
            for k in c.keywords:
                if k.arg == "version":
                    at = flow.node_of(c)
                    e = k.value
                    if isinstance(e, ast.Name):
                        ds = flow.defs_reaching(at.id, e.id)
                        if len(ds) != 1 or ds[0].value is None:
                            return None
                        e = ds[0].value
                    return _shape_of(e)
    return None


def _shape_of(e: ast.AST) -> Optional[Tuple[str, int]]:
    if isinstance(e, ast.BinOp) and isinstance(e.op, ast.Add) and isinstance(e.left, ast.Constant) and isinstance(e.left.value, str):
        r = e.right
        if isinstance(r, ast.Call) and dotted(r.func) == "str" and r.args:
            r = r.args[0]
        if isinstance(r, ast.BinOp) and isinstance(r.op, ast.Mod) and isinstance(r.left, ast.Constant):
            m = re.fullmatch(r"%0(\d+)d", str(r.left.value))
            if m:
                return e.left.value, int(m.group(1))
        if isinstance(r, ast.Call) and isinstance(r.func, ast.Attribute) and r.func.attr == "zfill" and r.args and isinstance(r.args[0], ast.Constant):
            return e.left.value, int(r.args[0].value)
    if isinstance(e, ast.JoinedStr) and len(e.values) == 2 and isinstance(e.values[0], ast.Constant) and isinstance(e.values[1], ast.FormattedValue):
        spec = e.values[1].format_spec
        if spec is not None and len(spec.values) == 1 and isinstance(spec.values[0], ast.Constant):
            m = re.fullmatch(r"0(\d+)d?", str(spec.values[0].value))
            if m:
                return str(e.values[0].value), int(m.group(1))
    return None


def rule_fmt(ctx: Ctx) -> RuleResult:
    res = RuleResult("R-FMT")
    f = ctx.p.function(NEXT)
    flow = flow_of(f.node)
    cfg = cfg_of(f.node)
    langs = _version_langs(ctx)
    res.floor(len(langs), 4, "templates with a {version} placeholder")
    shapes = set()
    for l in langs:
        if l.kind != "digits":
            res.violation(["key_patterns", "version", l.raw], f"the configured version pattern `{l.raw}` is not literal prefix + fixed digits: the "
                                                              f"version formatter cannot be checked against it", "spil_hamlet_conf/spil_sid_conf.py", 0)
            return res
        shapes |= set(l.shapes)
    got = _format_shape(ctx, f)
    if got is None:
        res.violation([NEXT, "format shape"], "NextGetter does not build the version as literal prefix + zero-padded number handed to "
                                              "get_with(version=...)", f.relpath, f.node.lineno)
        return res
    if {got} == shapes:
        res.ok("NextGetter version format", f"'{got[0]}' + {got[1]} zero-padded digits, exactly the configured pattern {sorted(shapes)}")
    else:
        res.violation([NEXT, "format vs pattern", str(got)], f"NextGetter formats versions as '{got[0]}' + {got[1]} digits but the configured "
                                                             f"pattern is {sorted(shapes)}: get_next returns the empty Sid or a misformatted version",
                      f.relpath, f.node.lineno)
    prefix, ndig = got
    # parsing uses the same prefix
    from ..shape import family

    splits = [n for g in family(ctx, f) for n in own_nodes(g.node) if isinstance(n, ast.Call) and isinstance(n.func, ast.Attribute)
              and n.func.attr == "split" and n.args and isinstance(n.args[0], ast.Constant) and n.args[0].value != "."]
    if splits and all(s.args[0].value == prefix for s in splits):
        res.ok("NextGetter version parse", f"the number is what follows '{prefix}'")
    else:
        res.violation([NEXT, "parse prefix"], f"NextGetter parses the current version with another prefix than it formats with ('{prefix}')", f.relpath, f.node.lineno)
    # increment by exactly one
    incs = [n for n in own_nodes(f.node) if isinstance(n, ast.BinOp) and isinstance(n.op, ast.Add) and isinstance(n.left, ast.Call)
            and dotted(n.left.func) == "int"]
    num_zero = []
    if not incs:
        # the number is computed first (`number = int(..)` per branch, `number = 0` when there is no version), then incremented
        def numeric(name: str) -> bool:
            ds = [d for d in flow.all_defs if d.var == name]
            return bool(ds) and all(d.kind == "assign" and d.value is not None and (
                (isinstance(d.value, ast.Call) and dotted(d.value.func) == "int") or (isinstance(d.value, ast.Constant) and isinstance(d.value.value, int)
                                                                                         and not isinstance(d.value.value, bool))) for d in ds)
        for n in own_nodes(f.node):
            if isinstance(n, ast.BinOp) and isinstance(n.op, ast.Add) and isinstance(n.left, ast.Name) and numeric(n.left.id) \
                    and isinstance(n.right, ast.Constant):
                incs.append(n)
                num_zero += [d for d in flow.all_defs if d.var == n.left.id and isinstance(d.value, ast.Constant) and d.value.value == 0]
    if incs and all(isinstance(i.right, ast.Constant) and i.right.value == 1 for i in incs):
        res.ok("NextGetter increment", "int(version) + 1")
    else:
        res.violation([NEXT, "increment"], "NextGetter does not increment the version number by exactly one", f.relpath, f.node.lineno)
    # no version -> starts from 0 (first version is 1); '*' / '>' -> the last existing one
    inc_args = set()
    for i_ in [x for x in incs if isinstance(x.left, ast.Call)]:
        for a_ in i_.left.args[:1]:
            inc_args |= {x.id for x in ast.walk(a_) if isinstance(x, ast.Name)}
    zero = [d for d in flow.all_defs if (d.var == "version" or d.var in inc_args) and isinstance(d.value, ast.Constant) and d.value.value == 0] or [
        r for g in family(ctx, f) for r in own_nodes(g.node) if isinstance(r, ast.Return) and isinstance(r.value, ast.Constant) and r.value.value == 0] or [
        i for i in incs if isinstance(i.left, ast.Call) and i.left.args and isinstance(i.left.args[0], ast.Constant) and i.left.args[0].value == 0] or num_zero
    last = [n for g in family(ctx, f) for n in own_nodes(g.node) if isinstance(n, ast.Call) and isinstance(n.func, ast.Attribute)
            and n.func.attr == "get_last"]
    if zero and last:
        res.ok("NextGetter start", "no version -> 0 + 1; '*' or '>' -> successor of get_last('version')")
    else:
        res.violation([NEXT, "start value"], "NextGetter lost the 'first version' or the 'successor of the last existing version' branch", f.relpath, f.node.lineno)
    # an explicit overflow guard must not cut off representable versions
    maxv = 10 ** ndig - 1
    consts = {n: b[-1].value.value for n, b in f.module.bindings.items() if b and isinstance(b[-1].value, ast.Constant)
              and isinstance(b[-1].value.value, int)}
    for t in cfg.nodes:
        if t.kind != "test" or not isinstance(t.ast, ast.If):
            continue
        for c in [x for x in ast.walk(t.ast.test) if isinstance(x, ast.Compare) and len(x.ops) == 1 and norm(x.left) == "version"]:
            k = None
            try:
                k = ast.literal_eval(c.comparators[0])
            except Exception:
                if isinstance(c.comparators[0], ast.Name):
                    k = consts.get(c.comparators[0].id)
            if not isinstance(k, int):
                continue
            cut = None
            if isinstance(c.ops[0], ast.GtE):
                cut = k
            elif isinstance(c.ops[0], ast.Gt):
                cut = k + 1
            empties = [x for x in ast.walk(ast.Module(body=t.ast.body, type_ignores=[])) if isinstance(x, ast.Return) and _is_empty_sid(x.value)]
            if cut is not None and empties and cut <= maxv:
                res.violation([NEXT, "overflow guard", norm(c)], f"NextGetter returns the empty Sid when `{norm(c)}`, i.e. from {cut} on, although "
                                                                 f"'{prefix}{maxv}' is a valid version", f.relpath, t.lineno)
    # every return is a Sid: the rebuilt one or the empty one
    for r in _rets(f):
        v = r.value
        ok = _is_empty_sid(v)
        from ..shape import inline_locals

        vv = inline_locals(f, v, r, depth=1) if isinstance(v, ast.Name) else v
        if isinstance(vv, ast.BoolOp) and isinstance(vv.op, ast.Or):
            first = vv.values[0]
            if isinstance(first, ast.Name):
                first = inline_locals(f, first, r, depth=1)
            # the receiver is the Sid that was asked about: a local bound (only) to Sid(<the sid parameter>)
            recv_ok = False
            if isinstance(first, ast.Call) and isinstance(first.func, ast.Attribute) and first.func.attr == "get_with" and isinstance(first.func.value, ast.Name):
                rds = [d for d in flow.all_defs if d.var == first.func.value.id]
                recv_ok = bool(rds) and all(d.kind == "assign" and d.value is not None and norm(d.value) == f"Sid({f.params[1]})" for d in rds)
            ok = _is_empty_sid(vv.values[-1]) and recv_ok
        if ok:
            res.ok(f"NextGetter: `{norm(r)}`", "`_sid.get_with(version=...) or Sid()`: only the version changes; an invalid result becomes the empty Sid")
        else:
            res.violation([NEXT, "return", norm(r)], f"NextGetter returns `{norm(v)}`, which is not `get_with(version=...) or Sid()`", f.relpath, r.lineno)
    return res


@conds.cond("version_pattern_digits")
def _cond_digits(ctx: Ctx):
    r = rule_fmt(ctx)
    bad = [x for x in r.findings if "format" in " ".join(x.key) or "parse" in " ".join(x.key) or "key_patterns" in x.key[0]]
    if bad:
        return False, bad[0].message
    return True, "version values are prefix + digits and NextGetter parses with that prefix"


def rule_route(ctx: Ctx) -> RuleResult:
    res = RuleResult("R-ROUTE")
    gn = ctx.p.function("spil.sid.sid.DataSid.get_next")
    flow = flow_of(gn.node)
    cfg = cfg_of(gn.node)
    guard_key = None
    for n in own_nodes(gn.node):
        if isinstance(n, ast.If) and isinstance(n.test, ast.Compare) and isinstance(n.test.ops[0], ast.NotEq) and norm(n.test.left) == gn.params[1] \
                and isinstance(n.test.comparators[0], ast.Constant) and any(isinstance(x, ast.Raise) for x in n.body):
            guard_key = n.test.comparators[0].value
    attr_fmt = None
    for d in flow.all_defs:
        if d.var == "attribute" and isinstance(d.value, ast.JoinedStr):
            parts = d.value.values
            if len(parts) == 2 and isinstance(parts[0], ast.Constant) and isinstance(parts[1], ast.FormattedValue) and norm(parts[1].value) == gn.params[1]:
                attr_fmt = parts[0].value
    deleg = any(r.value is not None and norm(r.value) == "GetFromAll().get_attr(self, attribute=attribute)" for r in _rets(gn))
    if guard_key is None or attr_fmt is None or not deleg:
        res.violation([gn.qualname, "routing"], "get_next is not `GetFromAll().get_attr(self, attribute=f'next.{key}')` behind the key guard", gn.relpath, gn.node.lineno)
        return res
    attribute = attr_fmt + guard_key
    gg = ctx.p.function("spil_data_conf.get_getter_for")
    table = None
    lookup = None
    gflow = flow_of(gg.node)
    attr_p = gg.params[1] if len(gg.params) > 1 else "attribute"
    for n in own_nodes(gg.node):
        # <table>.get(attribute): the table is a dictionary display, directly or through a local name
        if isinstance(n, ast.Call) and isinstance(n.func, ast.Attribute) and n.func.attr == "get" and n.args and norm(n.args[0]) == attr_p:
            recv = n.func.value
            if isinstance(recv, ast.Dict):
                table, lookup = recv, n
            elif isinstance(recv, ast.Name):
                at = gflow.node_of(n)
                ds = gflow.defs_reaching(at.id, recv.id) if at is not None else []
                if len(ds) == 1 and ds[0].kind == "assign" and isinstance(ds[0].value, ast.Dict):
                    table, lookup = ds[0].value, n
    if table is None:
        res.violation([gg.qualname, "attribute_getters"], "get_getter_for has no attribute_getters table", gg.relpath, gg.node.lineno)
        return res
    keys = {k.value: v for k, v in zip(table.keys, table.values) if isinstance(k, ast.Constant)}
    if attribute not in keys:
        res.violation([gg.qualname, "attribute_getters", attribute], f"Sid.get_next asks for the attribute '{attribute}' but attribute_getters only knows "
                                                                     f"{sorted(keys)}: get_next answers None", gg.relpath, table.lineno)
        return res
    v = keys[attribute]
    r = ctx.p.resolve_expr(gg.module, v.func, gg) if isinstance(v, ast.Call) else None
    ok = r is not None and r.kind == "class" and r.cls is not None and ctx.p.find_method(r.cls, "get_attr") is not None \
        and ctx.p.find_method(r.cls, "get_attr").qualname == NEXT
    looked = lookup is not None
    first = False
    gcfg = cfg_of(gg.node)
    for r_ in _rets(gg):
        if r_.value is None:
            continue
        at = gflow.node_of(r_)
        if any(a.kind == "call" and a.node is lookup for a in gflow.depends(r_.value, at.id if at else None)) or any(x is lookup for x in ast.walk(r_.value)):
            first = True
    # ... and before anything else answers: every other return happens where the attribute lookup is known to have found nothing
    if first and lookup is not None:
        from ..shape import facts_at as _fa

        lvar = next((d.var for d in gflow.all_defs if d.kind == "assign" and d.value is lookup), None)
        for r_ in _rets(gg):
            if r_.value is None or any(x is lookup for x in ast.walk(r_.value)):
                continue
            at = gflow.node_of(r_)
            if isinstance(r_.value, ast.Name) and r_.value.id == lvar:
                continue
            if isinstance(r_.value, ast.BoolOp) and isinstance(r_.value.op, ast.Or) and isinstance(r_.value.values[0], ast.Name) and r_.value.values[0].id == lvar:
                continue
            if lvar is None or (lvar, False) not in _fa(ctx, gg, r_):
                first = False
                res.violation([gg.qualname, "attribute routing", "order"], f"get_getter_for: `{norm(r_)[:70]}` answers before (or regardless of) the "
                                                                           f"attribute table: '{attribute}' does not reach NextGetter for those Sids",
                              gg.relpath, r_.lineno)
                break
    if ok and looked and first:
        res.ok("get_next -> get_getter_for", f"'{attribute}' is a key of attribute_getters and maps to NextGetter, looked up before the type table")
    else:
        res.violation([gg.qualname, "attribute routing", attribute], f"the attribute '{attribute}' does not reach NextGetter.get_attr", gg.relpath, table.lineno)
    ga = ctx.p.function("spil.sid.read.getters.getter_all.GetFromAll.get_attr")
    gaflow = flow_of(ga.node)
    sidp_, attrp_ = ga.params[1], ga.params[2]
    lookups_ = [d for d in gaflow.all_defs if d.kind == "assign" and isinstance(d.value, ast.Call) and norm(d.value) ==
                f"get_getter({sidp_}, attribute={attrp_}, config=self.config)"]
    if lookups_ and any(r_.value is not None and norm(r_.value) == f"{lookups_[0].var}.get_attr({sidp_}, attribute={attrp_})" for r_ in _rets(ga)):
        res.ok("GetFromAll.get_attr", "get_getter(sid, attribute=attribute, ...).get_attr(sid, attribute=attribute)")
    else:
        res.violation([ga.qualname, "routing"], "GetFromAll.get_attr does not route by attribute", ga.relpath, ga.node.lineno)
    return res


@conds.cond("next_route")
def _cond_route(ctx: Ctx):
    r = rule_route(ctx)
    if r.findings:
        return False, r.findings[0].message
    return True, "NextGetter.get_attr is only reached for the attribute 'next.version'"


def rule_getnew(ctx: Ctx) -> RuleResult:
    res = RuleResult("R-GETNEW")
    p = ctx.p
    gl = p.function("spil.sid.sid.DataSid.get_last")
    flow = flow_of(gl.node)
    cfg = cfg_of(gl.node)
    import re as _re
    from ..shape import inline_locals as _il

    keyp0 = gl.params[1] if len(gl.params) > 1 else "key"
    want_rx = rf"FindInAll\(\)\.find_one\(self\.get_with\(key=({keyp0}|{keyp0} or self\.keytype), value='>'\), as_sid=True\)"
    found = [d for d in flow.all_defs if d.kind == "assign" and isinstance(d.value, ast.Call) and isinstance(d.value.func, ast.Attribute)
             and d.value.func.attr == "find_one"]
    ok = len(found) == 1 and bool(_re.fullmatch(want_rx, norm(_il(gl, found[0].value, found[0].value))))
    found_var = found[0].var if found else "found"
    if ok:
        res.ok("DataSid.get_last search", "FindInAll().find_one(self.get_with(key=key, value='>'), as_sid=True)")
    else:
        res.violation([gl.qualname, "search"], "get_last is not find_one of self with the key set to '>'", gl.relpath, gl.node.lineno)
    from ..shape import facts_at as _facts_at

    keyp = gl.params[1] if len(gl.params) > 1 else "key"
    for r in _rets(gl):
        v = r.value
        if _is_empty_sid(v):
            # get_last(key) is asked for keys the Sid does not carry yet (a task Sid asking for its last version): the only
            # early 'nothing' is the undefined Sid
            bad = [t for t, truth in _facts_at(ctx, gl, r) if not truth and t.startswith(f"{keyp} in ") and "_fields" in t]
            if bad:
                res.violation([gl.qualname, "early empty", bad[0]], f"get_last returns the empty Sid when `{bad[0]}` is false: the last entry of a "
                                                                    f"key below the Sid (task -> version) is never found", gl.relpath, r.lineno)
            continue
        fs_ = _facts_at(ctx, gl, r)
        if norm(v) == found_var and any(tr_ and _re.fullmatch(rf"{_re.escape(found_var)}\.get\((\w+)\)", t_) for t_, tr_ in fs_):
            res.ok("DataSid.get_last return", "the found Sid, only if it really carries the key; else the empty Sid")
        else:
            res.violation([gl.qualname, "return", norm(r)], f"get_last returns `{norm(v)}` without the validity test", gl.relpath, r.lineno)
    gn = p.function("spil.sid.sid.DataSid.get_new")
    flow = flow_of(gn.node)
    cfg = cfg_of(gn.node)
    key = gn.params[1]
    n_succ = 0
    for r in _rets(gn):
        v = r.value
        ok = _is_empty_sid(v) or (isinstance(v, ast.BoolOp) and isinstance(v.op, ast.Or) and _is_empty_sid(v.values[-1]))
        if not ok:
            res.violation([gn.qualname, "return", norm(r)], f"get_new returns `{norm(v)}` without the `or Sid()` fallback", gn.relpath, r.lineno)
    for c in own_nodes(gn.node):
        if not (isinstance(c, ast.Call) and isinstance(c.func, ast.Attribute) and c.func.attr == "get_next"):
            continue
        recv = c.func.value
        at = flow.node_of(c)
        tests = [(norm(t), lab) for t, lab in ctx.ef._dominating_tests(cfg, c)]
        last_true = [t for t, lab in tests if lab == "true" and ("get_last" in t or t in ("with_added_key", "last"))]
        if last_true:
            # a last version exists: the successor must be taken from exactly that Sid
            deps = flow.depends(recv, at.id)
            calls = {a.text for a in deps if a.kind == "call"}
            uses_self = isinstance(recv, ast.Name) and recv.id == "self" or any(a.kind == "param" and a.text == "self" for a in deps if False)
            only_last = any(x.endswith("get_last") for x in calls) and not any(x in ("max", "min", "sorted") for x in calls) \
                and not (isinstance(recv, ast.Name) and recv.id == "self")
            n_succ += 1
            if only_last:
                res.ok(f"get_new: `{norm(c)[:50]}`", "successor of the last existing version")
            else:
                res.violation([gn.qualname, "successor receiver", norm(recv)], f"get_new: when a last version exists the result is `{norm(c)[:60]}`, not "
                                                                               f"the successor of that last version (versions get skipped or reused)",
                              gn.relpath, c.lineno)
        else:
            if isinstance(recv, ast.Name) and recv.id == "self":
                res.ok(f"get_new: `{norm(c)}`", "no version exists yet: the first version")
            else:
                res.violation([gn.qualname, "first version receiver", norm(recv)], f"get_new: `{norm(c)[:60]}` outside the 'last exists' branch", gn.relpath, c.lineno)
    if n_succ < 2:
        res.violation([gn.qualname, "branches"], "get_new lost one of its 'last version exists' branches (own key set / key missing)", gn.relpath, gn.node.lineno)
    return res
