"""R-MUT / R-ESC / R-INIT / R-TRIPLE - shared and immutable values (DESIGN.md A.3).
Serves C13 (cache-owned values are never mutated), C14 (Sids are immutable values), C02 (coherent
string / type / fields triple), C04."""
from __future__ import annotations

import ast
from typing import Dict, Iterable, List, Optional, Set, Tuple

from ..cfg import cfg_of
from ..context import Ctx
from ..dataflow import Atom, flow_of
from ..program import AnalysisError, FunctionInfo, dotted, norm, own_nodes
from ..report import RuleResult
from . import memo
from ..shape import facts_at

MUTATING_METHODS = {"update", "pop", "popitem", "clear", "setdefault", "append", "extend", "remove", "sort", "insert", "add",
                    "discard", "reverse", "__setitem__", "__delitem__"}
SID_CLASSES = ("spil.sid.sid.BaseSid", "spil.sid.sid.StringSid", "spil.sid.sid.TypedSid", "spil.sid.sid.PathSid",
               "spil.sid.sid.DataSid", "spil.sid.sid.Sid")
PRIVATE_FIELDS = ("_string", "_type", "_fields")


# ------------------------------------------------------------------------------------------------
def mutation_sites(f: FunctionInfo) -> List[Tuple[ast.AST, ast.AST, str]]:
    """(statement/expression node, mutated object expression, how)"""
    out = []
    for n in own_nodes(f.node):
        if isinstance(n, (ast.Assign, ast.AugAssign, ast.AnnAssign)):
            ts = n.targets if isinstance(n, ast.Assign) else [n.target]
            for t in ts:
                for tt in (t.elts if isinstance(t, (ast.Tuple, ast.List)) else [t]):
                    if isinstance(tt, ast.Subscript):
                        out.append((n, tt.value, "item store"))
            if isinstance(n, ast.AugAssign) and isinstance(n.target, (ast.Name, ast.Attribute)) \
                    and isinstance(n.op, (ast.Add, ast.BitOr, ast.BitAnd, ast.Sub, ast.Mult)):
                out.append((n, n.target, "in-place operator"))  # list += / set |= / dict |= change the object itself
        elif isinstance(n, ast.Delete):
            for t in n.targets:
                if isinstance(t, ast.Subscript):
                    out.append((n, t.value, "item delete"))
        elif isinstance(n, ast.Call) and isinstance(n.func, ast.Attribute) and n.func.attr in MUTATING_METHODS:
            out.append((n, n.func.value, f".{n.func.attr}()"))
    return out


class ParamEffects:
    """per function: which parameters it may mutate / retain (fixpoint over the call graph)"""

    def __init__(self, ctx: Ctx):
        self.ctx = ctx
        self.mutates: Dict[str, Set[str]] = {}
        self.retains: Dict[str, Set[str]] = {}
        self._solve()

    def _param_atoms(self, atoms: Iterable[Atom]) -> Set[str]:
        out = set()
        for a in atoms:
            if a.kind == "param":
                out.add(a.text)
        return out

    def _solve(self):
        ctx = self.ctx
        fns = [f for f in ctx.p.functions.values() if f.module.kind in ("library", "config", "dep")]
        for f in fns:
            self.mutates[f.qualname] = set()
            self.retains[f.qualname] = set()
        # direct effects
        for f in fns:
            flow = flow_of(f.node)
            a = f.node.args
            fresh = {x.arg for x in ([a.vararg] if a.vararg else []) + ([a.kwarg] if a.kwarg else [])}
            for node, obj, how in mutation_sites(f):
                at = flow.node_of(node)
                ps = self._param_atoms(flow.aliases(obj, at.id if at else None)) - fresh
                if how == "in-place operator":
                    ps = {p for p in ps if _container_annotated(f, p)}  # `n += 1` on a number / string rebinds, nothing is shared
                self.mutates[f.qualname] |= ps
            for n in own_nodes(f.node):
                if isinstance(n, ast.Return) and n.value is not None:
                    at = flow.node_of(n)
                    self.retains[f.qualname] |= self._param_atoms(flow.aliases(n.value, at.id if at else None)) - fresh
                elif isinstance(n, ast.Assign):
                    for t in n.targets:
                        if isinstance(t, ast.Attribute) or (isinstance(t, ast.Subscript) and isinstance(t.value, ast.Attribute)):
                            at = flow.node_of(n)
                            self.retains[f.qualname] |= self._param_atoms(flow.aliases(n.value, at.id if at else None)) - fresh
        # transitive: passing an alias of a parameter to a callee that mutates / retains that position
        changed = True
        rounds = 0
        while changed and rounds < 30:
            changed = False
            rounds += 1
            for f in fns:
                flow = flow_of(f.node)
                for cs in ctx.cg.sites.get(f.qualname, []):
                    if not isinstance(cs.node, ast.Call):
                        continue
                    for t in cs.targets:
                        if t.qualname not in self.mutates:
                            continue
                        for pname, arg in bind_args(t, cs.node):
                            at = flow.node_of(cs.node)
                            ps = self._param_atoms(flow.aliases(arg, at.id if at else None))
                            if not ps:
                                continue
                            if pname in self.mutates[t.qualname] and not ps <= self.mutates[f.qualname]:
                                self.mutates[f.qualname] |= ps
                                changed = True
                            if pname in self.retains[t.qualname] and not ps <= self.retains[f.qualname]:
                                # retained by the callee's return value: only matters if we return/store it too;
                                # conservative: propagate
                                pass


CONTAINER_NAMES = {"list", "List", "dict", "Dict", "set", "Set", "MutableMapping", "MutableSequence", "OrderedDict", "defaultdict"}
IMMUTABLE_NAMES = {"str", "int", "float", "bool", "Path", "tuple", "Tuple", "None", "Optional", "frozenset", "bytes", "Sid"}


def _ann_names(ann: Optional[ast.AST]) -> Set[str]:
    if ann is None:
        return set()
    if isinstance(ann, ast.Constant) and isinstance(ann.value, str):
        try:
            ann = ast.parse(ann.value, mode="eval").body
        except SyntaxError:
            return set()
    out = set()
    for x in ast.walk(ann):
        if isinstance(x, ast.Name):
            out.add(x.id)
        elif isinstance(x, ast.Attribute):
            out.add(x.attr)
        elif isinstance(x, ast.Constant) and x.value is None:
            out.add("None")
    return out


def _container_annotated(f: FunctionInfo, pname: str) -> bool:
    a = f.node.args
    for x in a.posonlyargs + a.args + a.kwonlyargs:
        if x.arg == pname:
            return bool(_ann_names(x.annotation) & CONTAINER_NAMES)
    return False


def _immutable_result(f: FunctionInfo) -> bool:
    """the function is annotated to return only immutable values (strings, numbers, paths, tuples)"""
    names = _ann_names(f.node.returns)
    return bool(names) and names <= IMMUTABLE_NAMES and not ({"tuple", "Tuple"} & names)


def bind_args(callee: FunctionInfo, call: ast.Call) -> List[Tuple[str, ast.AST]]:
    """(parameter name, argument expression) pairs; self is skipped for bound calls"""
    a = callee.node.args
    names = [x.arg for x in a.posonlyargs + a.args]
    bound = callee.cls is not None and not callee.is_static and names and names[0] in ("self", "cls") \
        and isinstance(call.func, ast.Attribute)
    if callee.name in ("__init__", "__new__") and callee.cls is not None:
        bound = True
    if bound:
        names = names[1:]
    out = []
    for i, arg in enumerate(call.args):
        if isinstance(arg, ast.Starred):
            break
        if i < len(names):
            out.append((names[i], arg))
        elif a.vararg is not None:
            out.append((a.vararg.arg, arg))
    kwnames = set(names) | {x.arg for x in a.kwonlyargs}
    for kw in call.keywords:
        if kw.arg is None:
            continue
        if kw.arg in kwnames:
            out.append((kw.arg, kw.value))
    return out


def _param_effects(ctx: Ctx) -> ParamEffects:
    pe = getattr(ctx, "_param_effects", None)
    if pe is None:
        pe = ParamEffects(ctx)
        ctx._param_effects = pe
    return pe


# ------------------------------------------------------------------------------------------------
def _memo_call_atoms(ctx: Ctx, f: FunctionInfo, atoms: Iterable[Atom], memo_q, derived=None) -> List[Tuple[Atom, str]]:
    """atoms that are (elements of) results of calls to memoised functions, or to functions that hand such a result
    on unchanged (``derived``: qualname -> memoised origin) -> (atom, memoised qualname)"""
    out = []
    site_by_id = {id(cs.node): cs for cs in ctx.cg.sites.get(f.qualname, [])}
    for a in atoms:
        node = a.node
        if a.kind in ("call", "elem") and isinstance(node, ast.Call):
            cs = site_by_id.get(id(node))
            if cs is None:
                continue
            for t in cs.targets:
                if t.qualname in memo_q:
                    out.append((a, t.qualname))
                    break
                if derived and t.qualname in derived:
                    out.append((a, derived[t.qualname]))
                    break
    return out


def cache_returning(ctx: Ctx, memo_q: Set[str]) -> Dict[str, str]:
    """functions that return (an element of) a memoised function's result without copying it: qualname -> origin"""
    got = getattr(ctx, "_cache_returning", None)
    if got is not None:
        return got
    derived: Dict[str, str] = {}
    fns = [f for f in ctx.p.iter_functions(kinds=("library", "config")) if f.qualname not in memo_q
           and f.module.name != "spil.util.caching"]
    changed = True
    rounds = 0
    while changed and rounds < 6:
        changed = False
        rounds += 1
        for f in fns:
            if f.qualname in derived:
                continue
            flow = flow_of(f.node)
            for n in own_nodes(f.node):
                if not (isinstance(n, ast.Return) and n.value is not None):
                    continue
                at = flow.node_of(n)
                hits = _memo_call_atoms(ctx, f, flow.aliases(n.value, at.id if at else None), memo_q, derived)
                if hits:
                    derived[f.qualname] = hits[0][1]
                    changed = True
                    break
    ctx._cache_returning = derived
    return derived


# accepted mutations of cache-owned values: function -> (reason, side condition, attribute the stored value must be
# looked up from).  Keyed by function and data-flow, not by statement text, so a renamed variable does not matter.
MUT_EXEMPT = {
    "spil.sid.pathops.fs_resolver.path_to_dict":
        ("the path mapping is applied to resolva's shared dictionary before the copy; re-applying it to an already mapped "
         "dictionary is the identity because in every shipped mapping keys and values are disjoint, and the extra-key loop is "
         "dead while extrakeys_to_sidkeys is empty", "mapping_idempotent", ("path_mapping", "extrakeys_to_sidkeys")),
}
PARAM_MUT_TABLE = {
    ("spil.conf.util.pattern_replacing", "sid_templates"): "documented in-place operation on a configuration table at load time",
    ("resolva.template._convert", "placeholder_count"): "private counter handed in by construct_regular_expression",
}


def rule_mut(ctx: Ctx) -> RuleResult:
    res = RuleResult("R-MUT")
    from . import conds

    memo_fns = memo.memoised_functions(ctx)
    memo_q = {f.qualname for f, d in memo_fns}
    res.floor(len(memo_q), 12, "memoised functions whose results are cache-owned (9 spil + 3 resolva)")
    pe = _param_effects(ctx)
    immutable = {f.qualname for f, d in memo_fns if _immutable_result(f)}
    derived = cache_returning(ctx, memo_q)
    if derived:
        res.note(f"{len(derived)} functions hand a memoised result on unchanged: " + ", ".join(sorted(x.split('.')[-1] for x in derived)),
                 "their callers are examined like callers of the memoised function itself")
    n_sites = 0
    n_calls = 0
    for f in ctx.p.iter_functions(kinds=("library", "config")):
        if f.module.name == "spil.sid.read.finders.find_cache":
            continue
        flow = flow_of(f.node)
        # (1) direct mutation of a cache-owned value
        for node, obj, how in mutation_sites(f):
            at = flow.node_of(node)
            atoms = flow.aliases(obj, at.id if at else None)
            hits = _memo_call_atoms(ctx, f, atoms, memo_q, derived)
            if how == "in-place operator":
                hits = [h for h in hits if h[1] not in immutable]
            if not hits:
                continue
            n_sites += 1
            stmt = _stmt_text(f, node)
            ex = MUT_EXEMPT.get(f.qualname)
            if ex is not None and how == "item store":
                # the stored value must be a lookup in the configured mapping tables
                stored = getattr(_stmt_node(f, node), "value", None)
                deps = flow.depends(stored, at.id if at else None) if stored is not None else set()
                if not any(a.kind == "attr" and a.text.split(".")[-1] in ex[2] for a in deps):
                    ex = None
            elif ex is not None:
                ex = None
            if ex is not None:
                ok, detail = conds.holds(ctx, ex[1])
                if ok:
                    res.ok(f"{f.qualname}: `{stmt}` mutates a value owned by {hits[0][1].split('.')[-1]}",
                           f"table: {ex[0]} [{ex[1]}: {detail}]")
                    continue
                res.violation([f.qualname, stmt, hits[0][1]],
                              f"{f.short}: `{stmt}` mutates a dictionary owned by the cache of {hits[0][1]} and the side condition "
                              f"'{ex[1]}' that made this harmless no longer holds: {detail}", f.relpath, node.lineno)
                continue
            res.violation([f.qualname, stmt, hits[0][1]],
                          f"{f.short}: `{stmt}` ({how}) mutates a value owned by the cache of {hits[0][1]}: every later call with "
                          f"the same arguments gets the altered object", f.relpath, node.lineno)
        # (2) handing a cache-owned value to a callee that mutates that parameter
        for cs in ctx.cg.sites.get(f.qualname, []):
            if not isinstance(cs.node, ast.Call):
                continue
            for t in cs.targets:
                muts = pe.mutates.get(t.qualname, set())
                if not muts:
                    continue
                for pname, arg in bind_args(t, cs.node):
                    if pname not in muts:
                        continue
                    at = flow.node_of(cs.node)
                    atoms = flow.aliases(arg, at.id if at else None)
                    hits = _memo_call_atoms(ctx, f, atoms, memo_q, derived)
                    n_calls += 1
                    if hits and f.qualname in MUT_EXEMPT and t.module is f.module and t.name.startswith("_") \
                            and _helper_only_maps(t, pname, MUT_EXEMPT[f.qualname][2]):
                        ex = MUT_EXEMPT[f.qualname]
                        ok, detail = conds.holds(ctx, ex[1])
                        if ok:
                            res.ok(f"{f.qualname} -> {t.short}({pname})", f"table: {ex[0]} [{ex[1]}: {detail}]")
                            continue
                    if hits:
                        res.violation([f.qualname, norm(cs.node.func), pname, hits[0][1]],
                                      f"{f.short} passes the cached result of {hits[0][1]} as `{pname}` to {t.short}, which mutates "
                                      f"that parameter in place", f.relpath, cs.lineno)
    res.ok(f"{n_sites} mutation sites on cache-owned values, {n_calls} argument hand-overs to mutating callees examined",
           "no unexempted mutation of a memoised result", nontrivial=False)
    return res


def _helper_only_maps(t: FunctionInfo, pname: str, attrs) -> bool:
    """every mutation the helper performs on that parameter is an item store whose value is looked up in the
    configured mapping tables"""
    flow = flow_of(t.node)
    sites = [(node, obj, how) for node, obj, how in mutation_sites(t)
             if any(a.kind == "param" and a.text == pname for a in flow.aliases(obj, flow.node_of(node).id if flow.node_of(node) else None))]
    if not sites:
        return False
    for node, obj, how in sites:
        if how != "item store":
            return False
        stored = getattr(_stmt_node(t, node), "value", None)
        at = flow.node_of(node)
        deps = flow.depends(stored, at.id if at else None) if stored is not None else set()
        if not any(a.kind == "attr" and a.text.split(".")[-1] in attrs for a in deps):
            return False
    return True


def rule_param_mut(ctx: Ctx) -> RuleResult:
    """public functions do not mutate their (non-variadic) parameters"""
    res = RuleResult("R-MUT-PARAM")
    pe = _param_effects(ctx)
    n = 0
    for f in ctx.p.iter_functions(kinds=("library",)):
        if f.module.name == "spil.sid.read.finders.find_cache" or f.parent is not None:
            continue
        if f.name.startswith("_") and not f.name.startswith("__"):
            continue  # private helpers are judged through their public callers (their effect is propagated to them)
        muts = {p for p in pe.mutates.get(f.qualname, set()) if p not in ("self", "cls")}
        n += 1
        for p in sorted(muts):
            if (f.qualname, p) in PARAM_MUT_TABLE:
                res.ok(f"{f.qualname}({p})", f"table: {PARAM_MUT_TABLE[(f.qualname, p)]}")
                continue
            res.violation([f.qualname, p], f"{f.short} mutates its parameter `{p}` in place: the caller's object (a Sid's fields, a cached "
                                           f"list, a configuration table) changes under it", f.relpath, f.node.lineno)
    res.floor(n, 80, "library functions examined for parameter mutation")
    res.ok(f"{n} library functions", "no undeclared in-place mutation of a parameter", nontrivial=False)
    return res


def _stmt_node(f: FunctionInfo, node: ast.AST) -> ast.AST:
    for n in own_nodes(f.node):
        if isinstance(n, ast.stmt) and not isinstance(n, (ast.For, ast.While, ast.If, ast.With, ast.Try)):
            for x in ast.walk(n):
                if x is node:
                    return n
    return node


def _stmt_text(f: FunctionInfo, node: ast.AST) -> str:
    """normalised text of the statement containing node"""
    return norm(_stmt_node(f, node))


# ------------------------------------------------------------------------------------------------
def rule_esc(ctx: Ctx) -> RuleResult:
    """self._fields never leaves a Sid except through a copy, and is never mutated"""
    res = RuleResult("R-ESC")
    pe = _param_effects(ctx)
    n = 0
    for cq in SID_CLASSES:
        c = ctx.p.cls(cq)
        for m in c.methods.values():
            if m.name == "_init":
                continue
            flow = flow_of(m.node)
            parents = {}
            for x in ast.walk(m.node):
                for ch in ast.iter_child_nodes(x):
                    parents[id(ch)] = x
            # (a) mutation through any alias
            for node, obj, how in mutation_sites(m):
                at = flow.node_of(node)
                if any(a.kind == "attr" and a.text.endswith("._fields") for a in flow.aliases(obj, at.id if at else None)):
                    res.violation([m.qualname, _stmt_text(m, node), "mutation"],
                                  f"{m.short}: `{_stmt_text(m, node)}` mutates the Sid's own field dictionary (shared with the cached "
                                  f"instance and the resolver caches)", m.relpath, node.lineno)
            # (b) escape through return / yield / attribute store / call argument
            for x in own_nodes(m.node):
                val = None
                what = None
                if isinstance(x, ast.Return) and x.value is not None:
                    val, what = x.value, "returned"
                elif isinstance(x, (ast.Yield, ast.YieldFrom)) and x.value is not None:
                    val, what = x.value, "yielded"
                elif isinstance(x, ast.Assign) and any(isinstance(t, (ast.Attribute, ast.Subscript)) for t in x.targets):
                    val, what = x.value, "stored"
                if val is not None:
                    at = flow.node_of(x)
                    al = flow.aliases(val, at.id if at else None)
                    n += 1
                    if any(a.kind == "attr" and a.text.endswith("._fields") for a in al):
                        res.violation([m.qualname, norm(x), what],
                                      f"{m.short}: the internal field dictionary is {what} without a copy (`{norm(x)}`); a caller "
                                      f"mutating it alters this Sid and every equal cached Sid", m.relpath, x.lineno)
                    else:
                        if any(isinstance(s, ast.Attribute) and s.attr == "_fields" for s in ast.walk(val)):
                            res.ok(f"{m.qualname}: `{norm(x)}`", "the field dictionary is only used through a copy / a derived value")
            for cs in ctx.cg.sites.get(m.qualname, []):
                if not isinstance(cs.node, ast.Call):
                    continue
                for t in cs.targets:
                    for pname, arg in bind_args(t, cs.node):
                        at = flow.node_of(cs.node)
                        al = flow.aliases(arg, at.id if at else None)
                        if not any(a.kind == "attr" and a.text.endswith("._fields") for a in al):
                            continue
                        n += 1
                        if pname in pe.mutates.get(t.qualname, set()):
                            res.violation([m.qualname, t.qualname, pname, "mutating callee"],
                                          f"{m.short} hands its field dictionary to {t.short}, which mutates `{pname}`", m.relpath, cs.lineno)
                        elif pname in pe.retains.get(t.qualname, set()):
                            res.violation([m.qualname, t.qualname, pname, "retaining callee"],
                                          f"{m.short} hands its field dictionary to {t.short}, which returns or stores `{pname}` itself",
                                          m.relpath, cs.lineno)
                        else:
                            res.ok(f"{m.qualname} -> {t.short}({pname}=self._fields)", "callee neither mutates nor retains the dictionary")
    # (c) a memoised accessor hands the *same* object to every caller: it must not be a mutable container
    memo_q = {f.qualname: d for f, d in memo.memoised_functions(ctx)}
    for cq in SID_CLASSES:
        c = ctx.p.cls(cq)
        for m in c.methods.values():
            if m.qualname not in memo_q:
                continue
            n += 1
            why = _mutable_result(m)
            if why:
                res.violation([m.qualname, "memoised accessor returns a mutable container"],
                              f"{m.short} is memoised and returns {why}: the one stored object is handed to every caller and to "
                              f"every equal Sid, so a caller changing it changes what the Sid reports", m.relpath, m.node.lineno)
            else:
                res.ok(f"{m.qualname} (memoised)", "returns an immutable value (path / string / None)")
    res.floor(n, 4, "uses of the field dictionary examined")
    return res


def _mutable_result(m: FunctionInfo) -> str:
    names = _ann_names(m.node.returns)
    if names & CONTAINER_NAMES:
        return f"a value annotated `{norm(m.node.returns)}`"
    for x in own_nodes(m.node):
        if isinstance(x, ast.Return) and x.value is not None:
            v = x.value
            if isinstance(v, (ast.Dict, ast.List, ast.Set, ast.DictComp, ast.ListComp, ast.SetComp)):
                return f"a new {type(v).__name__} (`{norm(v)[:40]}`)"
            if isinstance(v, ast.Call):
                if isinstance(v.func, ast.Name) and v.func.id in ("dict", "list", "set", "sorted", "OrderedDict"):
                    return f"`{norm(v)[:40]}`"
                if isinstance(v.func, ast.Attribute) and v.func.attr == "copy":
                    return f"`{norm(v)[:40]}`"
            if isinstance(v, ast.Attribute) and v.attr in PRIVATE_FIELDS[2:]:
                return f"`{norm(v)}`"
    return ""


# ------------------------------------------------------------------------------------------------
def in_factory(ctx: Ctx, f: FunctionInfo) -> bool:
    """f belongs to the Sid factory: the factory module, or a function the factory function delegates the construction
    to (wherever it lives) and its private helpers"""
    fam = getattr(ctx, "_factory_family", None)
    if fam is None:
        fac = ctx.cg.factory_of(ctx.p.cls("spil.sid.sid.Sid"))
        fam = set()
        mods = {"spil.sid.core.sid_factory"}
        if fac is not None:
            fam.add(fac.qualname)
            mods.add(fac.module.name)
            for cs in ctx.cg.sites.get(fac.qualname, []):
                for t in cs.targets:
                    if t.module.kind == "library" and any(isinstance(n, ast.keyword) and n.arg == "from_factory" for n in ast.walk(t.node)):
                        fam.add(t.qualname)
                        mods.add(t.module.name)
        ctx._factory_family = fam = (fam, mods)
    return f.qualname in fam[0] or f.module.name in fam[1]


def rule_init(ctx: Ctx) -> RuleResult:
    res = RuleResult("R-INIT")
    init = ctx.p.function("spil.sid.sid.TypedSid._init")
    stores = 0
    for f in ctx.p.iter_functions(kinds=("library", "config")):
        for n in own_nodes(f.node):
            targets = []
            if isinstance(n, (ast.Assign, ast.AugAssign, ast.AnnAssign)):
                targets = n.targets if isinstance(n, ast.Assign) else [n.target]
            for t in targets:
                for tt in (t.elts if isinstance(t, (ast.Tuple, ast.List)) else [t]):
                    if isinstance(tt, ast.Attribute) and tt.attr in PRIVATE_FIELDS:
                        stores += 1
                        if f is init:
                            res.ok(f"{f.qualname}: `{norm(n)}`", "the one initialisation method")
                        else:
                            res.violation([f.qualname, norm(n)], f"{f.short} assigns {tt.attr} outside TypedSid._init (`{norm(n)}`): an "
                                                                 f"existing Sid changes identity", f.relpath, n.lineno)
            if isinstance(n, ast.Call) and (dotted(n.func) or "") in ("setattr", "object.__setattr__") and len(n.args) >= 2:
                a1 = n.args[1]
                if isinstance(a1, ast.Constant) and a1.value in PRIVATE_FIELDS:
                    res.violation([f.qualname, norm(n)], f"{f.short} sets {a1.value} through setattr", f.relpath, n.lineno)
            if isinstance(n, ast.Attribute) and n.attr == "__dict__" and f.cls is not None and f.cls.qualname in SID_CLASSES:
                res.violation([f.qualname, "__dict__"], f"{f.short} touches the instance __dict__ of a Sid", f.relpath, n.lineno)
    res.floor(stores, 3, "stores to _string/_type/_fields")
    # _init call sites
    sites = ctx.cg.callers.get(init.qualname, [])
    res.floor(len(sites), 1, "_init call sites")
    for cs in sites:
        f = cs.caller
        site = f"{f.qualname}: `{norm(cs.node)[:80]}`"
        if not in_factory(ctx, f):
            res.violation([f.qualname, "_init outside the factory"], f"{f.short} calls _init outside the Sid factory module", f.relpath, cs.lineno)
            continue
        recv = cs.node.func.value if isinstance(cs.node.func, ast.Attribute) else None
        flow = flow_of(f.node)
        cfg = cfg_of(f.node)
        ok = False
        why = ""
        if isinstance(recv, ast.Name):
            at = flow.node_of(cs.node)
            defs = flow.defs_reaching(at.id, recv.id) if at else []
            fresh = [d for d in defs if d.kind == "assign" and isinstance(d.value, ast.Call)
                     and any(kw.arg == "from_factory" for kw in d.value.keywords)]
            if defs and len(fresh) == len(defs):
                # exactly one _init between the creation and every return of that local
                others = [o for o in sites if o.caller is f and o is not cs and isinstance(o.node.func, ast.Attribute)
                          and isinstance(o.node.func.value, ast.Name) and o.node.func.value.id == recv.id]
                double = False
                for o in others:
                    on = flow.node_of(o.node)
                    if on is not None and at is not None and (cfg.path_exists(at.id, on.id, exceptional=False) and at.id != on.id):
                        same_def = set(flow.defs_reaching(on.id, recv.id)) & set(defs)
                        if same_def:
                            double = True
                if double:
                    why = "the same fresh instance is initialised twice on one path"
                else:
                    ok = True
            else:
                why = "receiver is not a fresh `Sid(from_factory=True)` instance"
        else:
            why = "receiver is not a local variable"
        if ok:
            res.ok(site, "called once on a fresh factory instance")
        else:
            res.violation([f.qualname, norm(cs.node.func), "typestate"], f"{f.short}: `{norm(cs.node)[:80]}` - {why}", f.relpath, cs.lineno)
    # the empty instance is made anew on every call: object.__new__-style protocols (copy.copy, copy.deepcopy, pickle) call
    # Sid.__new__ without arguments and then restore the copied state INTO what they get back
    memo_q = {g.qualname for g, _ in memo.memoised_functions(ctx)}
    fac = ctx.cg.factory_of(ctx.p.cls("spil.sid.sid.Sid"))
    if fac is not None:
        reach = ctx.cg.reachable_from([fac])
        for q in sorted(reach):
            g = ctx.p.functions.get(q)
            if g is None or q not in memo_q or g.module.kind != "library":
                continue
            makes = any(isinstance(n, ast.keyword) and n.arg == "from_factory" for n in ast.walk(g.node)) or any(
                isinstance(cs.node, ast.Call) and any(t.module.kind == "library" and any(isinstance(n, ast.keyword) and n.arg == "from_factory"
                                                                                         for n in ast.walk(t.node)) for t in cs.targets)
                for cs in ctx.cg.sites.get(q, []))
            if makes and not [p_ for p_ in g.params if p_ not in ("self", "cls")]:
                res.violation([q, "shared empty instance"],
                              f"{g.short} is memoised, takes no argument and builds a Sid: every empty Sid is then one shared instance, and "
                              f"copy.copy / deepcopy / pickle (which call Sid.__new__ without arguments and restore the state into the result) "
                              f"overwrite it", g.relpath, g.node.lineno)
    # every fresh instance is initialised before it is returned
    for f in [g for g in ctx.p.iter_functions(kinds=("library",)) if in_factory(ctx, g)]:
        flow = flow_of(f.node)
        cfg = cfg_of(f.node)
        for n in own_nodes(f.node):
            if isinstance(n, ast.Return) and isinstance(n.value, ast.Name):
                at = flow.node_of(n)
                defs = flow.defs_reaching(at.id, n.value.id) if at else []
                for d in defs:
                    if d.kind == "assign" and isinstance(d.value, ast.Call) and any(kw.arg == "from_factory" for kw in d.value.keywords):
                        inits = [flow.node_of(cs.node).id for cs in sites if cs.caller is f and flow.node_of(cs.node) is not None
                                 and isinstance(cs.node.func, ast.Attribute) and isinstance(cs.node.func.value, ast.Name)
                                 and cs.node.func.value.id == n.value.id]
                        if cfg.on_all_paths(d.node, at.id, inits):
                            res.ok(f"{f.qualname}: `return {n.value.id}`", "initialised on every path from creation to return")
                        else:
                            res.violation([f.qualname, f"return {n.value.id}", "uninitialised"],
                                          f"{f.short} can return a factory instance without calling _init", f.relpath, n.lineno)
    return res


# ------------------------------------------------------------------------------------------------
def _producer(flow, f: FunctionInfo, expr: ast.AST, at: int):
    """(kind, call node, index) of the value: kind in 'call' (whole result), 'unpack' (component), 'none'"""
    if isinstance(expr, ast.Name):
        defs = flow.defs_reaching(at, expr.id)
        if len(defs) != 1:
            return ("multi", None, None, defs)
        d = defs[0]
        if d.kind == "param":
            return ("param", None, None, d)
        if d.kind == "assign" and isinstance(d.value, ast.Call):
            return ("call", d.value, None, d)
        if d.kind == "unpack" and isinstance(d.value, ast.Call):
            return ("unpack", d.value, d.index, d)
        if d.kind == "assign" and d.value is not None:
            return _producer(flow, f, d.value, d.node)
        return ("other", None, None, d)
    if isinstance(expr, ast.Call):
        return ("call", expr, None, None)
    return ("other", None, None, None)


def _callee_name(ctx: Ctx, f: FunctionInfo, call: Optional[ast.Call]) -> str:
    if call is None:
        return ""
    r = ctx.p.resolve_expr(f.module, call.func, f)
    if r.kind == "func" and r.func is not None:
        return r.func.qualname
    for cs in ctx.cg.sites.get(f.qualname, []):
        if cs.node is call and cs.targets:
            return cs.targets[-1].qualname
    return dotted(call.func) or ""


def _init_sites(ctx: Ctx):
    """(function, call node, {'string','type','fields' -> expr}) for every place where a Sid is initialised: direct
    _init calls, and calls of a private factory helper that only forwards its own parameters to _init"""
    init = ctx.p.function("spil.sid.sid.TypedSid._init")
    out = []
    for cs in ctx.cg.callers.get(init.qualname, []):
        f = cs.caller
        if not in_factory(ctx, f):
            continue
        args = dict(bind_args(init, cs.node))
        forwards = args and all(isinstance(v, ast.Name) and v.id in f.params for v in args.values()) and f.name.startswith("_")
        if forwards:
            flow = flow_of(f.node)
            at = flow.node_of(cs.node)
            if all(all(d.kind == "param" for d in flow.defs_reaching(at.id, v.id)) for v in args.values()):
                for hs in ctx.cg.callers.get(f.qualname, []):
                    if not isinstance(hs.node, ast.Call):
                        continue
                    hargs = dict(bind_args(f, hs.node))
                    mapped = {k: hargs.get(v.id) for k, v in args.items()}
                    if all(x is not None for x in mapped.values()):
                        out.append((hs.caller, hs.node, mapped))
                continue
        out.append((f, cs.node, args))
    return out


def rule_triple(ctx: Ctx) -> RuleResult:
    """At every place where a Sid is initialised the (string, type, fields) triple comes from one resolver operation."""
    res = RuleResult("R-TRIPLE")
    sites = _init_sites(ctx)
    res.floor(len(sites), 3, "Sid initialisation sites in the factory")
    # each factory function builds its Sid itself from its own resolver call (it does not hand the data to another
    # factory, which would re-detect the type)
    for q in ("spil.sid.core.sid_factory.sid_to_sid", "spil.sid.core.sid_factory.dict_to_sid", "spil.sid.core.sid_factory.path_to_sid"):
        g = ctx.p.function(q)
        if not any(f_ is g for f_, _, args_ in sites if args_):
            res.violation([q, "no initialisation site"], f"{g.short} no longer initialises the Sid from the (string, type, fields) its own resolver "
                                                         f"call produced: the type found by the resolver is lost and detected again from the fields",
                          g.relpath, g.node.lineno)
    S2D = "spil.sid.core.sid_resolver.sid_to_dict"
    D2S = "spil.sid.core.sid_resolver.dict_to_sid"
    AQ = "spil.sid.core.query_helper.apply_query"
    P2D = "spil.sid.pathops.fs_resolver.path_to_dict"
    for f, node, args in sites:
        flow = flow_of(f.node)
        cfg = cfg_of(f.node)
        at = flow.node_of(node)
        site = f"{f.qualname}: `{norm(node)[:90]}`"
        if not args or all(isinstance(v, ast.Constant) and v.value is None for v in args.values()):
            res.ok(site, "the empty instance: no string, no type, no fields", nontrivial=False)
            continue
        if set(args) != {"string", "type", "fields"}:
            res.violation([f.qualname, norm(node), "partial triple"], f"{f.short}: the Sid is initialised with {sorted(args)} only", f.relpath, node.lineno)
            continue
        S, T, F = args["string"], args["type"], args["fields"]

        def bad(msg):
            res.violation([f.qualname, norm(node), "incoherent triple"], f"{f.short}: {msg} (`{norm(node)[:100]}`)", f.relpath, node.lineno)

        if any(a.kind == "param" for a in flow.aliases(F, at.id)):
            bad("the Sid keeps the caller's dictionary as its fields (key order and later mutations of that dictionary leak into the Sid)")
            continue
        if not all(isinstance(x, ast.Name) for x in (S, T, F)):
            bad("string / type / fields are not plain local values produced by the resolvers")
            continue
        dS, dT, dF = (flow.defs_reaching(at.id, x.id) for x in (S, T, F))
        explained_S, explained_T = set(), set()
        ok = True
        why = []
        kinds = []
        for d in dF:
            call = d.value if isinstance(d.value, ast.Call) else None
            callee = _callee_name(ctx, f, call)
            if d.kind == "unpack" and callee == AQ and d.index == 2:
                s_ = [x for x in dS if x.value is call and x.index == 0]
                t_ = [x for x in dT if x.value is call and x.index == 1]
                if s_ and t_:
                    explained_S |= set(s_)
                    explained_T |= set(t_)
                    kinds.append("the triple returned by apply_query")
                    continue
                ok = False
                why.append("fields come from apply_query but string / type do not come from the same call")
            elif d.kind == "unpack" and callee == S2D and d.index == 1:
                a0 = call.args[0] if call.args else None
                cn = flow.node_of(call)
                if not (isinstance(a0, ast.Name) and a0.id == S.id):
                    ok = False
                    why.append("the fields were resolved from a different string than the one stored")
                    continue
                # the string value that was resolved is the one stored, unless a later statement replaces string and
                # fields together (the apply_query tuple)
                resolved_defs = set(flow.defs_reaching(cn.id, a0.id))
                for x in dS:
                    if x in resolved_defs:
                        explained_S.add(x)
                t_ = [x for x in dT if x.value is call and x.index == 0]
                forced = len(call.args) >= 2 and isinstance(call.args[1], ast.Name) and call.args[1].id == T.id
                if t_:
                    explained_T |= set(t_)
                    kinds.append("(type, fields) = sid_to_dict(string[, type])")
                elif forced:
                    tdefs_at_call = set(flow.defs_reaching(cn.id, T.id))
                    explained_T |= {x for x in dT if x in tdefs_at_call}
                    # the string must have been formatted by that very type
                    fmt_ok = all(x.kind == "assign" and isinstance(x.value, ast.Call) and _callee_name(ctx, f, x.value) == D2S
                                 and len(x.value.args) >= 2 and norm(x.value.args[1]) == T.id for x in dS if x in resolved_defs)
                    if fmt_ok:
                        kinds.append("string = dict_to_sid(data, T); fields = sid_to_dict(string, T)[1]; type = T")
                    else:
                        ok = False
                        why.append("forced type without a string formatted by that type")
                else:
                    ok = False
                    why.append("the fields were resolved without the type that is stored (natural typing may pick another template)")
            elif d.kind == "unpack" and callee == P2D and d.index == 1:
                t_ = [x for x in dT if x.value is call and x.index == 0]
                s_ok = [x for x in dS if x.kind == "assign" and isinstance(x.value, ast.Call) and _callee_name(ctx, f, x.value) == D2S
                        and len(x.value.args) >= 2 and norm(x.value.args[0]) == F.id and norm(x.value.args[1]) == T.id]
                if t_ and s_ok:
                    explained_T |= set(t_)
                    explained_S |= set(s_ok)
                    kinds.append("(type, fields) = path_to_dict(path); string = dict_to_sid(fields, type)")
                else:
                    ok = False
                    why.append("string is not formatted from the resolved (fields, type)")
            else:
                ok = False
                why.append(f"fields come from `{norm(d.value)[:40] if d.value is not None else d.kind}`, not from a resolver")
        if ok and (set(dS) - explained_S or set(dT) - explained_T):
            ok = False
            stray = [norm(x.value)[:40] if x.value is not None else x.kind for x in list(set(dS) - explained_S) + list(set(dT) - explained_T)]
            why.append(f"string / type can also come from {stray}, unrelated to the call that produced the fields")
        # a type that is known beforehand (forced, or found for a path) needs fields: the resolve-back / path resolve can
        # come out empty, and a Sid with a type but no fields is neither typed nor untyped
        forced_kind = any(k.startswith("string = dict_to_sid(data, T)") or k.startswith("(type, fields) = path_to_dict") for k in kinds)
        if ok and forced_kind:
            facts = facts_at(ctx, f, node)
            if (F.id, True) not in facts:
                ok = False
                why.append(f"`{F.id}` can be empty here while the type is set: the emptiness test of the resolved fields is missing")
            elif any(k.startswith("(type, fields) = path_to_dict") for k in kinds) and (S.id, True) not in facts:
                ok = False
                why.append(f"`{S.id}` can be empty here: the formatted string is not tested")
        if ok and kinds:
            res.ok(site, "; or ".join(dict.fromkeys(kinds)))
        else:
            bad("; ".join(dict.fromkeys(why)) or "string / type / fields come from unrelated producers")
    return res


def _same_value(flow, e1: ast.AST, at1: int, e2: ast.AST, at2: int) -> bool:
    """two occurrences of the same name see the same definitions"""
    if isinstance(e1, ast.Name) and isinstance(e2, ast.Name) and e1.id == e2.id:
        return set(flow.defs_reaching(at1, e1.id)) == set(flow.defs_reaching(at2, e2.id))
    return norm(e1) == norm(e2)


def _redefined_between(flow, cfg, name_expr: ast.AST, n1: int, n2: int) -> bool:
    """a definition of the variable lies on a path n1 -> n2 (after n1)"""
    if not isinstance(name_expr, ast.Name):
        return False
    for d in flow.all_defs:
        if d.var == name_expr.id and d.node not in (-1, n1) and cfg.path_exists(n1, d.node, exceptional=False) \
                and cfg.path_exists(d.node, n2, exceptional=False) and d.node != n2:
            return True
    return False
