"""C19 rules on conf.util: R-NAME R-OWN R-KEEP (extrapolate_templates), R-SEL (pattern_replacing),
R-EXTRAREF (the shipped configuration extrapolates, by the documented semantics, without clashes)."""
from __future__ import annotations

import ast
from typing import List, Optional, Set

from ..cfg import cfg_of
from ..context import Ctx
from ..dataflow import flow_of
from ..program import dotted, norm, own_nodes
from ..report import RuleResult
from .. import templates as T
from .config import sid_tables

EX = "spil.conf.util.extrapolate_templates"
PR = "spil.conf.util.pattern_replacing"


def rule_extrapolate(ctx: Ctx) -> RuleResult:
    res = RuleResult("R-EXTRAPOLATE")
    f = ctx.p.function(EX)
    flow = flow_of(f.node)
    cfg = cfg_of(f.node)
    tpl_p, list_p = f.params[0], f.params[1]
    # accumulator
    acc = None
    for r in [n for n in own_nodes(f.node) if isinstance(n, ast.Return)]:
        if isinstance(r.value, ast.Name):
            acc = r.value.id
    if acc is None:
        res.violation([EX, "result"], "extrapolate_templates does not return its accumulator", f.relpath, f.node.lineno)
        return res
    outer = [n for n in own_nodes(f.node) if isinstance(n, ast.For) and norm(n.iter) == f"{tpl_p}.items()"]
    if len(outer) != 1:
        res.violation([EX, "outer loop"], "extrapolate_templates does not walk the configured templates in order", f.relpath, f.node.lineno)
        return res
    ol = outer[0]
    tvar, pvar = [norm(x) for x in ol.target.elts]
    stores = [n for n in ast.walk(ol) if isinstance(n, ast.Assign) and isinstance(n.targets[0], ast.Subscript) and norm(n.targets[0].value) == acc]
    # R-KEEP: explicit entry first, unconditionally
    keep = [s for s in stores if norm(s.targets[0].slice) == tvar and norm(s.value) == pvar]
    if len(keep) == 1 and ol.body and ol.body[0] is keep[0]:
        res.ok("R-KEEP explicit entries", f"`{norm(keep[0])}` is the first statement of every iteration: kept, in configuration order")
    elif len(keep) == 1 and not ctx.ef._dominating_tests(cfg, keep[0]):
        res.ok("R-KEEP explicit entries", f"`{norm(keep[0])}` unconditional")
    else:
        res.violation([EX, "keep explicit"], "extrapolate_templates does not copy every configured (type, template) first and unconditionally", f.relpath, ol.lineno)
    gen = [s for s in stores if s not in keep]
    if len(gen) != 1:
        res.violation([EX, "insertion"], "extrapolate_templates does not have exactly one insertion of a generated type", f.relpath, ol.lineno)
        return res
    g = gen[0]
    name_var, tmpl_var = norm(g.targets[0].slice), norm(g.value)
    # generation only for listed types
    from ..shape import facts_at as _fa

    if (f"{tvar} in {list_p}", True) in _fa(ctx, f, g):
        res.ok("extrapolation scope", f"only under `{tvar} in {list_p}`: nothing is added for other types")
    else:
        res.violation([EX, "scope"], "generated types are not restricted to the listed types", f.relpath, g.lineno)
    # R-NAME
    at = flow.node_of(g)
    nd = flow.defs_reaching(at.id, name_var)
    ok = False
    why = ""
    if len(nd) == 1 and nd[0].value is not None:
        v = nd[0].value
        txt = norm(v)
        why = txt
        if isinstance(v, ast.BinOp):
            parts = _concat(v)
            if len(parts) == 3 and norm(parts[1]).endswith("sidtype_keytype_sep") and norm(parts[2]) == "key":
                b = parts[0]
                if isinstance(b, ast.Name):
                    bd = flow.defs_reaching(nd[0].node, b.id)
                    if len(bd) == 1 and bd[0].value is not None:
                        b = bd[0].value
                ok = norm(b) in (f"{tvar}.split(sidtype_keytype_sep)[0]", f"{tvar}.rsplit(sidtype_keytype_sep, 1)[0]",
                                 f"{tvar}.partition(sidtype_keytype_sep)[0]")
        if isinstance(v, ast.Call) and isinstance(v.func, ast.Attribute) and v.func.attr == "replace":
            why = f"`{txt}`: a replacement over the whole type name also rewrites the basetype when it contains the key name"
    if ok:
        # ... and the key is the placeholder's name: what precedes ':' in the template part, without the braces
        from ..shape import inline_locals as _il

        kd = [d for d in flow.defs_reaching(nd[0].node, "key")] if nd else []
        ktxt = norm(_il(f, kd[0].value, None)) if len(kd) == 1 and kd[0].value is not None else ""
        if kd and not ((".split(':')[0]" in ktxt or ".partition(':')[0]" in ktxt) and "'{'" in ktxt and "'}'" in ktxt) and "get_keys" not in ktxt:
            ok = False
            why = f"a key that is not the placeholder name of the template part (`key = {ktxt[:60]}`)"
    if ok:
        res.ok("R-NAME generated name", "basetype + separator + key, with basetype = type.split(separator)[0]")
    else:
        res.violation([EX, "generated name"], f"extrapolate_templates names generated types by {why or 'something else than basetype + separator + key'}",
                      f.relpath, nd[0].node and g.lineno)
    # the key is the last key of the prefix, the template the joined prefix; walk from longest to shortest
    inner = [n for n in ast.walk(ol) if isinstance(n, ast.For) and n is not ol]
    td = flow.defs_reaching(at.id, tmpl_var)
    tv = norm(td[0].value) if len(td) == 1 and td[0].value is not None else ""
    it = norm(inner[0].iter) if len(inner) == 1 else ""
    lv = norm(inner[0].target) if len(inner) == 1 else ""
    # the two spellings of "prefixes from longest to shortest"
    form_a = "reversed(parts)" in it and tv == "'/'.join(parts[:len(parts) - i])"
    form_b = it == "range(len(parts), 0, -1)" and tv == f"'/'.join(parts[:{lv}])"
    walk_ok = form_a or form_b
    tmpl_ok = walk_ok
    parts_d = [d for d in flow.all_defs if d.var == "parts" and d.value is not None]
    parts_ok = bool(parts_d) and norm(parts_d[0].value) == f"{pvar}.split('/')[:-1]"
    if walk_ok and tmpl_ok and parts_ok:
        res.ok("prefix walk", "prefixes of the template without its last segment, longest first, each joined by '/'")
    else:
        res.violation([EX, "prefix walk"], "extrapolate_templates no longer walks the '/'-prefixes from longest to shortest", f.relpath, ol.lineno)
    # R-OWN: both skip tests dominate the insertion and range over explicit and generated entries
    for what, var, src in (("template", tmpl_var, "values"), ("type name", name_var, "keys")):
        hit = None
        for t, lab in ctx.ef._dominating_tests(cfg, g):
            if lab == "false" and isinstance(t, ast.Compare) and isinstance(t.ops[0], ast.In) and norm(t.left) == var:
                hit = t
        if hit is None:
            res.violation([EX, f"skip test ({what})"], f"a generated {what} is inserted without the 'already owned' test", f.relpath, g.lineno)
            continue
        cont = hit.comparators[0]
        tn = cfg.node_of(hit)
        deps = flow.depends(cont, tn.id)
        sees_explicit = any(a.kind == "param" and a.text == tpl_p for a in deps)
        names_in = {x.id for x in ast.walk(cont) if isinstance(x, ast.Name)}
        sees_generated = acc in names_in or any(a.kind == "call" and a.text.startswith(acc + ".") for a in deps)
        if not sees_generated and isinstance(cont, ast.Name):
            # a running set: it must be extended with every inserted entry, next to the insertion
            adds = [n for n in ast.walk(ol) if isinstance(n, ast.Call) and isinstance(n.func, ast.Attribute) and n.func.attr == "add"
                    and norm(n.func.value) == cont.id and n.args and norm(n.args[0]) == var]
            if adds and all(cfg.on_all_paths(cfg.node_of(g).id, cfg.node_of(ol).id, [cfg.node_of(a).id]) or cfg.dominates(
                    cfg.node_of(a).id, cfg.node_of(g).id) for a in adds):
                sees_generated = True
        # being owned skips this level only: the walk goes on with the next shorter prefix
        stops = []
        for n_ in cfg.nodes:
            if isinstance(n_.ast, (ast.Break, ast.Return, ast.Raise)) and cfg.dominates(tn.id, n_.id) \
                    and not cfg.path_exists(tn.id, n_.id, skip_edges=[(tn.id, "true")]):
                stops.append(n_)
        if stops:
            res.violation([EX, f"skip test ({what})", "stops the walk"],
                          f"extrapolate_templates: when a {what} is already owned the walk up the template stops "
                          f"(`{type(stops[0].ast).__name__.lower()}`) instead of going on with the next shorter prefix: unowned prefixes above "
                          f"an owned level get no type", f.relpath, stops[0].lineno)
            continue
        if sees_explicit and sees_generated:
            res.ok(f"R-OWN skip if the {what} is taken", f"`{norm(hit)[:70]}` ranges over configured and already generated entries")
        else:
            miss = "configured" if not sees_explicit else "already generated"
            res.violation([EX, f"skip test ({what})", miss], f"extrapolate_templates: the 'already owned' test for the {what} does not see the {miss} "
                                                            f"entries (`{norm(hit)[:70]}`): duplicates appear when two extrapolated types share a prefix",
                          f.relpath, hit.lineno)
    return res


def _concat(e: ast.AST) -> List[ast.AST]:
    if isinstance(e, ast.BinOp) and isinstance(e.op, ast.Add):
        return _concat(e.left) + _concat(e.right)
    return [e]


def _copy_groups(scope: ast.AST):
    """names of ``scope`` that only ever exchange their value by plain copies (``a = b``) or by rewriting themselves
    (``a = a.replace(..)``) stand for one variable; returns a predicate same(a, b)"""
    parent: dict = {}

    def find(x):
        parent.setdefault(x, x)
        while parent[x] != x:
            parent[x] = parent[parent[x]]
            x = parent[x]
        return x

    for n in ast.walk(scope):
        if isinstance(n, ast.Assign) and len(n.targets) == 1 and isinstance(n.targets[0], ast.Name) and isinstance(n.value, ast.Name):
            parent[find(n.targets[0].id)] = find(n.value.id)
    return lambda a, b: find(a) == find(b)


def rule_sel(ctx: Ctx) -> RuleResult:
    res = RuleResult("R-SEL")
    f = ctx.p.function(PR)
    flow = flow_of(f.node)
    cfg = cfg_of(f.node)
    tpl_p, kp_p = f.params[0], f.params[1]
    outer = [n for n in own_nodes(f.node) if isinstance(n, ast.For) and tpl_p in norm(n.iter)]
    if len(outer) != 1 or not isinstance(outer[0].target, ast.Tuple):
        res.violation([PR, "outer loop"], "pattern_replacing does not walk the templates", f.relpath, f.node.lineno)
        return res
    ol = outer[0]
    tvar, pvar = [norm(x) for x in ol.target.elts]
    if "copy" not in norm(ol.iter) and "list(" not in norm(ol.iter):
        res.violation([PR, "iterates the live dict"], "pattern_replacing assigns into the dictionary it iterates without a copy", f.relpath, ol.lineno)
    same = _copy_groups(ol)
    repl = [n for n in ast.walk(ol) if isinstance(n, ast.Call) and isinstance(n.func, ast.Attribute) and n.func.attr == "replace"
            and isinstance(n.func.value, ast.Name) and same(n.func.value.id, pvar)]
    if len(repl) != 1:
        res.violation([PR, "replacement"], "pattern_replacing has not exactly one textual replacement on the template", f.relpath, ol.lineno)
        return res
    r = repl[0]
    from ..shape import facts_at

    facts = facts_at(ctx, f, r)
    sel = [t for t, truth in facts if truth and t.endswith(f" in {tvar}")]
    ok = False
    if sel:
        m = sel[0][: -len(f" in {tvar}")]
        # the selector iterates the key_patterns of this call, inside the per-template loop, for every type anew
        sel_loops = [n for n in ast.walk(ol) if isinstance(n, ast.For) and kp_p in norm(n.iter) and (
            norm(n.target) == m or (isinstance(n.target, ast.Tuple) and norm(n.target.elts[0]) == m))]
        pair_loops = [n for n in ast.walk(ol) if isinstance(n, ast.For) and isinstance(n.target, ast.Tuple)
                      and [norm(a) for a in r.args] == [norm(x_) for x_ in n.target.elts] and any(x_ is r for x_ in ast.walk(n))]
        if sel_loops and pair_loops:
            from ..shape import inline_locals

            it = norm(inline_locals(f, pair_loops[0].iter, pair_loops[0]))
            second = norm(sel_loops[0].target.elts[1]) if isinstance(sel_loops[0].target, ast.Tuple) else None
            if (kp_p in it and m in it) or (second and it == f"{second}.items()"):
                ok = True
    if ok:
        res.ok("R-SEL replacement", f"template.replace(find, replace) only when `{sel[0]}`, evaluated for every type and every selector")
    elif sel:
        res.violation([PR, "selector loop"], "pattern_replacing does not apply the find/replace pairs of each matching selector", f.relpath, r.lineno)
    else:
        res.violation([PR, "selector test"], f"pattern_replacing rewrites a template without testing the selector against that type's own name "
                                             f"(`<selector> in {tvar}`): types the selector does not match are rewritten, or matching ones skipped",
                      f.relpath, r.lineno)
    # assignment only to existing keys, one per type
    stores = [n for n in ast.walk(ol) if isinstance(n, ast.Assign) and isinstance(n.targets[0], ast.Subscript) and norm(n.targets[0].value) == tpl_p]
    if len(stores) == 1 and norm(stores[0].targets[0].slice) == tvar and isinstance(stores[0].value, ast.Name) and same(stores[0].value.id, pvar):
        res.ok("R-SEL write-back", f"`{norm(stores[0])}`: only existing types are written, each with its own template")
    else:
        res.violation([PR, "write-back"], "pattern_replacing writes something else than templates[type] = template", f.relpath, ol.lineno)
    return res


def rule_extraref(ctx: Ctx) -> RuleResult:
    """on the shipped configuration the documented extrapolation yields no duplicate name or template"""
    res = RuleResult("R-EXTRAREF")
    tabs = sid_tables(ctx)
    ex = tabs["extrapolated"]
    names = list(ex.keys())
    tpls = list(ex.values())
    dup_t = sorted({t for t in tpls if tpls.count(t) > 1})
    if dup_t:
        owners = [n for n, t in ex.items() if t == dup_t[0]]
        res.violation(["sid_templates", "duplicate template", dup_t[0]], f"types {owners} share the template {dup_t[0]}: only the first can ever be "
                                                                        f"resolved", "spil_hamlet_conf/spil_sid_conf.py", 0)
    else:
        res.ok("extrapolated sid templates", f"{len(names)} types, {len(set(tpls))} distinct templates")
    explicit = tabs["explicit"]
    if [n for n in names if n in explicit] == list(explicit.keys()):
        res.ok("explicit order", "configured types keep their relative order")
    else:
        res.violation(["sid_templates", "order"], "explicit types are re-ordered by extrapolation", "spil_hamlet_conf/spil_sid_conf.py", 0)
    for t in tabs["to_extrapolate"]:
        if t not in explicit:
            res.violation(["to_extrapolate", t], f"to_extrapolate lists '{t}', which is not a configured type", "spil_hamlet_conf/spil_sid_conf.py", 0)
    return res
