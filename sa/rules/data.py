"""Data access rules: R-CHKEFF R-SET R-OVERLAY R-SIDECAR (C15), R-YIELD1 R-GETDATA R-MUTDEFAULT (C16),
R-ATOMIC R-TOLERANT (C17)."""
from __future__ import annotations

import ast
from typing import Dict, List, Optional, Set, Tuple

from ..cfg import cfg_of
from ..context import Ctx
from ..dataflow import flow_of
from ..program import FunctionInfo, dotted, norm, own_nodes
from ..report import RuleResult
from .mutation import _param_effects
from ..shape import expanded, facts_at, inline_locals, ntext

WRITE_CALLS = {"_create_parent", "_write_data"}
WRITE_METHODS = {"mkdir", "touch", "write_text", "write_bytes", "unlink", "rename", "replace"}
WRITE_FUNCS = {"shutil.copy2", "shutil.copy", "shutil.move", "os.replace", "os.rename", "os.makedirs", "os.mkdir", "os.remove"}


def _rets(f):
    return [n for n in own_nodes(f.node) if isinstance(n, ast.Return)]


def _write_nodes(f: FunctionInfo) -> List[ast.Call]:
    out = []
    for n in own_nodes(f.node):
        if isinstance(n, ast.Call):
            nm = dotted(n.func) or ""
            if nm in WRITE_CALLS or nm in WRITE_FUNCS or (isinstance(n.func, ast.Attribute) and n.func.attr in WRITE_METHODS
                                                           and not nm.startswith("str") and not isinstance(n.func.value, ast.Constant)):
                out.append(n)
    return out


def rule_chkeff(ctx: Ctx) -> RuleResult:
    res = RuleResult("R-CHKEFF")
    for q, must_exist in (("spil.sid.pathops.write_paths.WriteToPaths.create", False), ("spil.sid.pathops.write_paths.WriteToPaths.update", True)):
        f = ctx.p.function(q)
        flow = flow_of(f.node)
        cfg = cfg_of(f.node)
        writes = _write_nodes(f)
        res.floor(len(writes), 1, f"file-system effects in {f.short}")
        # the precondition tests
        exists_tests = []
        nopath_tests = []
        for t in cfg.nodes:
            if t.kind != "test" or not isinstance(t.ast, ast.If):
                continue
            txt = norm(t.ast.test)
            raises = [x for x in t.ast.body if isinstance(x, ast.Raise)]
            is_spil = raises and isinstance(raises[0].exc, ast.Call) and dotted(raises[0].exc.func) == "SpilException"
            import re as _re

            # the names the path of the Sid goes by: locals bound to `<sid>.path(self.config)`
            pvars = {d.var for d in flow.all_defs if d.kind == "assign" and isinstance(d.value, ast.Call) and isinstance(d.value.func, ast.Attribute)
                     and d.value.func.attr == "path" and [norm(a) for a in d.value.args] == ["self.config"]} | {"path"}
            m_ex = _re.fullmatch(r"(not )?(\w+)\.exists\(\)", txt)
            if m_ex and m_ex.group(2) in pvars:
                exists_tests.append((t, ("not " if m_ex.group(1) else "") + "path.exists()", is_spil))
            if _re.fullmatch(r"not \w+\.path\(self\.config\)", txt) or (txt.startswith("not ") and txt[4:] in pvars):
                nopath_tests.append((t, txt, is_spil))
        want = "not path.exists()" if must_exist else "path.exists()"
        good = [t for t, txt, spil in exists_tests if txt == want and spil]
        if not good:
            res.violation([q, "precondition"], f"{f.short} does not raise SpilException when the entity "
                                               f"{'does not exist' if must_exist else 'already exists'} (`if {want}: raise SpilException`)",
                          f.relpath, f.node.lineno)
            continue
        t = good[0]
        # the tested path is the Sid's path in this writer's configuration
        at = t.id
        deps = flow.depends(t.ast.test, at)
        if not any(a.kind == "attr" and a.text == "self.config" for a in deps) or not any(a.kind == "call" and a.text.endswith(".path") for a in deps):
            res.violation([q, "precondition path"], f"{f.short}: the existence test is not made on `_sid.path(self.config)` itself", f.relpath, t.lineno)
        for w in writes:
            wn = cfg.node_of(w)
            site = f"{f.short}: `{norm(w)[:50]}`"
            if cfg.dominates(t.id, wn.id) and not cfg.path_exists(t.id, wn.id, skip_edges=[(t.id, "false")]):
                res.ok(site, f"only reachable when `{want}` is false")
            else:
                res.violation([q, norm(w.func), "effect before check"], f"{f.short}: `{norm(w)[:60]}` can run although the entity "
                                                                        f"{'does not exist' if must_exist else 'already exists'}: a failing call "
                                                                        f"changes the file system", f.relpath, w.lineno, site=site)
        if not nopath_tests or not nopath_tests[0][2]:
            res.violation([q, "no-path precondition"], f"{f.short} does not raise SpilException for a Sid without path", f.relpath, f.node.lineno)
        else:
            res.ok(f"{f.short}: Sid without path", "raises SpilException before any effect")
    # create / update report what happened: False is answered only when the path is not there afterwards, the given data is
    # written whenever some was given
    for q in ("spil.sid.pathops.write_paths.WriteToPaths.create", "spil.sid.pathops.write_paths.WriteToPaths.update"):
        g = ctx.p.function(q)
        data_p = g.params[2] if len(g.params) > 2 else "data"
        for r in [n for n in own_nodes(g.node) if isinstance(n, ast.Return) and isinstance(n.value, ast.Constant) and n.value.value is False]:
            # the innermost existence test decides
            last = None
            for t_, lab_ in ctx.ef._dominating_tests(cfg_of(g.node), r):
                if ".exists()" in norm(t_):
                    last = (t_, lab_)
            from ..shape import _atomise, _norm_fact
            fs = {(_norm_fact(e_), tr_) for e_, tr_ in _atomise(last[0], last[1] == "true")} if last else set()
            if any(t.endswith(".exists()") and truth for t, truth in fs) and not any(t.endswith(".exists()") and not truth for t, truth in fs):
                res.violation([q, "reports failure on success"], f"{g.short} answers False when the path exists (and goes on when it does not): a "
                                                                 f"created entity is reported as failed and its data is not written", g.relpath, r.lineno)
        for c in [n for n in own_nodes(g.node) if isinstance(n, ast.Call) and (dotted(n.func) or "").split(".")[-1] == "_write_data"]:
            fs = facts_at(ctx, g, c)
            if (data_p, False) in fs:
                res.violation([q, "data not written"], f"{g.short} writes the data only when none was given", g.relpath, c.lineno)
            elif q.endswith(".create") and (data_p, True) not in fs:
                res.note(f"{g.short}: `{norm(c)[:40]}`", "data written unconditionally")
            else:
                res.ok(f"{g.short}: `{norm(c)[:40]}`", "the given data is written (when there is some)")
    # create: parents first, directories with parents=True
    cr = ctx.p.function("spil.sid.pathops.write_paths.WriteToPaths.create")
    cfg = cfg_of(cr.node)
    for w in _write_nodes(cr):
        nm = dotted(w.func) or ""
        if nm in ("shutil.copy2", "shutil.copy") or (isinstance(w.func, ast.Attribute) and w.func.attr == "touch"):
            parents = [cfg.node_of(x).id for x in _write_nodes(cr) if dotted(x.func) == "_create_parent"]
            if cfg.on_all_paths(cfg.entry.id, cfg.node_of(w).id, parents):
                res.ok(f"create: `{norm(w)[:40]}`", "preceded by _create_parent(path) on every path")
            else:
                res.violation([cr.qualname, norm(w.func), "parent folder"], f"create: `{norm(w)[:50]}` can run without its parent folders", cr.relpath, w.lineno)
        if isinstance(w.func, ast.Attribute) and w.func.attr == "mkdir":
            if any(k.arg == "parents" and norm(k.value) == "True" for k in w.keywords):
                res.ok(f"create: `{norm(w)}`", "creates the ancestors too")
            else:
                res.violation([cr.qualname, "mkdir", "parents"], "create: a folder entity is created without its ancestors", cr.relpath, w.lineno)
    # a path with a suffix is created as a file, one without as a folder
    sfx = None
    for d in flow_of(cr.node).all_defs:
        if d.kind == "assign" and d.value is not None and norm(d.value).endswith(".suffix"):
            sfx = d.var
    for w in _write_nodes(cr):
        nm = dotted(w.func) or ""
        is_file = nm in ("shutil.copy2", "shutil.copy", "shutil.copyfile") or (isinstance(w.func, ast.Attribute) and w.func.attr == "touch")
        is_dir = isinstance(w.func, ast.Attribute) and w.func.attr == "mkdir" and "parent" not in norm(w.func.value)
        if not (is_file or is_dir):
            continue
        fs = facts_at(ctx, cr, w)
        has = {truth for t, truth in fs if t == sfx or t.endswith(".suffix")}
        want = is_file
        if has == {want}:
            res.ok(f"create: `{norm(w)[:40]}`", f"a path {'with' if want else 'without'} suffix is created as a {'file' if want else 'folder'}")
        elif has:
            res.violation([cr.qualname, norm(w.func), "kind of entity"], f"create: `{norm(w)[:50]}` runs for a path "
                                                                         f"{'without' if want else 'with'} a suffix: a file entity is created as a folder "
                                                                         f"(or the reverse)", cr.relpath, w.lineno)
    cp = ctx.p.function("spil.sid.pathops.write_paths._create_parent")
    if any(isinstance(n, ast.Call) and isinstance(n.func, ast.Attribute) and n.func.attr == "mkdir" and any(
            k.arg == "parents" and norm(k.value) == "True" for k in n.keywords) and ntext(cp, n.func.value, n) == f"{cp.params[0]}.parent"
            for n in own_nodes(cp.node)):
        res.ok("_create_parent", "path.parent.mkdir(parents=True)")
    else:
        res.violation([cp.qualname, "parents"], "_create_parent does not create all missing ancestors of the path", cp.relpath, cp.node.lineno)
    return res


def rule_set(ctx: Ctx) -> RuleResult:
    res = RuleResult("R-SET")
    f = ctx.p.function("spil.sid.pathops.write_paths.WriteToPaths.set")
    cfg = cfg_of(f.node)
    a = f.node.args
    kw = a.kwarg.arg if a.kwarg else None
    # the mapping that is handed on: the keyword mapping itself, or a fresh copy of it (dict(kwargs), {**kwargs}, kwargs.copy())
    sflow = flow_of(f.node)
    carriers = {kw} | {d.var for d in sflow.all_defs if d.kind == "assign" and d.value is not None and norm(d.value) in (
        f"dict({kw})", f"{{**{kw}}}", f"{kw}.copy()", f"dict(**{kw})")}
    fold = [n for n in own_nodes(f.node) if isinstance(n, ast.Assign) and isinstance(n.targets[0], ast.Subscript)
            and norm(n.targets[0].value) in carriers and norm(n.targets[0].slice) == "attribute" and norm(n.value) == "value"]
    if fold:
        kw = norm(fold[0].targets[0].value)
    ok = False
    why = "`kwargs[attribute] = value` is missing"
    if fold:
        tests = [(norm(t), lab) for t, lab in ctx.ef._dominating_tests(cfg, fold[0])]
        if tests == [("attribute", "true")]:
            ok = True
        else:
            why = f"the attribute/value pair is only written under `{[t for t, _ in tests]}`: a falsy value (0, '', False, None) is silently dropped"
    rets = _rets(f)
    deleg = any(r.value is not None and norm(r.value) in (f"self.update(sid, data={kw})", f"self.update(sid, {kw})") for r in rets)
    if ok and deleg:
        res.ok("WriteToPaths.set", "attribute/value folded into the keyword mapping whenever an attribute is named; delegates to update(sid, data=kwargs)")
    else:
        res.violation([f.qualname, "set"], f"WriteToPaths.set: {why if not ok else 'does not delegate to self.update(sid, data=kwargs)'}", f.relpath, f.node.lineno)
    return res


def rule_overlay(ctx: Ctx) -> RuleResult:
    res = RuleResult("R-OVERLAY")
    f0 = ctx.p.function("spil.sid.pathops.write_paths._write_data")
    f = expanded(ctx, f0)
    flow = flow_of(f.node)
    data_p = f.params[1]
    loads = [n for n in own_nodes(f.node) if isinstance(n, ast.Call) and dotted(n.func) in ("json.load", "json.loads")]
    upd = [n for n in own_nodes(f.node) if isinstance(n, ast.Call) and isinstance(n.func, ast.Attribute) and n.func.attr == "update"]
    dumps = [n for n in own_nodes(f.node) if isinstance(n, ast.Call) and dotted(n.func) in ("json.dumps", "json.dump")]
    if len(loads) != 1 or len(upd) != 1 or len(dumps) != 1:
        res.violation([f.qualname, "load-merge-dump"], "_write_data is not load, update, dump", f.relpath, f.node.lineno)
        return res
    u = upd[0]
    at = flow.node_of(u)
    recv_from_load = any(a.kind == "call" and a.text in ("json.load", "json.loads") for a in flow.depends(u.func.value, at.id))
    arg_is_new = u.args and any(a.kind == "param" and a.text == data_p for a in flow.aliases(u.args[0], at.id))
    hides = False
    for n in own_nodes(f.node):
        if isinstance(n, ast.BoolOp) and isinstance(n.op, ast.And) and any(x is loads[0] for v in n.values[:-1] for x in ast.walk(v)):
            hides = True
    if hides:
        res.violation([f.qualname, "stored data dropped"], "_write_data: the loaded sidecar content is the left operand of an `and`: what was stored "
                                                          "is thrown away whenever there is some, keys written earlier do not persist", f.relpath,
                      loads[0].lineno)
    elif recv_from_load and arg_is_new:
        res.ok("_write_data merge", "previous.update(new): later values replace earlier ones, other keys persist")
    else:
        res.violation([f.qualname, "merge direction"], f"_write_data: `{norm(u)}` does not overlay the new data onto the stored data", f.relpath, u.lineno)
    d = dumps[0]
    dn = flow.node_of(d)
    al = flow.aliases(d.args[0], dn.id) if d.args else set()
    dp = flow.depends(d.args[0], dn.id) if d.args else set()
    kinds = set()
    if any(a.kind == "param" and a.text == data_p for a in al):
        kinds.add("new")
    if any(a.kind == "call" and a.text in ("json.load", "json.loads") for a in al | dp):
        kinds.add("merged")
    if kinds == {"new", "merged"}:
        res.ok("_write_data dump", "dumps the merged mapping when a sidecar exists, else the new mapping")
    else:
        res.violation([f.qualname, "dumped value"], f"_write_data dumps {sorted(kinds) or 'something else'} instead of merged-or-new", f.relpath, d.lineno)
    _update_writes(ctx, res)
    # inside _write_data: no answer other than failure before the merged mapping has been dumped
    wcfg = cfg_of(f.node)
    dnode = wcfg.node_of(d)
    early = [r for r in _rets(f) if not (r.value is None or (isinstance(r.value, ast.Constant) and r.value.value in (False, None)))
             and dnode is not None and wcfg.node_of(r) is not None and not wcfg.on_all_paths(wcfg.entry.id, wcfg.node_of(r).id, [dnode.id])]
    for r in early:
        res.violation([f.qualname, "return without dump", norm(r)[:40]],
                      f"_write_data: `{norm(r)[:60]}` is reachable without dumping the data: the write answers (success) although nothing was "
                      f"stored, so a later read is not the overlay of everything written", f.relpath, r.lineno)
    if not early:
        res.ok("_write_data returns", "every return that does not report failure comes after the dump")
    facts = facts_at(ctx, f, u)
    if any(t.endswith(".exists()") and truth for t, truth in facts):
        res.ok("_write_data exists branch", "merge only when the sidecar exists")
    else:
        res.violation([f.qualname, "exists branch"], "_write_data does not merge under `if <sidecar>.exists()`", f.relpath, u.lineno)
    return res


def _update_writes(ctx: Ctx, res: RuleResult) -> None:
    """WriteToPaths.update: every return that does not report failure (constant False / None) comes after a call that
    reaches _write_data - an update that answers without writing drops what it was given (the read-back is then not the
    overlay of everything written)."""
    W = "spil.sid.pathops.write_paths._write_data"
    f = ctx.p.function("spil.sid.pathops.write_paths.WriteToPaths.update")
    cfg = cfg_of(f.node)
    reach = {W}
    changed = True
    while changed:  # library functions from which _write_data is reached on some path (wrappers)
        changed = False
        for g in ctx.p.iter_functions(kinds=("library",)):
            if g.qualname not in reach and any(t.qualname in reach for cs in ctx.cg.sites.get(g.qualname, []) for t in cs.targets):
                if g.module is f.module and g.qualname != f.qualname:
                    reach.add(g.qualname)
                    changed = True
    wnodes = [cfg.node_of(cs.node).id for cs in ctx.cg.sites.get(f.qualname, []) if any(t.qualname in reach for t in cs.targets)
              and cfg.node_of(cs.node) is not None]
    if not wnodes:
        res.violation([f.qualname, "writes"], "WriteToPaths.update never reaches _write_data", f.relpath, f.node.lineno)
        return
    bad = 0
    rets = _rets(f)
    for r in rets:
        if r.value is None or (isinstance(r.value, ast.Constant) and r.value.value in (False, None)):
            continue
        rn = cfg.node_of(r)
        if rn is None or not cfg.on_all_paths(cfg.entry.id, rn.id, wnodes):
            bad += 1
            res.violation([f.qualname, "return without write", norm(r)[:40]],
                          f"WriteToPaths.update: `{norm(r)[:60]}` is reachable without _write_data: the call answers (success) although "
                          f"the data it was given was not written, so a later read is not the overlay of everything written", f.relpath, r.lineno)
    if not bad:
        res.ok(f"WriteToPaths.update: {len(rets)} returns", "every return that does not report failure comes after _write_data")


def rule_sidecar(ctx: Ctx) -> RuleResult:
    """writer and reader derive the sidecar path from the Sid's own path, by the same function"""
    res = RuleResult("R-SIDECAR")
    g = ctx.p.function("spil_data_conf.get_data_json_path")
    flow = flow_of(g.node)
    ok = False
    for r in _rets(g):
        deps = flow.depends(r.value)
        ps = {a.text for a in deps if a.kind == "param"}
        free = {a.text for a in deps if a.kind == "free"}
        calls = {a.text.split(".")[-1] for a in deps if a.kind == "call"}
        ok = ps == {g.params[0]} and free <= {"path_data_suffix"} and {"with_name", "with_suffix"} <= calls
    if ok:
        res.ok("get_data_json_path", "sid_path.with_name('.' + name).with_suffix(suffix): a function of the Sid path alone, a sibling of it")
    else:
        res.violation([g.qualname, "sidecar location"], "get_data_json_path is no longer a pure function of the Sid path (hidden sibling with the data suffix)",
                      g.relpath, g.node.lineno)
    for q in ("spil.sid.pathops.write_paths._write_data", "spil.sid.pathops.getter_paths.GetFromPaths.get_data"):
        f = ctx.p.function(q)
        fl = flow_of(f.node)
        calls = [n for n in own_nodes(f.node) if isinstance(n, ast.Call) and dotted(n.func) == "get_data_json_path"]
        if len(calls) != 1 or len(calls[0].args) != 1:
            res.violation([q, "sidecar path"], f"{f.short} does not locate the sidecar with get_data_json_path(<sid path>)", f.relpath, f.node.lineno)
            continue
        deps = fl.depends(calls[0].args[0])
        if q.endswith("get_data"):
            good = any(a.kind == "call" and a.text == "_sid.path" for a in deps) and any(a.kind == "attr" and a.text == "self.config" for a in deps)
        else:
            good = any(a.kind == "param" and a.text == f.params[0] for a in deps)
        if good:
            res.ok(f"{f.short}: sidecar path", "get_data_json_path(path of the Sid in this configuration)")
        else:
            res.violation([q, "sidecar path argument"], f"{f.short}: the sidecar is not derived from the Sid's own path", f.relpath, calls[0].lineno)
    for q in ("spil.sid.pathops.write_paths.WriteToPaths.create", "spil.sid.pathops.write_paths.WriteToPaths.update"):
        f = ctx.p.function(q)
        calls = [n for n in own_nodes(f.node) if isinstance(n, ast.Call) and dotted(n.func) == "_write_data"]
        if calls and all(norm(c.args[0]) == "path" and norm(c.args[1]) == "data" for c in calls):
            res.ok(f"{f.short} -> _write_data", "_write_data(path, data)")
        else:
            res.violation([q, "_write_data call"], f"{f.short} does not write (path, data)", f.relpath, f.node.lineno)
    return res


# ------------------------------------------------------------------------------------------------ C16
def _hides_record(expr: ast.AST, call: ast.AST) -> bool:
    """the data call sits in an `and` whose last operand is something else (`data and {}`), or under `not`"""
    for x in ast.walk(expr):
        if isinstance(x, ast.BoolOp) and isinstance(x.op, ast.And) and any(any(y is call or norm(y) == norm(call) for y in ast.walk(v)) for v in x.values[:-1]):
            return True
        if isinstance(x, ast.UnaryOp) and isinstance(x.op, ast.Not) and any(y is call or norm(y) == norm(call) for y in ast.walk(x.operand)):
            return True
    return False


def rule_yield1(ctx: Ctx) -> RuleResult:
    res = RuleResult("R-YIELD1")
    for q, finder_call in (("spil.sid.read.getters.getter_finder.GetByFinder.get", "find"),
                           ("spil.sid.read.getters.getter_finder.GetByFinder.do_get", "do_find")):
        f = expanded(ctx, ctx.p.function(q))
        loops = [n for n in own_nodes(f.node) if isinstance(n, ast.For)]
        ok = False
        why = "no loop over the finder's results"
        if len(loops) == 1:
            lp = loops[0]
            it = inline_locals(f, lp.iter, lp)
            var = norm(lp.target)
            good_iter = isinstance(it, ast.Call) and norm(it.func) == f"self.finder.{finder_call}" and any(
                k.arg == "as_sid" and norm(k.value) == "True" for k in it.keywords)
            fwd = isinstance(it, ast.Call) and any(norm(k.value) == k.arg for k in it.keywords if k.arg in ("search_sid", "search_sids")) or (
                isinstance(it, ast.Call) and it.args and norm(it.args[0]) in ("search_sid", "search_sids"))
            ys = [x for x in ast.walk(lp) if isinstance(x, ast.Yield)]
            body_top = [s for s in lp.body]
            top_yields = [s for s in body_top if isinstance(s, ast.Expr) and isinstance(s.value, ast.Yield)]
            if not good_iter or not fwd:
                why = f"the loop does not iterate self.finder.{finder_call}(<the search>, as_sid=True)"
            elif len(ys) != 1 or len(top_yields) != 1:
                why = "not exactly one unconditional yield per found Sid (a record is dropped or doubled)"
            else:
                flow = flow_of(f.node)
                y = ys[0]
                deps = flow.depends(y.value)
                gd = [a for a in deps if a.kind == "call" and a.text == "self.get_data"]
                if not gd or not (gd[0].node.args and norm(gd[0].node.args[0]) == var):
                    why = "the yielded record is not self.get_data(<the found Sid>, ...)"
                elif any(isinstance(s, (ast.Break, ast.Continue, ast.Return)) for s in ast.walk(lp)):
                    why = "the loop can skip or stop early"
                elif _hides_record(inline_locals(f, y.value, y), gd[0].node):
                    why = f"`{norm(y.value)[:60]}` does not hand the record on (it is replaced whenever it is non-empty)"
                else:
                    ok = True
        if ok:
            res.ok(f.short, f"one unconditional `yield self.get_data(sid, ...) or {{}}` per Sid of self.finder.{finder_call}(...), in its order")
        else:
            res.violation([q, "one record per Sid"], f"{f.short}: {why}", f.relpath, f.node.lineno)
    # GetFromAll.get passes every record through
    ga = ctx.p.function("spil.sid.read.getters.getter_all.GetFromAll.get")
    ys = [n for n in own_nodes(ga.node) if isinstance(n, (ast.Yield, ast.YieldFrom))]
    cfg = cfg_of(ga.node)
    ok = len(ys) == 1 and isinstance(ys[0], ast.YieldFrom)
    if ok:
        flow = flow_of(ga.node)
        deps = flow.depends(ys[0].value)
        ok = any(a.kind == "call" and a.text.endswith(".do_get") for a in deps)
        tests = [norm(t) for t, lab in ctx.ef._dominating_tests(cfg, ys[0])]
        ok = ok and not tests
    if ok:
        res.ok("GetFromAll.get", "`yield from getter.do_get(...)`: every record of every configured Getter, unfiltered")
    else:
        res.violation([ga.qualname, "pass-through"], "GetFromAll.get filters, de-duplicates or re-packs the records of its Getters instead of "
                                                     "`yield from getter.do_get(...)`: not one record per found Sid any more", ga.relpath, ga.node.lineno)
    # first-record helpers
    g1 = ctx.p.function("spil.sid.read.getter.Getter.get_one")
    if any(isinstance(n, ast.Call) and dotted(n.func) == "first" and n.args and norm(n.args[0]).startswith("self.get(search_sid") for n in own_nodes(g1.node)):
        res.ok("Getter.get_one", "first(self.get(...)) or {}")
    else:
        res.violation([g1.qualname, "first record"], "get_one is not the first record of get()", g1.relpath, g1.node.lineno)
    gd = ctx.p.function("spil.sid.read.getter.Getter.get_data")
    if any(r.value is not None and norm(r.value).startswith("self.get_one(search_sid=sid") for r in _rets(gd)):
        res.ok("Getter.get_data", "get_one(search_sid=sid, ...)")
    else:
        res.violation([gd.qualname, "delegation"], "Getter.get_data is not get_one(search_sid=sid, ...)", gd.relpath, gd.node.lineno)
    gt = ctx.p.function("spil.sid.read.getter.Getter.get_attr")
    if any(r.value is not None and norm(r.value) == "self.get_data(sid).get(attribute)" for r in _rets(gt)):
        res.ok("Getter.get_attr", "get_data(sid).get(attribute)")
    else:
        res.violation([gt.qualname, "delegation"], "Getter.get_attr is not get_data(sid).get(attribute)", gt.relpath, gt.node.lineno)
    # the iteration over the Finder lives in GetByFinder alone: no Getter built on a Finder replaces it with a path of its own
    base = ctx.p.cls("spil.sid.read.getters.getter_finder.GetByFinder")
    n_sub = 0
    for k in ctx.p.subclasses(base):
        if k.module.kind not in ("library", "config") or k.module.name == "spil.sid.read.finders.find_cache":
            continue
        n_sub += 1
        for nm in ("get", "do_get", "get_one"):
            if nm in k.methods:
                m = k.methods[nm]
                outs = [n for n in own_nodes(m.node) if isinstance(n, (ast.Yield, ast.YieldFrom)) or (isinstance(n, ast.Return) and n.value is not None)]
                if len(outs) == 1 and not isinstance(outs[0], ast.Yield) and norm(outs[0].value).startswith(f"super().{nm}(") and not any(
                        isinstance(n, ast.Return) and n.value is None for n in own_nodes(m.node)) and not facts_at(ctx, m, outs[0]):
                    continue  # a wrapper around the inherited iteration
                res.violation([k.qualname, nm, "override"], f"{k.name} overrides {nm}: its records are no longer one per Sid of its Finder, in the Finder's order",
                              k.methods[nm].relpath, k.methods[nm].node.lineno)
    res.ok("GetByFinder subclasses", f"{n_sub} subclass(es), none overrides get / do_get / get_one", nontrivial=False)
    return res


def rule_getdata(ctx: Ctx) -> RuleResult:
    res = RuleResult("R-GETDATA")
    f = expanded(ctx, ctx.p.function("spil.sid.pathops.getter_paths.GetFromPaths.get_data"))
    flow = flow_of(f.node)
    cfg = cfg_of(f.node)
    # the record dictionary is fresh per call
    stores = [n for n in own_nodes(f.node) if isinstance(n, ast.Assign) and isinstance(n.targets[0], ast.Subscript)
              and norm(n.targets[0].slice) == "'sid'"]
    if len(stores) != 1:
        res.violation([f.qualname, "sid entry"], "get_data does not set the 'sid' entry exactly once", f.relpath, f.node.lineno)
        return res
    st = stores[0]
    at = flow.node_of(st)
    al = flow.aliases(st.targets[0].value, at.id)
    fresh = all(a.kind == "fresh" or (a.kind == "call" and a.text in ("json.load", "json.loads")) for a in al)
    if fresh:
        res.ok("get_data record", "a dictionary created in this call ({} or the freshly loaded json)")
    else:
        res.violation([f.qualname, "shared record", ",".join(sorted(repr(a) for a in al))],
                      f"get_data writes 'sid' into a dictionary that outlives the call ({sorted(repr(a) for a in al)}): records of different "
                      f"Sids / calls share state", f.relpath, st.lineno)
    facts = facts_at(ctx, f, st)
    enc = [d for d in flow.all_defs if d.var == norm(st.value) and d.value is not None]
    other = {t for t, truth in facts if t != norm(st.value) and "sid_path" not in t and "path" not in t}
    if (norm(st.value), True) in facts and not other and enc and norm(enc[0].value) == "sid_encode(_sid)":
        res.ok("get_data 'sid'", "data['sid'] = sid_encode(_sid) exactly when that is truthy")
    else:
        res.violation([f.qualname, "sid encoding"], "get_data: the 'sid' entry is not `sid_encode(_sid)` set iff truthy", f.relpath, st.lineno)
    proj = [r for r in _rets(f) if isinstance(r.value, ast.DictComp)]
    okp = False
    for r in proj:
        dc = r.value
        okp = norm(dc.generators[0].iter) == "attributes" and norm(dc.key) == norm(dc.generators[0].target) \
            and norm(dc.value) == f"data.get({norm(dc.key)})" and not dc.generators[0].ifs
        tests = [(norm(t), lab) for t, lab in ctx.ef._dominating_tests(cfg, r)]
        okp = okp and ("attributes", "true") in tests
    if okp:
        res.ok("get_data projection", "{key: data.get(key) for key in attributes}: exactly the requested keys, missing ones None")
    else:
        res.violation([f.qualname, "projection"], "get_data: with an attributes list the record does not have exactly those keys", f.relpath, f.node.lineno)
    # the sid entry is added after loading, and before the projection
    loads = [n for n in own_nodes(f.node) if isinstance(n, ast.Call) and dotted(n.func) in ("json.load", "json.loads")]
    if loads and cfg.path_exists(cfg.node_of(loads[0]).id, at.id):
        res.ok("get_data order", "'sid' is written after the stored data was loaded (it cannot be overwritten by stored data)")
    else:
        res.violation([f.qualname, "order"], "get_data sets 'sid' before loading the stored data", f.relpath, st.lineno)
    return res


def rule_mutdefault(ctx: Ctx) -> RuleResult:
    """no function hands out or mutates a mutable default argument"""
    res = RuleResult("R-MUTDEFAULT")
    pe = _param_effects(ctx)
    n = 0
    for f in ctx.p.iter_functions(kinds=("library", "config")):
        a = f.node.args
        names = [x.arg for x in a.posonlyargs + a.args]
        for nm, d in list(zip(names[len(names) - len(a.defaults):], a.defaults)) + [
                (k.arg, dv) for k, dv in zip(a.kwonlyargs, a.kw_defaults) if dv is not None]:
            if isinstance(d, (ast.Dict, ast.List, ast.Set)) or (isinstance(d, ast.Call) and dotted(d.func) in ("dict", "list", "set")):
                n += 1
                if nm in pe.mutates.get(f.qualname, set()) or nm in pe.retains.get(f.qualname, set()):
                    res.violation([f.qualname, nm, "mutable default"],
                                  f"{f.short}({nm}={norm(d)}): the default object is created once and is "
                                  f"{'mutated' if nm in pe.mutates.get(f.qualname, set()) else 'returned / stored'}: all calls relying on the default share it",
                                  f.relpath, f.node.lineno)
                else:
                    res.ok(f"{f.qualname}({nm}={norm(d)})", "never mutated, returned or stored")
    res.ok(f"{n} mutable default arguments", "none escapes", nontrivial=False)
    return res


# ------------------------------------------------------------------------------------------------ C17
def rule_atomic(ctx: Ctx) -> RuleResult:
    res = RuleResult("R-ATOMIC")
    f = expanded(ctx, ctx.p.function("spil.sid.pathops.write_paths._write_data"))
    flow = flow_of(f.node)
    cfg = cfg_of(f.node)
    pdefs = [d for d in flow.all_defs if d.kind == "assign" and isinstance(d.value, ast.Call) and dotted(d.value.func) == "get_data_json_path"]
    if len(pdefs) != 1:
        res.violation([f.qualname, "sidecar path"], "_write_data does not compute the sidecar path once", f.relpath, f.node.lineno)
        return res
    P = pdefs[0].var
    # names that always hold the sidecar path (plain aliases, also through inlined helper parameters)
    P_names: Set[str] = {P}
    changed = True
    while changed:
        changed = False
        for v in {d.var for d in flow.all_defs} - P_names:
            ds = [d for d in flow.all_defs if d.var == v]
            if ds and all(d.kind == "assign" and isinstance(d.value, ast.Name) and d.value.id in P_names for d in ds):
                P_names.add(v)
                changed = True

    def is_P(e: ast.AST, at: Optional[int]) -> bool:
        if isinstance(e, ast.Call) and dotted(e.func) == "str" and e.args:
            e = e.args[0]
        return isinstance(e, ast.Name) and e.id in P_names

    # temp paths: derived from P but not P
    temps: Set[str] = set()
    for d in flow.all_defs:
        if d.kind == "assign" and d.value is not None and d.var not in P_names:
            if any(isinstance(x, ast.Name) and x.id in P_names for x in ast.walk(d.value)) and not (isinstance(d.value, ast.Name)):
                v = d.value
                if isinstance(v, ast.Call) and (isinstance(v.func, ast.Attribute) and v.func.attr in ("with_name", "with_suffix") or dotted(v.func) in (
                        "Path", "str")) or isinstance(v, ast.BinOp):
                    temps.add(d.var)
    changed = True
    while changed:  # aliases of the temporary path
        changed = False
        for v in {d.var for d in flow.all_defs} - temps - P_names:
            ds = [d for d in flow.all_defs if d.var == v]
            if ds and all(d.kind == "assign" and isinstance(d.value, ast.Name) and d.value.id in temps for d in ds):
                temps.add(v)
                changed = True
    problems = []
    writes_T = []
    renames = []
    for n in own_nodes(f.node):
        if not isinstance(n, ast.Call):
            continue
        at = cfg.node_of(n)
        aid = at.id if at else None
        nm = dotted(n.func) or ""
        if isinstance(n.func, ast.Attribute):
            recv, meth = n.func.value, n.func.attr
            if meth in ("write_text", "write_bytes", "touch", "unlink", "mkdir"):
                if is_P(recv, aid):
                    problems.append((n, f"`{norm(n)[:60]}` writes the sidecar in place: a crash between truncation and the last byte leaves neither "
                                        f"the old nor the new data"))
                elif isinstance(recv, ast.Name) and recv.id in temps and meth in ("write_text", "write_bytes"):
                    writes_T.append(n)
            if meth == "open":
                mode = n.args[0] if n.args else next((k.value for k in n.keywords if k.arg == "mode"), None)
                m = mode.value if isinstance(mode, ast.Constant) else ("r" if mode is None else "?")
                if any(ch in str(m) for ch in "wax+"):
                    if is_P(recv, aid):
                        problems.append((n, f"`{norm(n)[:60]}` opens the sidecar for writing in place"))
                    elif isinstance(recv, ast.Name) and recv.id in temps:
                        if "x" in str(m):
                            problems.append((n, "the temporary file is opened exclusively: a stale temp from an earlier crash blocks every later write"))
                        writes_T.append(n)
            if meth in ("replace", "rename") and n.args and not isinstance(recv, ast.Constant) and not _is_str_method(recv):
                renames.append((n, recv, n.args[0]))
        if nm in ("os.replace", "os.rename", "shutil.move") and len(n.args) >= 2:
            renames.append((n, n.args[0], n.args[1]))
        if nm in ("shutil.copy", "shutil.copy2", "shutil.copyfile") and len(n.args) >= 2 and is_P(n.args[1], aid):
            problems.append((n, f"`{norm(n)[:60]}` copies onto the sidecar (not atomic)"))
        if nm == "builtins.open" or nm == "open":
            mode = n.args[1] if len(n.args) > 1 else next((k.value for k in n.keywords if k.arg == "mode"), None)
            m = mode.value if isinstance(mode, ast.Constant) else "r"
            if any(ch in str(m) for ch in "wax+") and n.args:
                if is_P(n.args[0], aid):
                    problems.append((n, f"`{norm(n)[:60]}` opens the sidecar for writing in place"))
                elif isinstance(n.args[0], ast.Name) and n.args[0].id in temps:
                    writes_T.append(n)
    # crash residue never decides the outcome: a temporary file left by an interrupted write may be removed or overwritten, but
    # a branch taken because it exists must not raise or return ("the next set / update on the Sid succeeds")
    def _probes_temp(e: ast.AST) -> bool:
        for x in ast.walk(e):
            if isinstance(x, ast.Call):
                if isinstance(x.func, ast.Attribute) and x.func.attr in ("exists", "is_file", "stat", "lstat") \
                        and isinstance(x.func.value, ast.Name) and x.func.value.id in temps:
                    return True
                if (dotted(x.func) or "") in ("os.path.exists", "os.path.isfile", "os.path.lexists", "os.stat", "os.access") and x.args \
                        and any(isinstance(y, ast.Name) and y.id in temps for y in ast.walk(x.args[0])):
                    return True
        return False

    probe_flags = {d.var for d in flow.all_defs if d.kind == "assign" and d.value is not None and _probes_temp(d.value)}
    for n in own_nodes(f.node):
        if isinstance(n, (ast.If, ast.While)) and (_probes_temp(n.test) or any(
                isinstance(x, ast.Name) and x.id in probe_flags for x in ast.walk(n.test))):
            exits = [x for b_ in (n.body + n.orelse) for x in ast.walk(b_) if isinstance(x, (ast.Raise, ast.Return))]
            if exits:
                problems.append((exits[0], f"`{norm(exits[0])[:60]}` is decided by whether the temporary file exists: a temporary file left behind by "
                                           f"an interrupted write makes every later set / update of this Sid fail or do nothing"))
        if isinstance(n, ast.Assert) and _probes_temp(n.test):
            problems.append((n, "an assertion on the temporary file: a temporary file left behind by an interrupted write makes every later "
                                "set / update of this Sid fail"))
    final = []
    for n, src, dst in renames:
        at = cfg.node_of(n)
        aid = at.id if at else None
        if is_P(src, aid):
            problems.append((n, f"`{norm(n)[:60]}` moves the sidecar away: between this and the next step the Sid has no data"))
        elif is_P(dst, aid) and isinstance(src, ast.Name) and src.id in temps:
            final.append(n)
        elif is_P(dst, aid):
            problems.append((n, f"`{norm(n)[:60]}` replaces the sidecar with something that is not the freshly written temporary file"))
    if not problems:
        if not writes_T:
            problems.append((f.node, "no write to a temporary sibling of the sidecar found"))
        elif len(final) != 1:
            problems.append((f.node, f"expected exactly one rename of the temporary file onto the sidecar, found {len(final)}"))
        else:
            fn = cfg.node_of(final[0])
            for w in writes_T:
                wn = cfg.node_of(w)
                pd = cfg.post_dominators()
                if not (fn.id in pd.get(wn.id, set())):
                    problems.append((w, "a normal path leaves the function after writing the temporary file without renaming it onto the sidecar"))
                if cfg.path_exists(fn.id, wn.id, exceptional=False):
                    problems.append((w, "the temporary file is written after it was renamed"))
            # the rename moves a finished file: the handle the content was written through is closed by then
            for w in writes_T:
                if not (isinstance(w.func, ast.Attribute) and w.func.attr == "open") and dotted(w.func) not in ("open", "builtins.open"):
                    continue
                holder = next((st for st in own_nodes(f.node) if isinstance(st, ast.With) and any(it.context_expr is w for it in st.items)), None)
                if holder is not None:
                    if any(x is final[0] for b_ in holder.body for x in ast.walk(b_)):
                        problems.append((final[0], f"`{norm(final[0])[:50]}` renames the temporary file while it is still open (inside its `with` "
                                                   f"block): buffered content is not in the file yet, a crash right after the rename leaves a "
                                                   f"truncated sidecar"))
                else:
                    hname = next((d.var for d in flow.all_defs if d.value is w), None)
                    closes = [cfg.node_of(c_).id for c_ in own_nodes(f.node) if isinstance(c_, ast.Call) and isinstance(c_.func, ast.Attribute)
                              and c_.func.attr == "close" and norm(c_.func.value) == hname and cfg.node_of(c_) is not None]
                    wn = cfg.node_of(w)
                    if hname is None or not closes or not cfg.on_all_paths(wn.id, fn.id, closes):
                        problems.append((final[0], "the temporary file is renamed onto the sidecar without having been closed on every path"))
            # the success return comes after the rename
            for r in _rets(f):
                rn = cfg.node_of(r)
                if not cfg.on_all_paths(cfg.entry.id, rn.id, [fn.id]):
                    problems.append((r, "a success return is reachable without the rename"))
            # the temp is a sibling (same directory): with_name / with_suffix / str concatenation of P
            for d in flow.all_defs:
                if d.var in temps and d.value is not None:
                    v = d.value
                    sib = (isinstance(v, ast.Call) and isinstance(v.func, ast.Attribute) and v.func.attr in ("with_name", "with_suffix")
                           and is_P(v.func.value, d.node)) or (isinstance(v, ast.BinOp) and is_P(v.left, d.node)) or (
                        isinstance(v, ast.Call) and dotted(v.func) == "Path" and v.args and isinstance(v.args[0], ast.BinOp))
                    if not sib:
                        problems.append((v, f"the temporary path `{norm(v)[:50]}` is not a sibling of the sidecar (rename is only atomic within a directory)"))
    if problems:
        seen = set()
        for n, msg in problems:
            if msg in seen:
                continue
            seen.add(msg)
            res.violation([f.qualname, "atomic replace", msg[:60]], f"_write_data: {msg}", f.relpath, getattr(n, "lineno", f.node.lineno))
    else:
        res.ok("_write_data", f"content goes to the temporary sibling `{sorted(temps)[0]}`; one `{norm(final[0])[:40]}` moves it onto the sidecar and "
                              f"post-dominates the write; the sidecar itself is never opened for writing, truncated, moved or removed")
    return res


def _is_str_method(recv: ast.AST) -> bool:
    return isinstance(recv, ast.Call) and dotted(recv.func) in ("str", "json.dumps")


def rule_tolerant(ctx: Ctx) -> RuleResult:
    res = RuleResult("R-TOLERANT")
    f = expanded(ctx, ctx.p.function("spil.sid.pathops.getter_paths.GetFromPaths.get_data"))
    reads = [n for n in own_nodes(f.node) if isinstance(n, ast.Call) and (dotted(n.func) in ("json.load", "json.loads", "open", "builtins.open") or (
        isinstance(n.func, ast.Attribute) and n.func.attr in ("open", "read_text", "read_bytes")))]
    res.floor(len(reads), 1, "sidecar read operations reachable from get_data")
    for r in reads:
        missing = [e for e in ("OSError", "JSONDecodeError", "UnicodeDecodeError") if not ctx.ef.caught_locally(f, r, e)]
        if missing:
            res.violation([f.qualname, norm(r.func).split("_")[-1] if norm(r.func).startswith("_h") else norm(r.func), ",".join(missing)],
                          f"get_data: `{norm(r)[:50]}` can raise {missing} (sidecar made a directory, unreadable, truncated, not utf-8) and no "
                          f"handler in get_data catches it: one damaged sidecar makes reads and whole searches fail", f.relpath, r.lineno)
        else:
            res.ok(f"get_data: `{norm(r)[:40]}`", "inside try with handlers for OSError and decoding errors; none re-raises")
    return res


# ------------------------------------------------------------------------------------------------ first record / dispatch
def _when_truthy(e: ast.AST, name: str) -> ast.AST:
    """what `e` evaluates to when the variable ``name`` is truthy (only `or` / `and` chains led by the name are simplified)"""
    if isinstance(e, ast.BoolOp) and isinstance(e.values[0], ast.Name) and e.values[0].id == name:
        if isinstance(e.op, ast.Or):
            return e.values[0]
        rest = e.values[1:]
        return rest[0] if len(rest) == 1 else ast.BoolOp(op=ast.And(), values=rest)
    return e


def rule_firstrec(ctx: Ctx) -> RuleResult:
    """C16: get_one is the first record of get(); GetFromAll.get_data / get_attr hand the Sid to the configured Getter exactly when
    there is one (and answer empty, without failing, when there is none)"""
    res = RuleResult("R-FIRSTREC")
    p = ctx.p
    g = p.function("spil.sid.read.getter.Getter.get_one")
    sp = g.params[1]
    firsts = []
    for n in own_nodes(g.node):
        if isinstance(n, ast.Call) and dotted(n.func) in ("first", "next") and n.args:
            inner = n.args[0]
            if isinstance(inner, ast.Call) and dotted(inner.func) == "iter" and inner.args:
                inner = inner.args[0]
            if isinstance(inner, ast.Call) and norm(inner.func) == "self.get" and (
                    (inner.args and norm(inner.args[0]) == sp) or any(k.arg == "search_sid" and norm(k.value) == sp for k in inner.keywords)):
                firsts.append(n)
    if len(firsts) != 1:
        res.violation([g.qualname, "first"], "Getter.get_one is not the first record of self.get(search_sid, ...)", g.relpath, g.node.lineno)
    else:
        call = firsts[0]
        flow = flow_of(g.node)
        bound = [d.var for d in flow.all_defs if d.kind == "assign" and d.value is call]
        name = bound[0] if bound else None
        if name and sum(1 for d in flow.all_defs if d.var == name) != 1:
            res.violation([g.qualname, "rebinding"], f"Getter.get_one: `{name}` (the first record) is bound again before it is returned", g.relpath, g.node.lineno)
        bad = None
        n_ret = 0
        for r in _rets(g):
            if r.value is None:
                bad = r
                continue
            n_ret += 1
            if name and (name, False) in facts_at(ctx, g, r):
                continue  # nothing was found
            v = _when_truthy(r.value, name) if name else r.value
            if not ((name and isinstance(v, ast.Name) and v.id == name) or v is call or (
                    isinstance(v, ast.BoolOp) and isinstance(v.op, ast.Or) and v.values[0] is call)):
                bad = r
        if bad is not None or not n_ret:
            res.violation([g.qualname, "first record"], f"Getter.get_one: `{norm(bad) if bad is not None else 'no return'}` is not the first record of get() "
                                                      f"when there is one", g.relpath, (bad or g.node).lineno)
        else:
            res.ok("Getter.get_one", "returns first(self.get(search_sid, ...)) whenever a record was found")
    for q, meth in (("spil.sid.read.getters.getter_all.GetFromAll.get_data", "get_data"),
                    ("spil.sid.read.getters.getter_all.GetFromAll.get_attr", "get_attr")):
        f = p.function(q)
        sidp = f.params[1]
        flow = flow_of(f.node)
        src = [d for d in flow.all_defs if d.kind == "assign" and isinstance(d.value, ast.Call) and dotted(d.value.func).split(".")[-1] == "get_getter"]
        if len(src) != 1 or not (src[0].value.args and norm(src[0].value.args[0]) == sidp):
            res.violation([q, "getter lookup"], f"GetFromAll.{meth}: the Getter is not looked up once with get_getter({sidp}, ...)", f.relpath, f.node.lineno)
            continue
        name = src[0].var
        if meth == "get_attr":
            ap = f.params[2]
            if not any(norm(a) == ap for a in list(src[0].value.args[1:]) + [k.value for k in src[0].value.keywords]):
                res.violation([q, "attribute"], f"GetFromAll.get_attr: the Getter is looked up without the attribute `{ap}`", f.relpath, src[0].value.lineno)
        deleg, other_bad = 0, None
        for r in _rets(f):
            if r.value is None:
                continue
            fs = facts_at(ctx, f, r)
            v = r.value
            is_deleg = isinstance(v, ast.Call) and isinstance(v.func, ast.Attribute) and norm(v.func.value) == name and v.func.attr == meth \
                and ((v.args and norm(v.args[0]) == sidp) or any(norm(k.value) == sidp for k in v.keywords))
            if is_deleg:
                if (name, True) in fs:
                    deleg += 1
                else:
                    other_bad = (r, f"`{norm(r)}` is not under 'a Getter is configured' (`{name}` truthy)")
            elif (name, False) not in fs:
                other_bad = (r, f"`{norm(r)}` answers without the configured Getter although there may be one")
        if other_bad is not None or not deleg:
            r, why = other_bad if other_bad is not None else (f.node, f"no `{name}.{meth}({sidp}, ...)` answer")
            res.violation([q, "dispatch"], f"GetFromAll.{meth}: {why}", f.relpath, r.lineno)
        else:
            res.ok(q, f"`{name}.{meth}({sidp}, ...)` exactly when get_getter found a Getter, an empty answer otherwise")
    return res
