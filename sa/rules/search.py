"""Search rules: unfolding pipeline (C07), list search (C08), '>' (C09), duplicate suppression and
result guards (C10 C11), agreement of exists / find_one / children (C12).
R-PIPE R-FILTER R-ITERMUT R-ORSCOPE R-EXPAND R-UNFOLDALL R-DEDUP R-SKIPS R-REITER R-ASSID R-DELEG R-MATCH
R-GLOBRE R-SORT R-GROUPFINDER R-FINDERID R-SEARCHED."""
from __future__ import annotations

import ast
import re._parser as sre_parse  # type: ignore
from typing import Dict, List, Optional, Set, Tuple

from ..cfg import cfg_of
from ..context import Ctx
from ..dataflow import flow_of
from ..program import AnalysisError, FunctionInfo, dotted, norm, own_nodes
from ..report import RuleResult
from . import conds
from ..shape import facts_at, inline_locals, ntext, family

UNFOLD = "spil.sid.read.tools.unfold_search"


def _rets(f):
    return [n for n in own_nodes(f.node) if isinstance(n, ast.Return)]


def _yields(f):
    return [n for n in own_nodes(f.node) if isinstance(n, (ast.Yield, ast.YieldFrom))]


# ------------------------------------------------------------------------------------------------ C07
def rule_pipe(ctx: Ctx) -> RuleResult:
    res = RuleResult("R-PIPE")
    p = ctx.p
    m = p.module("spil.sid.read.tools")
    b = m.bindings.get("list_search_unfolders", [])
    res.require(bool(b), "list_search_unfolders vanished from read/tools.py")
    val = b[-1].value
    want = ["spil.sid.read.unfolders.extensions.execute", "spil.sid.read.unfolders.or_op.execute",
            "spil.sid.read.unfolders.expand.execute", "spil.sid.read.unfolders.typed_narrow.execute"]
    got = []
    if isinstance(val, (ast.List, ast.Tuple)):
        for e in val.elts:
            r = p.resolve_expr(m, e)
            got.append(r.func.qualname if r.kind == "func" and r.func else norm(e))
    if got == want:
        res.ok("list_search_unfolders", "extensions < or_op < expand < narrow, in this order")
    else:
        res.violation(["spil.sid.read.tools", "list_search_unfolders"], f"unfolder pipeline is {[g.split('.')[-2] for g in got]}, expected "
                                                                        f"extensions, or_op, expand, typed_narrow in this order", m.relpath, b[-1].node.lineno)
    au = p.function("spil.sid.read.tools.apply_unfolders")
    flow = flow_of(au.node)
    loops = [n for n in own_nodes(au.node) if isinstance(n, ast.For) and norm(n.iter) == au.params[1]]
    good = False
    if len(loops) == 1:
        lp = loops[0]
        calls = [n for n in ast.walk(lp) if isinstance(n, ast.Call) and isinstance(n.func, ast.Name) and n.func.id == norm(lp.target)]
        if len(calls) == 1 and len(calls[0].args) == 1 and isinstance(calls[0].args[0], ast.Name):
            acc = calls[0].args[0].id
            # the result of each unfolder feeds the next: some definition of the accumulator inside the loop derives from the call
            feeds = any(d.var == acc and d.value is not None and any(a.node is calls[0] for a in flow.depends(d.value, d.node) if a.kind == "call")
                        for d in flow.all_defs if d.node >= 0)
            init = [d for d in flow.all_defs if d.var == acc and isinstance(d.value, ast.List) and len(d.value.elts) == 1
                    and norm(d.value.elts[0]) == au.params[0]]
            good = feeds and bool(init)
    rets = _rets(au)
    def _dedup_sorted(txt: str) -> bool:
        txt = txt.replace("sorted(list(", "sorted((").replace("sorted(tuple(", "sorted((")
        return txt.startswith(("sorted(set(", "sorted((set(", "sorted(dict.fromkeys(", "sorted((dict.fromkeys(", "sorted(OrderedDict.fromkeys("))

    dedup = any(r.value is not None and _dedup_sorted(ntext(au, r.value, r)) for r in rets)
    if good and dedup:
        res.ok("apply_unfolders", "starts from [sid], feeds every unfolder's output to the next in list order, returns the sorted list of unique elements")
    else:
        res.violation([au.qualname, "pipeline"], "apply_unfolders no longer chains the unfolders in list order over [sid] and returns the "
                                                 "de-duplicated sorted result", au.relpath, au.node.lineno)
    us = p.function(UNFOLD)
    calls = [n for n in own_nodes(us.node) if isinstance(n, ast.Call) and dotted(n.func) == "apply_unfolders"]
    ok = False
    if len(calls) == 1 and len(calls[0].args) + len(calls[0].keywords) == 2:
        argv = list(calls[0].args) + [k.value for k in calls[0].keywords]
        a0 = inline_locals(us, argv[0], calls[0])
        a1 = inline_locals(us, argv[1], calls[0])
        ok = norm(a0) == f"str({us.params[0]})" and isinstance(a1, ast.BinOp) and norm(a1.left) == "list_search_unfolders" \
            and isinstance(a1.right, ast.IfExp) and norm(a1.right.test) == "do_extrapolate" and norm(a1.right.body) == "[extrapolate]" \
            and norm(a1.right.orelse) == "[]"
        if not ok and norm(a0) == f"str({us.params[0]})" and isinstance(argv[1], ast.Name):
            # the same list built by statements: a COPY of list_search_unfolders, `extrapolate` appended only under do_extrapolate
            lname = argv[1].id
            uflow = flow_of(us.node)
            cn_ = uflow.node_of(calls[0])
            ds_ = [d for d in (uflow.defs_reaching(cn_.id, lname) if cn_ is not None else [])]
            copies = [d for d in ds_ if d.kind == "assign" and d.value is not None and norm(d.value) in (
                "list(list_search_unfolders)", "list_search_unfolders.copy()", "list_search_unfolders[:]", "[*list_search_unfolders]",
                "list_search_unfolders + []", "[] + list_search_unfolders")]
            muts = [n for n in own_nodes(us.node) if isinstance(n, ast.Call) and isinstance(n.func, ast.Attribute) and isinstance(n.func.value, ast.Name)
                    and n.func.value.id == lname and n.func.attr in ("append", "extend", "insert", "remove", "pop", "sort", "reverse", "clear")]
            good_muts = [n for n in muts if n.func.attr == "append" and len(n.args) == 1 and norm(n.args[0]) == "extrapolate"
                         and ("do_extrapolate", True) in facts_at(ctx, us, n)]
            ok = len(copies) == len(ds_) == 1 and len(good_muts) == len(muts) == 1
    if ok:
        res.ok("unfold_search", "apply_unfolders(str(search_sid), list_search_unfolders + ([extrapolate] if do_extrapolate else []))")
    else:
        res.violation([us.qualname, "pipeline call"], "unfold_search does not run list_search_unfolders (+ extrapolate only under "
                                                      "do_extrapolate) over str(search_sid)", us.relpath, us.node.lineno)
    # the test-only reduction to one Sid per string happens only on request
    for c in own_nodes(us.node):
        if isinstance(c, ast.Call) and (dotted(c.func) or "").split(".")[-1] == "uniquify_searches":
            if ("do_uniquify", True) in facts_at(ctx, us, c):
                res.ok("unfold_search: uniquify_searches", "only under `do_uniquify`")
            else:
                res.violation([us.qualname, "uniquify by default"], "unfold_search reduces the typed searches to one per string without being asked "
                                                                    "to (do_uniquify): the other types that share the string are never searched",
                              us.relpath, c.lineno)
    return res


def _kept_by_append(ctx: Ctx, us: FunctionInfo, flow, problems: List[str]) -> bool:
    """the filtered list is built by appending the Sids that are kept: every append of the loop variable happens under
    'typed' and 'no unapplied query', and what is returned derives from that list.  Returns False when this form is not
    present at all (other forms are tried)."""
    keeps = []
    for lp in own_nodes(us.node):
        if not (isinstance(lp, ast.For) and isinstance(lp.target, ast.Name)):
            continue
        var = lp.target.id
        for n in ast.walk(lp):
            if isinstance(n, ast.Call) and isinstance(n.func, ast.Attribute) and n.func.attr == "append" and len(n.args) == 1 \
                    and isinstance(n.args[0], ast.Name) and n.args[0].id == var and isinstance(n.func.value, ast.Name):
                keeps.append((lp, var, n))
    # only loops over (something derived from) the unfolded list count
    keeps = [(lp, var, n) for lp, var, n in keeps
             if any(a.kind == "call" and a.text.split(".")[-1] == "apply_unfolders" for a in flow.depends(lp.iter, flow.node_of(lp).id))]
    if not keeps:
        return False
    lists = set()
    for lp, var, n in keeps:
        facts = facts_at(ctx, us, n)
        lists.add(n.func.value.id)
        if (var, True) not in facts:
            problems.append("untyped Sids are not removed")
        if not ({(f"'?' in {var}.string", False), (f"'?' in str({var})", False)} & facts):
            problems.append("Sids with an unapplied query are not removed")
    for r in _rets(us):
        at = flow.node_of(r)
        deps = flow.depends(r.value, at.id) if r.value is not None else set()
        names = {x.id for x in ast.walk(r.value) if isinstance(x, ast.Name)} if r.value is not None else set()
        tainted = set(lists)
        changed = True
        while changed:
            changed = False
            for st in own_nodes(us.node):
                if isinstance(st, ast.Assign) and {x.id for x in ast.walk(st.value) if isinstance(x, ast.Name)} & tainted:
                    for t in st.targets:
                        if isinstance(t, ast.Name) and t.id not in tainted:
                            tainted.add(t.id)
                            changed = True
                elif isinstance(st, ast.For) and {x.id for x in ast.walk(st.iter) if isinstance(x, ast.Name)} & tainted:
                    for x in ast.walk(st.target):
                        if isinstance(x, ast.Name) and x.id not in tainted:
                            tainted.add(x.id)
                            changed = True
                elif isinstance(st, ast.Call) and isinstance(st.func, ast.Attribute) and st.func.attr in ("append", "setdefault", "add", "extend") \
                        and isinstance(st.func.value, ast.Name) and any(isinstance(x, ast.Name) and x.id in tainted for a in st.args for x in ast.walk(a)):
                    if st.func.value.id not in tainted:
                        tainted.add(st.func.value.id)
                        changed = True
        if not (names & tainted):
            problems.append(f"returns `{norm(r.value)}`, not the filtered list")
    return True


def rule_filter(ctx: Ctx) -> RuleResult:
    """every Sid returned by unfold_search is typed and carries no unapplied query"""
    res = RuleResult("R-FILTER")
    us = ctx.p.function(UNFOLD)
    flow = flow_of(us.node)
    cfg = cfg_of(us.node)
    rets = _rets(us)
    res.floor(len(rets), 1, "returns of unfold_search")
    loops = [n for n in own_nodes(us.node) if isinstance(n, ast.For)]
    removal = None
    for lp in loops:
        removes = [n for n in ast.walk(lp) if isinstance(n, ast.Call) and isinstance(n.func, ast.Attribute) and n.func.attr == "remove"]
        if removes:
            removal = (lp, removes)
    comp = None
    for n in own_nodes(us.node):
        if isinstance(n, ast.ListComp) and n.generators and n.generators[0].ifs:
            comp = n
    problems = []
    if removal:
        lp, removes = removal
        var = norm(lp.target)
        lst = norm(removes[0].func.value)
        facts = set()
        for rm in removes:
            facts |= facts_at(ctx, us, rm)
        if (var, False) not in facts:
            problems.append("untyped Sids are not removed")
        if not ({(f"'?' in {var}.string", True), (f"'?' in str({var})", True)} & facts):
            problems.append("Sids with an unapplied query are not removed")
        for r in rets:
            if norm(r.value) != lst:
                problems.append(f"returns `{norm(r.value)}`, not the filtered list")
            elif not cfg.on_all_paths(cfg.entry.id, cfg.node_of(r).id, [cfg.node_of(lp).id]):
                problems.append("a return is reachable without passing the removal loop")
    elif _kept_by_append(ctx, us, flow, problems):
        pass
    elif comp is not None:
        conds_ = " and ".join(norm(c) for c in comp.generators[0].ifs)
        v = norm(comp.generators[0].target)
        if not (v in conds_ and "?" in conds_):
            problems.append("the comprehension filter does not test typed-ness and the '?'")
    else:
        problems.append("no removal of untyped / unapplied-query Sids found")
    if problems:
        res.violation([us.qualname, "filter"], "unfold_search: " + "; ".join(dict.fromkeys(problems)), us.relpath, us.node.lineno)
    else:
        res.ok("unfold_search filter", "untyped Sids and Sids whose string still carries '?' are removed on every path to the return")
    return res


def rule_itermut(ctx: Ctx) -> RuleResult:
    """no loop mutates the list it iterates"""
    res = RuleResult("R-ITERMUT")
    n = 0
    for f in ctx.p.iter_functions(kinds=("library", "config")):
        for lp in own_nodes(f.node):
            if not isinstance(lp, ast.For) or not isinstance(lp.iter, (ast.Name, ast.Attribute)):
                continue
            it = norm(lp.iter)
            n += 1
            for x in ast.walk(ast.Module(body=lp.body, type_ignores=[])):
                if isinstance(x, ast.Call) and isinstance(x.func, ast.Attribute) and x.func.attr in ("remove", "pop", "insert", "append", "clear",
                                                                                                      "extend") and norm(x.func.value) == it:
                    res.violation([f.qualname, norm(lp.iter), x.func.attr], f"{f.short}: `for {norm(lp.target)} in {it}` calls {it}.{x.func.attr}() "
                                                                            f"in its body: elements are skipped while the list shifts", f.relpath, x.lineno)
                if isinstance(x, ast.Delete) and any(isinstance(t, ast.Subscript) and norm(t.value) == it for t in x.targets):
                    res.violation([f.qualname, norm(lp.iter), "del"], f"{f.short}: deletes from `{it}` while iterating it", f.relpath, x.lineno)
    res.floor(n, 10, "loops over a named sequence")
    res.ok(f"{n} loops over a named sequence", "none mutates the sequence it iterates", nontrivial=False)
    return res


def rule_orscope(ctx: Ctx) -> RuleResult:
    """or_op: the 'nothing to distribute' exit is decided on path *and* query"""
    res = RuleResult("R-ORSCOPE")
    f = ctx.p.function("spil.sid.read.unfolders.or_op.or_op")
    flow = flow_of(f.node)
    cfg = cfg_of(f.node)
    sid_p = f.params[0]
    early = []
    for r in _rets(f):
        v = r.value
        if isinstance(v, ast.List) and len(v.elts) == 1:
            for t, lab in ctx.ef._dominating_tests(cfg, r):
                if any(isinstance(x, ast.Call) and isinstance(x.func, ast.Attribute) and x.func.attr == "count" and x.args
                       and norm(x.args[0]) == "ors" for x in ast.walk(t)) or any(
                    isinstance(x, ast.Compare) and norm(x.left) == "ors" for x in ast.walk(t)):
                    early.append((r, t))
    if not early:
        res.note("or_op early exit", "no early exit on the or-sign: every string is distributed")
        res.ok("or_op", "no early exit", nontrivial=False)
        return res
    for r, t in early:
        tn = cfg.node_of(t)
        # the tested value must still contain the query: no reaching definition from a split on '?'
        names = [x for x in ast.walk(t) if isinstance(x, ast.Name)]
        split_def = False
        query_names = set()
        for d in flow.all_defs:
            if d.kind == "unpack" and isinstance(d.value, ast.Call) and isinstance(d.value.func, ast.Attribute) \
                    and d.value.func.attr in ("split", "partition", "rsplit") and d.value.args and norm(d.value.args[0]) == "'?'" \
                    and d.index is not None and d.index >= 1:
                query_names.add(d.var)
        for nm in names:
            for d in flow.defs_reaching(tn.id, nm.id):
                if d.kind == "unpack" and isinstance(d.value, ast.Call) and isinstance(d.value.func, ast.Attribute) \
                        and d.value.func.attr in ("split", "partition", "rsplit") and d.value.args and norm(d.value.args[0]) == "'?'" \
                        and d.index == 0:
                    split_def = True
        tested = {x.id for x in ast.walk(t) if isinstance(x, ast.Name)}
        also_query = bool(tested & (query_names | {"query"}))
        if split_def and not also_query:
            res.violation([f.qualname, "early exit scope"], "or_op decides 'no or-sign' on the path part only: a ',' list in a query value is "
                                                            "not distributed when the path has none", f.relpath, r.lineno)
        else:
            res.ok("or_op early exit", "the or-sign is looked for in the whole string (path and query)")
    # the distribution: or_on_path x or_on_query
    calls = {dotted(n.func) for n in own_nodes(f.node) if isinstance(n, ast.Call)}
    if {"or_on_path", "or_on_query"} <= calls:
        res.ok("or_op distribution", "or_on_path(path) x or_on_query(query)")
    else:
        res.violation([f.qualname, "distribution"], "or_op no longer combines or_on_path and or_on_query", f.relpath, f.node.lineno)
    return res


def rule_expand(ctx: Ctx) -> RuleResult:
    """expand: '/**' stands for zero or more '/*' levels, completed against leaf types"""
    res = RuleResult("R-EXPAND")
    f = ctx.p.function("spil.sid.core.utils.expand")
    flow = flow_of(f.node)
    cfg = cfg_of(f.node)
    # the replacement
    repl = [n for n in own_nodes(f.node) if isinstance(n, ast.Call) and isinstance(n.func, ast.Attribute) and n.func.attr == "replace"
            and len(n.args) == 2 and norm(n.args[0]) == "'/**'"]
    if len(repl) != 1 or not (isinstance(repl[0].args[1], ast.BinOp) and isinstance(repl[0].args[1].op, ast.Mult) and "'/*'" in norm(repl[0].args[1])):
        res.violation([f.qualname, "replacement"], "expand does not replace '/**' by n x '/*'", f.relpath, f.node.lineno)
        return res
    nvar = [x for x in ast.walk(repl[0].args[1]) if isinstance(x, ast.Name)]
    nname = nvar[0].id if nvar else None
    rn = cfg.node_of(repl[0])
    # any skip decided on the level count must still let zero levels through
    for t in cfg.nodes:
        if t.kind != "test" or not isinstance(t.ast, ast.If):
            continue
        for c in [x for x in ast.walk(t.ast.test) if isinstance(x, ast.Compare) and len(x.ops) == 1]:
            if norm(c.left) != nname:
                continue
            try:
                k = ast.literal_eval(c.comparators[0])
            except Exception:
                continue
            op = type(c.ops[0])
            # which edge keeps going to the replacement?
            for lab in ("true", "false"):
                if not cfg.path_exists(t.id, rn.id, skip_edges=[(t.id, "false" if lab == "true" else "true")]):
                    continue
                pass
            excludes_zero = (op is ast.Lt and k >= 1) or (op is ast.LtE and k >= 0) or (op is ast.Eq and k == 0)
            skips = not cfg.path_exists(t.id, rn.id, skip_edges=[(t.id, "false")])  # the true edge never reaches the replacement
            if excludes_zero and skips:
                res.violation([f.qualname, norm(c), "zero levels"], f"expand skips a template when `{norm(c)}`: '/**' no longer stands for zero "
                                                                    f"levels (a string already of leaf length is lost)", f.relpath, t.lineno)
    # needed = count - current + 1
    ds = [d for d in flow.all_defs if d.var == nname and d.kind == "assign"]
    if len(ds) == 1 and norm(ds[0].value).replace(f"{f.params[0]}.count('/')", "current") in ("count - current + 1", "count + 1 - current",
                                                                                              "1 + count - current"):
        res.ok("expand level count", f"{nname} = count - current + 1 ; zero is allowed")
    else:
        res.violation([f.qualname, "level count"], f"expand: `{nname}` is not count - current + 1", f.relpath, f.node.lineno)
    # leaf restriction reads conf.leaf_keys[basetype]
    lk = [n for n in own_nodes(f.node) if isinstance(n, ast.Call) and norm(n.func) == "leaf_keys.get" and n.args and norm(n.args[0]) == "basetype"]
    cmp_leaf = [n for n in own_nodes(f.node) if isinstance(n, ast.Compare) and norm(n.comparators[0]) == "leaf_key"]
    if lk and len(cmp_leaf) >= 2:
        res.ok("expand leaf restriction", "templates and matches are kept when their last key equals leaf_keys[basetype]")
    else:
        res.violation([f.qualname, "leaf restriction"], "expand no longer restricts '**' to types ending in the configured leaf key", f.relpath, f.node.lineno)
    # ... and with the right sense: what is tried / kept is what DOES end in the leaf key (or everything under do_extrapolate)
    from ..shape import fact_nodes_at

    appends = [n for n in own_nodes(f.node) if isinstance(n, ast.Call) and isinstance(n.func, ast.Attribute) and n.func.attr == "append"
               and isinstance(n.func.value, ast.Name) and n.func.value.id in {norm(r.value.args[0]) if isinstance(r.value, ast.Call) and r.value.args
                                                                                else norm(r.value) for r in _rets(f) if r.value is not None}
               | {"result"}]
    from ..shape import alternatives
    from ..effects import _short_circuit_facts as _scf

    for what, node in [("the template is tried", repl[0])] + [("the typed search is kept", a) for a in appends]:
        wrong = None
        for t, lab in list(ctx.ef._dominating_tests(cfg, node)) + list(_scf(f.node, node)):
            if "leaf_key" not in norm(t):
                continue
            for alt in alternatives(t, lab == "true"):
                leaf_false = [txt for txt, tr in alt if txt.endswith("== leaf_key") and not tr]
                if leaf_false and ("do_extrapolate", True) not in alt:
                    wrong = leaf_false[0]
        if wrong is not None:
            res.violation([f.qualname, "leaf polarity", what], f"expand: {what} when `{wrong}` does NOT hold: '/**' is completed to the types "
                                                               f"that do not end in the leaf key", f.relpath, node.lineno)
    once = any(isinstance(n, ast.Compare) and "count('/**')" in norm(n.left) and norm(n.comparators[0]) == "1" and isinstance(n.ops[0], ast.Gt)
               for n in own_nodes(f.node))
    if once:
        res.ok("expand once", "more than one '/**' raises SpilException")
    else:
        res.violation([f.qualname, "single **"], "expand does not refuse a second '/**'", f.relpath, f.node.lineno)
    return res


# ------------------------------------------------------------------------------------------------ unfolding before searching
def _alias_aware(ctx: Ctx, f: FunctionInfo, test: ast.AST) -> bool:
    for x in ast.walk(test):
        if isinstance(x, ast.Call):
            r = ctx.p.resolve_expr(f.module, x.func, f)
            if r.kind == "func" and r.func is not None and r.func.qualname in (
                    "spil.sid.read.unfolders.extensions.extensions", "spil.sid.read.unfolders.extensions.handle_extension",
                    "spil.sid.read.unfolders.extensions.execute", UNFOLD):
                return True
        if isinstance(x, (ast.Name, ast.Attribute)) and norm(x).split(".")[-1] == "extension_alias":
            return True
    return False


def _bypass_ok(ctx: Ctx, f: FunctionInfo, cfg, node: ast.AST) -> bool:
    """the node is reached only for a Sid that is no search (no '*', ',', '>', '**' ...: Sid.is_search() is false) and that
    the extension unfolder leaves unchanged"""
    from ..shape import fact_nodes_at

    alias = False
    for e, truth in fact_nodes_at(ctx, f, node):
        if not _alias_aware(ctx, f, e):
            continue
        if isinstance(e, ast.Compare) and len(e.ops) == 1 and isinstance(e.ops[0], (ast.Eq, ast.NotEq)):
            # "the extension unfolder leaves it unchanged": extensions(x) == x holds / extensions(x) != x does not
            same = isinstance(e.ops[0], ast.Eq)
            if same == truth:
                alias = True
        elif isinstance(e, ast.Compare) and len(e.ops) == 1 and isinstance(e.ops[0], (ast.In, ast.NotIn)):
            # "<value> in extension_alias" must be false
            if (isinstance(e.ops[0], ast.In) and not truth) or (isinstance(e.ops[0], ast.NotIn) and truth):
                alias = True
        elif truth and not isinstance(e, ast.Compare):
            alias = True  # a helper predicate that consults the alias table, taken positively
    concrete = any((not truth) and (txt.endswith(".is_search()") or "search_symbols" in txt) for txt, truth in facts_at(ctx, f, node))
    return alias and concrete


def _unfold_tainted(f: FunctionInfo, source: str = "unfold_search") -> Set[str]:
    """local names that hold (containers of) elements of an unfold_search(...) result; flow-insensitive closure
    over assignments, loop targets and container insertions"""
    tainted: Set[str] = set()

    def names(e):
        return {x.id for x in ast.walk(e) if isinstance(x, ast.Name)}

    changed = True
    while changed:
        changed = False
        for n in own_nodes(f.node):
            new: Set[str] = set()
            if isinstance(n, (ast.Assign, ast.AnnAssign)) and getattr(n, "value", None) is not None:
                src_unfold = any(isinstance(x, ast.Call) and (dotted(x.func) or "").split(".")[-1] == source for x in ast.walk(n.value))
                if src_unfold or names(n.value) & tainted:
                    ts = n.targets if isinstance(n, ast.Assign) else [n.target]
                    for t in ts:
                        base = t
                        while isinstance(base, ast.Subscript):
                            base = base.value
                        new |= names(base)
            elif isinstance(n, ast.For):
                if names(n.iter) & tainted:
                    new |= names(n.target)
            elif isinstance(n, ast.Call) and isinstance(n.func, ast.Attribute) and n.func.attr in ("append", "extend", "add", "insert"):
                if any(names(a) & tainted for a in n.args):
                    new |= names(n.func.value)
            if not new <= tainted:
                tainted |= new
                changed = True
    return tainted


def _handmade_sources(f: FunctionInfo, arg: ast.AST) -> List[ast.AST]:
    """assignments of non-empty list displays that (transitively) feed the names used in ``arg``"""
    def names(e):
        return {x.id for x in ast.walk(e) if isinstance(x, ast.Name)}

    wanted = names(arg)
    out: List[ast.AST] = []
    changed = True
    seen = set()
    while changed:
        changed = False
        for n in own_nodes(f.node):
            if isinstance(n, (ast.Assign, ast.AnnAssign)) and getattr(n, "value", None) is not None:
                ts = n.targets if isinstance(n, ast.Assign) else [n.target]
                tn = set()
                for t in ts:
                    base = t
                    while isinstance(base, ast.Subscript):
                        base = base.value
                    tn |= names(base)
                if tn & wanted:
                    if isinstance(n.value, (ast.List, ast.Tuple)) and n.value.elts and id(n) not in seen:
                        seen.add(id(n))
                        out.append(n)
                    new = names(n.value) - wanted
                    if new:
                        wanted |= new
                        changed = True
            elif isinstance(n, ast.For) and names(n.target) & wanted:
                new = names(n.iter) - wanted
                if new:
                    wanted |= new
                    changed = True
            elif isinstance(n, ast.Call) and isinstance(n.func, ast.Attribute) and n.func.attr in ("append", "extend", "add") \
                    and names(n.func.value) & wanted:
                new = set()
                for a in n.args:
                    new |= names(a)
                new -= wanted
                if new:
                    wanted |= new
                    changed = True
    return out


def rule_unfoldall(ctx: Ctx) -> RuleResult:
    """whatever reaches do_find / do_get has been unfolded (aliases included)"""
    res = RuleResult("R-UNFOLDALL")
    p = ctx.p
    n = 0
    for f in p.iter_functions(kinds=("library",)):
        if f.module.name == "spil.sid.read.finders.find_cache":
            continue
        flow = flow_of(f.node)
        cfg = cfg_of(f.node)
        for c in own_nodes(f.node):
            if not (isinstance(c, ast.Call) and isinstance(c.func, ast.Attribute) and c.func.attr in ("do_find", "do_get")):
                continue
            arg = c.args[0] if c.args else next((k.value for k in c.keywords if k.arg == "search_sids"), None)
            if arg is None:
                continue
            n += 1
            site = f"{f.qualname}: `{norm(c)[:70]}`"
            at = cfg.node_of(c)
            deps = flow.depends(arg, at.id)
            from_unfold = any(a.kind == "call" and a.text.split(".")[-1] == "unfold_search" for a in deps) or (
                {x.id for x in ast.walk(arg) if isinstance(x, ast.Name)} & _unfold_tainted(f))
            # hand-made lists that flow into the argument next to (or instead of) the unfolded ones
            handmade = _handmade_sources(f, arg)
            bad_hand = [h for h in handmade if not _bypass_ok(ctx, f, cfg, h)]
            if from_unfold and bad_hand:
                res.violation([f.qualname, c.func.attr, "bypass"],
                              f"{f.short}: `{norm(bad_hand[0])[:60]}` reaches {c.func.attr} without unfolding, and not only for Sids that are "
                              f"no search (not is_search()) and carry no extension alias: a concrete Sid ending in an alias is searched "
                              f"literally here while other finders expand it",
                              f.relpath, bad_hand[0].lineno, site=site)
                continue
            from_param = any(a.kind == "param" and a.text in ("search_sids", "searches") for a in deps) and f.name in ("do_find", "do_get")
            if from_unfold or from_param:
                res.ok(site, "argument comes from unfold_search" if from_unfold else "delegation of an already unfolded list")
                continue
            # a hand-made list: only acceptable under an alias-aware bypass test
            if _bypass_ok(ctx, f, cfg, c):
                res.ok(site, "bypass of unfold_search is taken only for a Sid that is no search and that the extension unfolder leaves unchanged")
            else:
                res.violation([f.qualname, c.func.attr, "bypass"],
                              f"{f.short} hands `{norm(arg)}` to {c.func.attr} without unfolding it, and not only for Sids that are no search "
                              f"(not is_search()) and carry no extension alias: a '*' is then matched without the narrowing of the unfolded "
                              f"typed searches, an alias is searched literally, while other finders expand both",
                              f.relpath, c.lineno, site=site)
    res.floor(n, 6, "do_find / do_get call sites")
    # the unfolding used for searching is the plain one: no test-only flag, no alteration of the expression
    m = 0
    for f in p.iter_functions(kinds=("library",)):
        if f.module.name in ("spil.sid.read.finders.find_cache", "spil.sid.read.tools"):
            continue
        for c in own_nodes(f.node):
            if isinstance(c, ast.Call) and (dotted(c.func) or "").split(".")[-1] == "unfold_search":
                m += 1
                extra = [k.arg for k in c.keywords if k.arg in ("do_uniquify", "do_extrapolate")] + (["<positional flag>"] if len(c.args) > 1 else [])
                if extra:
                    res.violation([f.qualname, "unfold_search flags", ",".join(extra)],
                                  f"{f.short} unfolds the search with {extra}: do_uniquify drops typed searches that share a string (other types "
                                  f"are never searched), do_extrapolate adds parent types", f.relpath, c.lineno)
                else:
                    res.ok(f"{f.qualname}: `{norm(c)[:50]}`", "plain unfolding")
    res.floor(m, 3, "unfold_search call sites in finders / getters")
    return res


# ------------------------------------------------------------------------------------------------ duplicate suppression
DEDUP_SITES = {
    "spil.sid.read.finders.find_list.FindInList.star_search": "FindInList",
    "spil.sid.pathops.find_paths.FindInPaths.star_search_simple": "FindInPaths",
    "spil.sid.read.finders.find_all.FindInAll.find": "FindInAll",
}


def rule_dedup(ctx: Ctx) -> RuleResult:
    res = RuleResult("R-DEDUP")
    for q, label in DEDUP_SITES.items():
        f = ctx.p.function(q)
        flow = flow_of(f.node)
        cfg = cfg_of(f.node)
        yields = [y for y in _yields(f) if isinstance(y, ast.Yield)]
        if not yields:
            res.violation([q, "no yield"], f"{f.short} yields nothing itself", f.relpath, f.node.lineno)
            continue
        for yf in [y for y in _yields(f) if isinstance(y, ast.YieldFrom)]:
            res.violation([q, "unguarded yield from", norm(yf.value)[:60]], f"{f.short}: `yield from {norm(yf.value)[:60]}` hands results through without the "
                                                                            f"seen-set test: the same entry can be returned once per unfolded form",
                          f.relpath, yf.lineno, site=f"{label}: `yield from {norm(yf.value)[:40]}`")
        sets = {d.var for d in flow.all_defs if d.kind == "assign" and d.value is not None and norm(d.value) == "set()"}
        adders: Dict[str, str] = {}  # alias name -> set var
        for d in flow.all_defs:
            if d.kind == "assign" and isinstance(d.value, ast.Attribute) and d.value.attr == "add" and norm(d.value.value) in sets:
                adders[d.var] = norm(d.value.value)
        for y in yields:
            yn = cfg.node_of(y)
            site = f"{label}: `yield {norm(y.value)[:40]}`"
            tests = ctx.ef._dominating_tests(cfg, y)
            guard = None
            from ..shape import fact_nodes_at as _fna

            for e_, truth_ in _fna(ctx, f, y):
                # atomised: `x not in s` arrives as (`x in s`, False); a negated test arrives with its truth flipped
                if isinstance(e_, ast.Compare) and len(e_.ops) == 1 and isinstance(e_.ops[0], ast.In) and not truth_:
                    s = norm(e_.comparators[0])
                    if s in sets:
                        guard = (e_, e_, s)
            if guard is None:
                res.violation([q, "unguarded yield", norm(y.value)], f"{f.short}: `yield {norm(y.value)}` is not guarded by a seen-set test: the "
                                                                     f"same entry can be returned once per unfolded form", f.relpath, y.lineno, site=site)
                continue
            t, c, s = guard
            key = norm(c.left)
            adds = []
            for n in own_nodes(f.node):
                if isinstance(n, ast.Call) and n.args and norm(n.args[0]) == key:
                    if isinstance(n.func, ast.Attribute) and n.func.attr == "add" and norm(n.func.value) == s:
                        adds.append(n)
                    elif isinstance(n.func, ast.Name) and adders.get(n.func.id) == s:
                        adds.append(n)
            tn = cfg.node_of(c) or cfg.node_of(c.left)
            if not adds:
                res.violation([q, "no insert", s], f"{f.short}: `{key}` is tested against `{s}` but never added to it", f.relpath, y.lineno, site=site)
                continue
            add_nodes = [cfg.node_of(a).id for a in adds]
            # every yield is preceded by the insert, or followed by it before the next iteration
            before = cfg.on_all_paths(tn.id, yn.id, add_nodes)
            loops = cfg.enclosing_loops(yn.id)
            after = bool(loops) and cfg.on_all_paths(yn.id, loops[-1].id, add_nodes)
            if not (before or after):
                res.violation([q, "insert not paired", s], f"{f.short}: a path yields `{key}` without recording it in `{s}`", f.relpath, y.lineno, site=site)
                continue
            # the insert sits in the same guard region as the yield (not before the validity checks)
            ytests = {(norm(tt), lab) for tt, lab in tests}
            for a in adds:
                atests = {(norm(tt), lab) for tt, lab in ctx.ef._dominating_tests(cfg, a)}
                inner = {x for x in ytests - atests if "as_sid" not in x[0] and "do_strip" not in x[0] and x[0] not in ("True", "1")}
                # exceptional edges: an insert before a try body is not in the same region as a yield after it
                if inner:
                    res.violation([q, "insert before validation", s],
                                  f"{f.short}: `{norm(a)}` records the entry before the checks that guard the yield ({sorted(x[0] for x in inner)[:2]}): "
                                  f"an entry rejected once (e.g. found by a search of another type) is then skipped for good",
                                  f.relpath, a.lineno, site=site)
                    break
            else:
                res.ok(site, f"guarded by `{norm(c)}`; `{s}.add({key})` paired with it in the same guard region")
    return res


SKIP_OK = {
    "spil.sid.pathops.find_paths.FindInPaths.star_search_simple": [
        ("path in found_paths", "already returned"), ("sid.type != search.type", "found file is of another type"),
        ("not sid", "path conforms to no template"), ("not pattern", "search has no path"),
        ("pattern in searched.get(search.type, [])", "pattern already searched for this type"),
    ],
}


def _skip_role(ctx: Ctx, f: FunctionInfo, t: ast.AST, lab: str) -> Optional[str]:
    """one of the accepted reasons to skip, recognised by what the tested values are (not by what they are called):
    the search has no path; the glob pattern was already searched for this type; the found path was already answered;
    the found Sid is empty / of another type than the searched one"""
    fl = flow_of(f.node)
    at = fl.node_of(t)
    aid = at.id if at is not None else None

    def deps(e):
        return fl.depends(e, aid)

    def from_listing(e) -> bool:
        return any(a.kind == "call" and ("glob" in a.text or a.text.split(".")[-1] in ("listdir", "scandir", "iterdir")) for a in deps(e))

    def from_search_path(e) -> bool:
        return any(a.kind == "call" and a.text.split(".")[-1] == "path" for a in deps(e)) and not from_listing(e)

    def from_found_sid(e) -> bool:
        return any(a.kind == "call" and a.text == "Sid" for a in deps(e)) and from_listing(e)
    inner = t.operand if isinstance(t, ast.UnaryOp) and isinstance(t.op, ast.Not) else None
    if inner is not None and lab == "true" and isinstance(inner, ast.Name):
        if from_found_sid(inner):
            return "the found path conforms to no template (empty Sid)"
        if from_search_path(inner):
            return "the search has no path"
    if isinstance(t, ast.Compare) and len(t.ops) == 1 and lab == "true":
        if isinstance(t.ops[0], ast.Is) and isinstance(t.comparators[0], ast.Constant) and t.comparators[0].value is None and from_found_sid(t.left):
            return "no Sid of the searched type for the found path"
        if isinstance(t.ops[0], ast.In):
            if from_listing(t.left):
                return "the found path was already answered"
            key_ = inline_locals(f, t.left, t, depth=1)
            typed = any(isinstance(x, ast.Attribute) and x.attr == "type" for x in ast.walk(key_))
            if from_search_path(t.left) and (typed or _per_type(fl, t.comparators[0], at)):
                return "the glob pattern was already searched for this type"
        if isinstance(t.ops[0], ast.NotEq) and isinstance(t.left, ast.Attribute) and t.left.attr == "type" and isinstance(t.comparators[0], ast.Attribute) \
                and t.comparators[0].attr == "type" and (from_found_sid(t.left.value) or from_found_sid(t.comparators[0].value)):
            return "the found Sid is of another type than the searched one"
    return None


def rule_skips(ctx: Ctx) -> RuleResult:
    """FindInPaths drops a found path only for the reasons the property names"""
    res = RuleResult("R-SKIPS")
    q = "spil.sid.pathops.find_paths.FindInPaths.star_search_simple"
    f = ctx.p.function(q)
    cfg = cfg_of(f.node)
    allowed = {a for a, _ in SKIP_OK[q]}
    n = 0
    for c in own_nodes(f.node):
        if not isinstance(c, ast.Continue):
            continue
        n += 1
        cn = cfg.node_of(c)
        # the innermost test (or handler) that leads here
        handler = any(isinstance(h, ast.ExceptHandler) and any(x is c for x in ast.walk(h)) for h in ast.walk(f.node))
        if handler:
            res.ok(f"FindInPaths: continue in except handler", "a path that raises SpilException is skipped")
            continue
        tests = ctx.ef._dominating_tests(cfg, c)
        inner = tests[-1] if tests else None
        best = None
        for t, lab in tests:
            tn = cfg.node_of(t)
            if best is None or cfg.dominates(cfg.node_of(best[0]).id, tn.id):
                best = (t, lab)
        t, lab = best if best else (None, None)
        txt = norm(t) if t is not None else "?"
        if lab == "false":
            txt = f"not ({txt})"
        if txt in allowed:
            res.ok(f"FindInPaths: continue under `{txt}`", dict(SKIP_OK[q])[txt])
        elif lab == "true" and isinstance(t, ast.Compare) and len(t.ops) == 1 and isinstance(t.ops[0], ast.In) and norm(t.left) == "pattern" \
                and _per_type(flow_of(f.node), t.comparators[0], cfg.node_of(t)):
            res.ok("FindInPaths: pattern dedupe", "per type")
        elif _skip_role(ctx, f, t, lab):
            res.ok(f"FindInPaths: continue under `{txt}`", _skip_role(ctx, f, t, lab))
        else:
            res.violation([q, "skip", txt], f"FindInPaths.star_search_simple skips a found path under `{txt}`: existing entities conforming to the "
                                            f"searched type are dropped for a reason the other finders do not have", f.relpath, c.lineno)
    # what the file system is asked with, and what is done to its answers before they are resolved: glob.glob (which leaves dot-files -
    # the data sidecars - out) and nothing that rewrites the path (following links, making it absolute, normalising it)
    from .pathops import LOSSY_PATH_CALLS

    listers = [x for x in own_nodes(f.node) if isinstance(x, ast.Call) and ((dotted(x.func) or "").split(".")[-1] in (
        "glob", "iglob", "rglob", "listdir", "scandir", "walk", "iterdir", "fnmatch", "filter"))]
    for x in listers:
        nm = dotted(x.func) or norm(x.func)
        hidden = any(k.arg == "include_hidden" and not (isinstance(k.value, ast.Constant) and k.value.value is False) for k in x.keywords)
        if nm not in ("glob.glob", "glob.iglob") or hidden:
            res.violation([q, "file-system listing", nm], f"FindInPaths.star_search_simple lists the file system with `{norm(x)[:60]}`: unlike glob.glob it "
                                                          f"also answers names starting with a dot, so the hidden data sidecars become candidates (and, at the "
                                                          f"levels with free names, entities)", f.relpath, x.lineno)
    if listers:
        res.ok("FindInPaths: listing", "glob.glob: dot-files are not listed")
    sfl = flow_of(f.node)
    for x in own_nodes(f.node):
        if isinstance(x, ast.Call) and isinstance(x.func, ast.Attribute) and x.func.attr in LOSSY_PATH_CALLS and x.func.attr not in ("strip", "rstrip", "lstrip",
                                                                                                                                       "lower", "upper"):
            at_ = sfl.node_of(x)
            deps_ = sfl.depends(x.func.value, at_.id if at_ is not None else None)
            if any(a_.kind == "call" and ("glob" in a_.text or a_.text.split(".")[-1] in ("listdir", "scandir", "iterdir")) for a_ in deps_):
                res.violation([q, "found path rewritten", x.func.attr], f"FindInPaths.star_search_simple passes a found path through `.{x.func.attr}()` before "
                                                                        f"resolving it: the path that is typed is not the path that was found (a symbolic "
                                                                        f"link on the way, a relative root), entities reached that way are lost or answered as "
                                                                        f"another Sid", f.relpath, x.lineno)
    # one typed search that cannot be answered is skipped, it does not end the search: no bare return inside the loop over the searches
    for lp in [x for x in own_nodes(f.node) if isinstance(x, ast.For)]:
        inner_loops = [y for y in ast.walk(lp) if isinstance(y, ast.For) and y is not lp]
        if any(any(z is lp for z in ast.walk(o)) for o in own_nodes(f.node) if isinstance(o, ast.For) and o is not lp):
            continue  # only the outermost loop (over the typed searches)
        for r_ in [y for y in ast.walk(lp) if isinstance(y, ast.Return)]:
            res.violation([q, "return in the search loop", norm(r_)], f"FindInPaths.star_search_simple leaves the generator (`{norm(r_)}`) from inside the "
                                                                     f"loop over the typed searches: every search after this one is dropped, although "
                                                                     f"only this one cannot be answered", f.relpath, r_.lineno)
    res.floor(n, 4, "skip statements in star_search_simple")
    # required guards on the yield
    ys = [y for y in _yields(f) if isinstance(y, ast.Yield)]
    import re as _re
    from ..shape import facts_at as _facts_at

    for y in ys:
        tests = {(norm(t), lab) for t, lab in ctx.ef._dominating_tests(cfg, y)}
        need = [("not sid", "false"), ("sid.type != search.type", "false")]
        missing = [t for t in need if t not in tests]
        if missing:
            # the same two guards as facts about whatever name the found Sid goes by here
            yv = y.value
            if isinstance(yv, ast.Call) and dotted(yv.func) == "str" and len(yv.args) == 1:
                yv = yv.args[0]
            fs_ = _facts_at(ctx, f, y)
            if isinstance(yv, ast.Name):
                sv = _re.escape(yv.id)
                truthy = (yv.id, True) in fs_
                typed = any((_re.fullmatch(rf"{sv}\.type != \w+\.type", t_) and not tr_) or (_re.fullmatch(rf"{sv}\.type == \w+\.type", t_) and tr_)
                            for t_, tr_ in fs_)
                missing = ([] if truthy else [need[0]]) + ([] if typed else [need[1]])
        if missing:
            res.violation([q, "yield guard", missing[0][0]], f"star_search_simple yields without the `{missing[0][0]}` skip", f.relpath, y.lineno)
        else:
            res.ok(f"FindInPaths: `yield {norm(y.value)}`", "behind the falsy-Sid skip and the type-mismatch skip")
    # the already-searched-pattern shortcut is per type
    sflow = flow_of(f.node)
    for c in own_nodes(f.node):
        if not (isinstance(c, ast.Compare) and len(c.ops) == 1 and isinstance(c.ops[0], ast.In)):
            continue
        cn_ = cfg.node_of(c)
        ldeps = sflow.depends(c.left, cn_.id if cn_ is not None else None)
        # the glob pattern: made from search.path(..), not something the file system answered
        is_pattern = norm(c.left) == "pattern" or (
            any(a.kind == "call" and a.text.split(".")[-1] == "path" for a in ldeps)
            and not any(a.kind == "call" and ("glob" in a.text or "findSequences" in a.text or a.text.split(".")[-1] in ("listdir", "scandir", "walk"))
                        for a in ldeps))
        if is_pattern and not isinstance(c.comparators[0], (ast.Constant, ast.Tuple, ast.List)):
            cont = c.comparators[0]
            if _per_type(flow_of(f.node), cont, cfg.node_of(c)):
                res.ok("FindInPaths: searched patterns", "remembered per Sid type")
            else:
                res.violation([q, "searched patterns", norm(cont)], "star_search_simple remembers searched glob patterns across types: two typed "
                                                                   "searches with the same pattern are globbed once and the second type's files are dropped by the "
                                                                   "type check", f.relpath, c.lineno)
    return res


def _per_type(flow, container: ast.AST, at) -> bool:
    """the container of already searched patterns is looked up by the type of the search"""
    if any(isinstance(x, ast.Attribute) and norm(x) == "search.type" for x in ast.walk(container)):
        return True
    deps = flow.depends(container, at.id if at is not None else None)
    return any(a.kind == "attr" and a.text == "search.type" for a in deps)


GEN_FUNCS = {"filter", "map", "iter", "zip", "reversed", "enumerate"}


def rule_reiter(ctx: Ctx) -> RuleResult:
    """a sequence iterated once per outer iteration must be re-iterable (not a generator)"""
    res = RuleResult("R-REITER")
    n = 0
    for f in ctx.p.iter_functions(kinds=("library",)):
        if f.module.name == "spil.sid.read.finders.find_cache":
            continue
        flow = flow_of(f.node)
        for outer in own_nodes(f.node):
            if not isinstance(outer, (ast.For, ast.While)):
                continue
            for inner in ast.walk(ast.Module(body=outer.body, type_ignores=[])):
                if not (isinstance(inner, ast.For) and isinstance(inner.iter, ast.Name)):
                    continue
                var = inner.iter.id
                at = flow.node_of(inner)
                defs = flow.defs_reaching(at.id, var) if at else []
                outside = [d for d in defs if d.kind == "assign" and d.value is not None and not any(
                    x is d.value for x in ast.walk(outer))]
                if not outside:
                    continue
                n += 1
                for d in outside:
                    bad = _is_one_shot(ctx, f, d.value)
                    if bad:
                        res.violation([f.qualname, var, "one-shot iterable"],
                                      f"{f.short}: `{var}` is iterated once per outer iteration but is {bad}: only the first pass sees any "
                                      f"element", f.relpath, inner.lineno)
                        break
                else:
                    res.ok(f"{f.qualname}: inner loop over `{var}`", "re-iterable")
    res.floor(n, 1, "nested loops over an outer-defined sequence")
    return res


def _is_one_shot(ctx: Ctx, f: FunctionInfo, e: ast.AST, depth: int = 0) -> Optional[str]:
    if isinstance(e, ast.GeneratorExp):
        return "a generator expression"
    if isinstance(e, ast.Call):
        nm = dotted(e.func) or ""
        if nm in GEN_FUNCS:
            return f"the one-shot iterator {nm}(...)"
        if depth > 2:
            return None
        cs = next((c for c in ctx.cg.sites.get(f.qualname, []) if c.node is e), None)
        for t in (cs.targets if cs else []):
            if any(isinstance(n, (ast.Yield, ast.YieldFrom)) for n in own_nodes(t.node)):
                return f"the generator {t.short}()"
            for r in [n for n in own_nodes(t.node) if isinstance(n, ast.Return) and n.value is not None]:
                b = _is_one_shot(ctx, t, r.value, depth + 1)
                if b:
                    return f"returned by {t.short}() as {b}"
    return None


# ------------------------------------------------------------------------------------------------ C12
def rule_assid(ctx: Ctx) -> RuleResult:
    res = RuleResult("R-ASSID")
    n = 0
    classes = [c for c in ctx.p.classes.values() if c.module.kind == "library" and c.module.name != "spil.sid.read.finders.find_cache"
               and any(k.qualname == "spil.sid.read.finder.Finder" for k in ctx.p.mro(c))]
    methods = [m for c in classes for m in c.methods.values()]
    # module-level helpers of the finder modules with an as_sid parameter (e.g. `_as_result(sid, as_sid)`)
    for mod in {c.module.name: c.module for c in classes}.values():
        methods += [g for g in mod.functions.values() if g.cls is None and g.parent is None and "as_sid" in g.params]
    for _ in [0]:
        for m in methods:
            for st in own_nodes(m.node):
                if not (isinstance(st, ast.If) and norm(st.test) in ("as_sid", "not as_sid")):
                    continue
                n += 1
                body = [x for x in st.body if not isinstance(x, (ast.Break, ast.Continue))]
                orelse = [x for x in st.orelse if not isinstance(x, (ast.Break, ast.Continue))]
                if not st.orelse and st.body and isinstance(st.body[-1], (ast.Break, ast.Continue, ast.Return)):
                    # early-exit spelling: the other branch is what follows the `if`
                    orelse = [x for x in _following(m.node, st) if not isinstance(x, (ast.Break, ast.Continue))][:1]
                if norm(st.test) == "not as_sid":
                    body, orelse = orelse, body  # `body` is always what is produced when Sids were asked for
                a = [x for x in body if isinstance(x, (ast.Expr, ast.Return, ast.Assign))]
                b = [x for x in orelse if isinstance(x, (ast.Expr, ast.Return, ast.Assign))]
                va = _value_of(a[0]) if len(a) == 1 and len(body) == 1 else None
                vb = _value_of(b[0]) if len(b) == 1 and len(orelse) == 1 else None
                if a and b and (isinstance(a[0], ast.Assign) or isinstance(b[0], ast.Assign)):
                    # both branches bind the same result variable
                    if not (isinstance(a[0], ast.Assign) and isinstance(b[0], ast.Assign) and norm(a[0].targets[0]) == norm(b[0].targets[0])):
                        va = vb = None
                site = f"{m.qualname}: if as_sid: {norm(va) if va is not None else '?'} else: {norm(vb) if vb is not None else '?'}"
                ok = False
                if va is not None and vb is not None:
                    ta, tb = norm(va), norm(vb)
                    ok = tb == f"str({ta})" or ta == f"Sid({tb})"
                    if not ok:
                        # one side is a local bound to the converted other side (`item = str(sid)`)
                        flow = flow_of(m.node)
                        for x, other, tmpl in ((vb, ta, "str({})"), (va, tb, "Sid({})")):
                            if isinstance(x, ast.Name):
                                at = flow.node_of(st)
                                ds = flow.defs_reaching(at.id, x.id) if at else []
                                if ds and all(d.kind == "assign" and d.value is not None and norm(d.value) == tmpl.format(other) for d in ds):
                                    ok = True
                if ok:
                    res.ok(site, "the string form is exactly str() of the Sid form")
                else:
                    res.violation([m.qualname, "as_sid branches", norm(st)[:60]], f"{m.short}: the as_sid=True and as_sid=False branches do not "
                                                                                  f"produce the same entry as Sid and as string", m.relpath, st.lineno, site=site)
    res.floor(n, 3, "`if as_sid:` branch pairs")
    return res


def _following(fn: ast.AST, st: ast.stmt) -> List[ast.stmt]:
    for holder in ast.walk(fn):
        for fld in ("body", "orelse", "finalbody"):
            blk = getattr(holder, fld, None)
            if isinstance(blk, list) and st in blk:
                return blk[blk.index(st) + 1:]
    return []


def _value_of(st):
    v = st.value
    if isinstance(v, ast.Yield):
        return v.value
    return v


def rule_deleg(ctx: Ctx) -> RuleResult:
    res = RuleResult("R-DELEG")
    p = ctx.p
    ex = p.function("spil.sid.read.finder.Finder.exists")
    ok = any(r.value is not None and norm(r.value) == f"bool(self.find_one({ex.params[1]}, as_sid=False))" for r in _rets(ex))
    (res.ok if ok else None) and res.ok("Finder.exists", "bool(self.find_one(search_sid, as_sid=False))")
    if not ok:
        res.violation([ex.qualname, "delegation"], "Finder.exists is not bool(find_one(...))", ex.relpath, ex.node.lineno)
    fo = p.function("spil.sid.read.finder.Finder.find_one")
    firsts = [n for n in own_nodes(fo.node) if isinstance(n, ast.Call) and dotted(n.func) == "first"]
    ok = len(firsts) == 1 and firsts[0].args and norm(firsts[0].args[0]) == f"self.find({fo.params[1]}, as_sid=False)"
    if ok:
        res.ok("Finder.find_one", "first(self.find(search_sid, as_sid=False)), then Sid(found) when as_sid")
    else:
        res.violation([fo.qualname, "delegation"], "Finder.find_one is not first(self.find(...))", fo.relpath, fo.node.lineno)
    fi = p.function("spil.sid.read.util.first")
    ok = any(isinstance(n, ast.Call) and norm(n) == f"next(iter({fi.params[0]}))" for n in own_nodes(fi.node)) and ctx.ef.caught_locally(
        fi, next(n for n in own_nodes(fi.node) if isinstance(n, ast.Call) and dotted(n.func) == "next"), "StopIteration")
    if ok:
        res.ok("read.util.first", "next(iter(iterable)) with the default on StopIteration")
    else:
        res.violation([fi.qualname, "first"], "first() is not next(iter(x)) guarded against StopIteration", fi.relpath, fi.node.lineno)
    # no Finder subclass overrides exists / find_one with its own data path
    base = p.cls("spil.sid.read.finder.Finder")
    for k in p.subclasses(base):
        if k.module.kind != "library" or k.module.name == "spil.sid.read.finders.find_cache":
            continue
        for nm in ("exists", "find_one"):
            if nm in k.methods:
                res.violation([k.qualname, nm, "override"], f"{k.name} overrides {nm}: it no longer is what find() yields first", k.methods[nm].relpath,
                              k.methods[nm].node.lineno)
    res.ok("Finder subclasses", "none overrides exists / find_one", nontrivial=False)
    # DataSid
    want = {
        "spil.sid.sid.DataSid.exists": ["FindInAll().exists(self)"],
        "spil.sid.sid.DataSid.children": ["list(FindInAll().find(search, as_sid=True))", "list(FindInAll().find(self / '*', as_sid=True))"],
        "spil.sid.sid.DataSid.siblings_as": ["list(FindInAll().find(search, as_sid=True))"],
        "spil.sid.sid.DataSid.siblings": ["self.siblings_as(self.keytype)"],
    }
    import re as _re

    def _find_arg(fx, r_):
        """the expression searched for when the return value is list(FindInAll().find(<it>, as_sid=True)), locals read through"""
        v_ = inline_locals(fx, r_.value, r_)
        m_ = isinstance(v_, ast.Call) and dotted(v_.func) == "list" and len(v_.args) == 1 and isinstance(v_.args[0], ast.Call) \
            and norm(v_.args[0].func) == "FindInAll().find" and len(v_.args[0].args) == 1 and [(k.arg, norm(k.value)) for k in v_.args[0].keywords] == [
                ("as_sid", "True")]
        return norm(v_.args[0].args[0]) if m_ else None
    for q, forms in want.items():
        f = p.function(q)
        if any(r.value is not None and (norm(r.value) in forms or norm(inline_locals(f, r.value, r)) in forms or (
                forms[0].startswith("list(FindInAll().find(") and _find_arg(f, r) is not None)) for r in _rets(f)):
            res.ok(q, f"delegates: {forms[0]}")
        else:
            res.violation([q, "delegation"], f"{f.short} no longer delegates to FindInAll as `{forms[0]}`", f.relpath, f.node.lineno)
    ch = p.function("spil.sid.sid.DataSid.children")
    flow = flow_of(ch.node)
    searched = [a_ for a_ in (_find_arg(ch, r_) for r_ in _rets(ch) if r_.value is not None) if a_ is not None]
    if searched and all(a_ == "self / '*'" for a_ in searched):
        res.ok("DataSid.children search", "self / '*'")
    else:
        res.violation([ch.qualname, "search"], "children() does not search self / '*'", ch.relpath, ch.node.lineno)
    from ..shape import facts_at as _facts_at

    ch_rets = [r for r in _rets(ch) if r.value is not None]
    leaf = (any(norm(r.value) == "[]" and ("self.is_leaf()", True) in _facts_at(ctx, ch, r) for r in ch_rets)
            and all(("self.is_leaf()", False) in _facts_at(ctx, ch, r) for r in ch_rets if norm(r.value) != "[]"))
    il = p.function("spil.sid.sid.TypedSid.is_leaf")
    leaf_conf = any(r.value is not None and norm(r.value) == "bool(self.get(conf.leaf_keys.get(self.basetype)))" for r in _rets(il))
    if leaf and leaf_conf:
        res.ok("leaf rule", "children() is [] under is_leaf(), which reads conf.leaf_keys[basetype]")
    else:
        res.violation([ch.qualname, "leaf rule"], "a leaf Sid has no children: is_leaf() / leaf_keys rule is gone", ch.relpath, ch.node.lineno)
    sa = p.function("spil.sid.sid.DataSid.siblings_as")
    flow = flow_of(sa.node)
    searched = [a_ for a_ in (_find_arg(sa, r_) for r_ in _rets(sa) if r_.value is not None) if a_ is not None]
    if searched and all(a_ == f"self.get_as({sa.params[1]}).get_with(key={sa.params[1]}, value='*')" for a_ in searched):
        res.ok("DataSid.siblings_as search", "get_as(key).get_with(key=key, value='*')")
    else:
        res.violation([sa.qualname, "search"], "siblings_as(key) does not search get_as(key) with key='*'", sa.relpath, sa.node.lineno)
    return res


def rule_match(ctx: Ctx) -> RuleResult:
    res = RuleResult("R-MATCH")
    f = ctx.p.function("spil.sid.sid.TypedSid.match")
    cfg = cfg_of(f.node)
    sp = f.params[1]
    problems = []
    finals = []
    for r in _rets(f):
        v = r.value
        tests = [(ntext(f, t, t), lab) for t, lab in ctx.ef._dominating_tests(cfg, r)]
        if isinstance(v, ast.Constant) and v.value is True:
            if not any(t in (f"Sid({sp}) == self", f"self == Sid({sp})") and lab == "true" for t, lab in tests):
                problems.append("returns True for something else than identity")
        elif isinstance(v, ast.Constant) and v.value is False:
            if not any(t == "not self._fields" and lab == "true" for t, lab in tests):
                problems.append(f"returns False under `{tests[-1][0] if tests else '?'}` before asking the list search")
        else:
            finals.append(r)
    if len(finals) != 1:
        problems.append("no single final comparison")
    else:
        v = inline_locals(f, finals[0].value, finals[0])
        flow = flow_of(f.node)
        ok = isinstance(v, ast.Compare) and isinstance(v.ops[0], ast.Eq) and norm(v.comparators[0]) == "self.string" \
            and isinstance(v.left, ast.Call) and isinstance(v.left.func, ast.Attribute) and v.left.func.attr == "find_one" \
            and v.left.args and norm(v.left.args[0]) == sp and any(k.arg == "as_sid" and norm(k.value) == "False" for k in v.left.keywords)
        if ok:
            recv = v.left.func.value
            ok = isinstance(recv, ast.Call) and dotted(recv.func) == "FindInList" and len(recv.args) == 1 and norm(recv.args[0]) == "[self.string]" \
                and not recv.keywords
            fl = [n for n in own_nodes(f.node) if isinstance(n, ast.Call) and dotted(n.func) == "FindInList"]
            ok = ok and len(fl) == 1
        if not ok:
            problems.append("the answer is not `FindInList([self.string]).find_one(search_sid, as_sid=False) == self.string`")
    if problems:
        res.violation([f.qualname, "shape"], "TypedSid.match: " + "; ".join(problems), f.relpath, f.node.lineno)
    else:
        res.ok("TypedSid.match", "identity shortcut, False for an untyped Sid, else found-in-a-singleton-list")
    return res


# ------------------------------------------------------------------------------------------------ C08 glob
def rule_globre(ctx: Ctx) -> RuleResult:
    res = RuleResult("R-GLOBRE")
    f = ctx.p.function("spil.sid.read.finders.find_list.glob2re")
    flow = flow_of(f.node)
    pat = f.params[0]
    # dispatch on the current character
    branches: Dict[str, ast.If] = {}
    default_escape = False
    for n in own_nodes(f.node):
        if isinstance(n, ast.If) and isinstance(n.test, ast.Compare) and norm(n.test.left) == "c" and isinstance(n.test.ops[0], ast.Eq) \
                and isinstance(n.test.comparators[0], ast.Constant):
            branches[n.test.comparators[0].value] = n
    star = branches.get("*")
    frag = None
    if star is not None:
        for s in ast.walk(ast.Module(body=star.body, type_ignores=[])):
            if isinstance(s, ast.Constant) and isinstance(s.value, str) and s.value:
                frag = s.value
    ok_star = False
    if frag is not None:
        try:
            parsed = list(sre_parse.parse(frag))
            import re._constants as c_  # type: ignore
            if len(parsed) == 1 and parsed[0][0] is c_.MAX_REPEAT:
                lo, hi, sub = parsed[0][1]
                sub = list(sub)
                if lo == 0 and len(sub) == 1:
                    if sub[0][0] is c_.NOT_LITERAL and chr(sub[0][1]) == "/":
                        ok_star = True
                    if sub[0][0] is c_.IN and sub[0][1] and sub[0][1][0][0] is c_.NEGATE and any(
                            x[0] is c_.LITERAL and chr(x[1]) == "/" for x in sub[0][1][1:]):
                        ok_star = True
        except Exception:
            ok_star = False
    if ok_star:
        res.ok("glob2re '*'", f"translated to `{frag}`: any run of characters except '/'")
    else:
        res.violation([f.qualname, "star fragment", str(frag)], f"glob2re translates '*' to `{frag}`, which is not 'any run of characters except /': "
                                                                f"a '*' crosses segment boundaries or matches too little", f.relpath, f.node.lineno)
    # default branch escapes the character
    esc = [n for n in own_nodes(f.node) if isinstance(n, ast.Call) and dotted(n.func) == "re.escape" and n.args and norm(n.args[0]) == "c"]
    if esc:
        res.ok("glob2re default", "every other character is re.escape()d: it matches itself")
    else:
        res.violation([f.qualname, "default branch"], "glob2re no longer escapes ordinary characters", f.relpath, f.node.lineno)
    # the returned expression: flags first, end anchored
    rets = _rets(f)
    ok_ret = False
    why = ""
    for r in rets:
        parts = _concat_parts(r.value)
        consts = [(i, p.value) for i, p in enumerate(parts) if isinstance(p, ast.Constant) and isinstance(p.value, str)]
        flags = [(i, v) for i, v in consts if "(?" in v and not v.startswith("(?:") and not v.startswith("(?P")]
        anchored = any(v.endswith("\\Z") or v.endswith("$") or "\\Z" in v for i, v in consts if i == len(parts) - 1) or any(
            i == len(parts) - 1 and ("\\Z" in v) for i, v in consts)
        for i, v in flags:
            if i != 0 or not v.startswith("(?"):
                why = f"the global flag group `{v}` is not at the start of the expression (re.error from Python 3.11 on)"
        if not anchored:
            why = why or "the expression is not anchored at the end: a search matches entries with more segments"
        if any(v.endswith("$") for i, v in consts if i == len(parts) - 1):
            why = why or "anchored with '$', which also matches before a trailing newline"
        ok_ret = not why
    if ok_ret:
        res.ok("glob2re result", "inline flags lead the expression; the end is anchored with \\Z")
    else:
        res.violation([f.qualname, "result shape"], f"glob2re: {why}", f.relpath, rets[0].lineno if rets else f.node.lineno)
    # used with re.match (anchored at the start), pattern built from str(search_sid), each item tested
    ss = ctx.p.function("spil.sid.read.finders.find_list.FindInList.star_search")
    m = [n for n in own_nodes(ss.node) if isinstance(n, ast.Call) and dotted(n.func) in ("re.match", "re.fullmatch")]
    g = [n for n in own_nodes(ss.node) if isinstance(n, ast.Call) and dotted(n.func) == "glob2re"]
    matched_ok = True
    if len(m) == 1:
        from ..shape import fact_nodes_at as _fna2

        for y in [y for y in _yields(ss) if isinstance(y, ast.Yield)]:
            if not any(truth_ and any(x is m[0] for x in ast.walk(e_)) for e_, truth_ in _fna2(ctx, ss, y)):
                matched_ok = False
    if len(m) == 1 and not matched_ok:
        res.violation([ss.qualname, "matching polarity"], "FindInList.star_search yields an entry that is not under a successful "
                                                          "re.match(pattern, item): entries that do not match the search are returned",
                      ss.relpath, m[0].lineno)
    elif len(m) == 1 and len(g) == 1 and norm(g[0].args[0]) == "str(search_sid)" and norm(m[0].args[0]) == "pattern" and norm(m[0].args[1]) == "item":
        res.ok("FindInList.star_search", "re.match(glob2re(str(search_sid)), item) for every item of the list")
    else:
        res.violation([ss.qualname, "matching"], "FindInList.star_search does not test every item with re.match(glob2re(str(search_sid)), item)",
                      ss.relpath, ss.node.lineno)
    return res


def _concat_parts(e: ast.AST) -> List[ast.AST]:
    if isinstance(e, ast.BinOp) and isinstance(e.op, ast.Add):
        return _concat_parts(e.left) + _concat_parts(e.right)
    return [e]


@conds.cond("glob2re_wellformed")
def _cond_glob(ctx: Ctx):
    r = rule_globre(ctx)
    if r.findings:
        return False, r.findings[0].message
    return True, "glob2re emits a well-formed, flag-first, end-anchored expression"


# ------------------------------------------------------------------------------------------------ C09
def _key_function_body(f: FunctionInfo, key: ast.AST):
    """(argument name, body expression) of a sort / group key given as a lambda or as a local function"""
    if isinstance(key, ast.Lambda) and len(key.args.args) == 1:
        return key.args.args[0].arg, key.body
    if isinstance(key, ast.Name) and key.id in f.nested:
        g = f.nested[key.id]
        rets = [n for n in own_nodes(g.node) if isinstance(n, ast.Return) and n.value is not None]
        if len(rets) == 1 and len(g.params) == 1:
            return g.params[0], rets[0].value
    if isinstance(key, ast.Name) and key.id in f.module.functions:
        # a module-level helper given by name (`key=_segments`)
        g = f.module.functions[key.id]
        rets = [n for n in own_nodes(g.node) if isinstance(n, ast.Return) and n.value is not None]
        if len(rets) == 1 and len(g.params) == 1 and g.cls is None:
            return g.params[0], rets[0].value
    return None, None


def _is_full_split(f: FunctionInfo, arg: str, e: ast.AST) -> bool:
    """e is  arg.split('/')  (possibly wrapped in tuple()/list(), or a call of a local function doing that)"""
    if isinstance(e, ast.Call) and isinstance(e.func, ast.Name) and e.func.id in ("tuple", "list") and len(e.args) == 1:
        e = e.args[0]
    if isinstance(e, ast.Call) and isinstance(e.func, ast.Name) and e.func.id in f.nested and len(e.args) == 1 and norm(e.args[0]) == arg:
        a2, b2 = _key_function_body(f, e.func)
        return a2 is not None and _is_full_split(f, a2, b2)
    return isinstance(e, ast.Call) and isinstance(e.func, ast.Attribute) and e.func.attr == "split" and norm(e.func.value) == arg \
        and len(e.args) == 1 and not e.keywords and norm(e.args[0]) in ("'/'", "conf.sip", "sip")


def _sort_star_and_override(ctx: Ctx, f: FunctionInfo, res: RuleResult) -> None:
    """clauses of R-SORT that do not depend on how the greatest entry is picked"""
    rep = [n for n in own_nodes(f.node) if isinstance(n, ast.Call) and isinstance(n.func, ast.Attribute) and n.func.attr == "replace"
           and len(n.args) == 2 and norm(n.args[0]) == "'>'" and norm(n.args[1]) == "'*'"]
    untyped_rep = [n for n in rep if not (isinstance(n.func.value, ast.Attribute) and n.func.value.attr == "uri")]
    if rep and untyped_rep:
        res.violation([f.qualname, "star read", "type dropped"], f"sorted_search builds the '*' form from `{norm(untyped_rep[0].func.value)}`, not from the "
                                                                 f"search's uri: each typed search loses its type and is typed again by the first "
                                                                 f"template that fits the string", f.relpath, untyped_rep[0].lineno)
    elif rep:
        res.ok("sorted_search star read", "'>' is read as '*' in the uri of each typed search")
    else:
        res.violation([f.qualname, "star read"], "sorted_search no longer reads '>' as '*'", f.relpath, f.node.lineno)
    # the '>' algorithm lives in FindByGlob alone: the Finders built on it supply star_search and nothing else of the dispatch
    base = ctx.p.cls("spil.sid.read.finders.find_glob.FindByGlob")
    n_sub = 0
    for k in ctx.p.subclasses(base):
        if k.module.kind not in ("library", "config") or k.module.name == "spil.sid.read.finders.find_cache":
            continue
        n_sub += 1
        for nm in ("sorted_search", "do_find"):
            if nm in k.methods:
                m = k.methods[nm]
                outs = [n for n in own_nodes(m.node) if isinstance(n, (ast.Yield, ast.YieldFrom)) or (isinstance(n, ast.Return) and n.value is not None)]
                if len(outs) == 1 and not isinstance(outs[0], ast.Yield) and norm(outs[0].value).startswith(f"super().{nm}(") and not any(
                        isinstance(n, ast.Return) and n.value is None for n in own_nodes(m.node)):
                    continue
                res.violation([k.qualname, nm, "override"], f"{k.name} overrides {nm}: '>' searches on it are answered by another algorithm than "
                                                            f"FindByGlob.sorted_search", m.relpath, m.node.lineno)
    res.ok("FindByGlob subclasses", f"{n_sub} subclass(es), none overrides sorted_search / do_find", nontrivial=False)

def _sort_common(ctx: Ctx, f: FunctionInfo, res: RuleResult, flow) -> RuleResult:
    _sort_star_and_override(ctx, f, res)
    return res


def _running_maximum(ctx: Ctx, f: FunctionInfo, res: RuleResult) -> bool:
    """the other honest spelling of '>': one pass that keeps, per group, the greatest entry seen so far.
    Accepted when: the entries are split at '/' in full; the group is the part before the '>' position; an entry replaces the kept one
    only under a `>` comparison of ALL remaining segments (slices from the '>' position, or the full lists), never of the single
    segment at that position; the groups are handed out in descending order.  Reports what is missing."""
    fl = flow_of(f.node)
    splits = {d.var for d in fl.all_defs if d.kind == "assign" and isinstance(d.value, ast.Call) and isinstance(d.value.func, ast.Attribute)
              and d.value.func.attr == "split" and d.value.args and norm(d.value.args[0]) in ("'/'", "conf.sip", "sip")}
    stores = [n for n in own_nodes(f.node) if isinstance(n, ast.Assign) and isinstance(n.targets[0], ast.Subscript) and isinstance(n.targets[0].value, ast.Name)]
    if not splits or not stores:
        return False
    ok_any = False
    for st in stores:
        table = st.targets[0].value.id
        gkey = inline_locals(f, st.targets[0].slice, st, depth=1)
        gtxt = norm(gkey)
        grouped = any(gtxt in (f"tuple({p_}[:index])", f"{p_}[:index]", f"'/'.join({p_}[:index])", f"tuple({p_}[0:index])") for p_ in splits) or any(
            f"{p_}[:index]" in gtxt or f"{p_}[0:index]" in gtxt for p_ in splits)
        if not grouped:
            continue
        cmps = [e_ for e_, truth_ in _fact_nodes_of(ctx, f, st) if truth_ and isinstance(e_, ast.Compare) and len(e_.ops) == 1
                and isinstance(e_.ops[0], (ast.Gt, ast.GtE))]
        if not cmps:
            res.violation([f.qualname, "running maximum", "unguarded"], f"sorted_search: `{norm(st)}` replaces the entry kept for a group without comparing it",
                          f.relpath, st.lineno)
            return True
        c = cmps[0]

        def whole(e) -> bool:
            # P[index:] / P (a full split), or a name bound to one
            if isinstance(e, ast.Subscript) and isinstance(e.slice, ast.Slice) and e.slice.upper is None and e.slice.step is None:
                return True
            return isinstance(e, ast.Name) and e.id in splits
        if not (whole(c.left) and whole(c.comparators[0])):
            res.violation([f.qualname, "running maximum", "comparison"], f"sorted_search keeps the greatest entry of a group by `{norm(c)}`, which does not "
                                                                         f"compare all remaining segments: entries that tie at the '>' position are ordered "
                                                                         f"by the order they were read in", f.relpath, c.lineno)
            return True
        outs = [n for n in own_nodes(f.node) if isinstance(n, ast.For) and isinstance(n.iter, ast.Call) and dotted(n.iter.func) == "sorted"
                and n.iter.args and norm(n.iter.args[0]).split(".")[0] == table]
        desc = any(any(k.arg == "reverse" and isinstance(k.value, ast.Constant) and k.value.value is True for k in o.iter.keywords) for o in outs)
        if not outs or not desc:
            res.violation([f.qualname, "running maximum", "order"], "sorted_search does not hand out the groups in descending order", f.relpath, st.lineno)
            return True
        res.ok("sorted_search (running maximum)", f"per group `{gtxt}` the entry that is greatest under `{norm(c)}` (all remaining segments) is kept; groups "
                                                  f"are handed out in descending order")
        ok_any = True
    return ok_any


def _fact_nodes_of(ctx: Ctx, f: FunctionInfo, node):
    from ..shape import fact_nodes_at

    return fact_nodes_at(ctx, f, node)


_INDEX_FORMS = ("str(search_sids[0]).split('/').index('>')", "search_sids[0].string.split('/').index('>')")


def _index_names(flow) -> Set[str]:
    """the local(s) holding the position of '>' among the '/'-segments of the first search"""
    return {d.var for d in flow.all_defs if d.kind == "assign" and d.value is not None and norm(d.value) in _INDEX_FORMS}


def rule_sort(ctx: Ctx) -> RuleResult:
    res = RuleResult("R-SORT")
    f = ctx.p.function("spil.sid.read.finders.find_glob.FindByGlob.sorted_search")
    flow = flow_of(f.node)
    sorts = [n for n in own_nodes(f.node) if isinstance(n, ast.Call) and (dotted(n.func) in ("sorted", "max", "min") or (
        isinstance(n.func, ast.Attribute) and n.func.attr == "sort"))]
    groups = [n for n in own_nodes(f.node) if isinstance(n, ast.Call) and (dotted(n.func) or "").endswith("groupby")]
    if len(sorts) != 1 or len(groups) != 1:
        if not groups and _running_maximum(ctx, f, res):
            return _sort_common(ctx, f, res, flow)
        res.violation([f.qualname, "shape"], "sorted_search is neither one sort followed by one groupby nor a running maximum per group", f.relpath,
                      f.node.lineno)
        return res
    s, g = sorts[0], groups[0]
    kw = {k.arg: k.value for k in s.keywords}
    key = kw.get("key")
    a, b = _key_function_body(f, key) if key is not None else (None, None)
    if a is not None and _is_full_split(f, a, b):
        res.ok("sorted_search sort key", "entries are compared segment by segment (key = x.split('/'))")
    else:
        res.violation([f.qualname, "sort key", norm(key) if key is not None else "none"],
                      f"sorted_search orders by `{norm(key) if key is not None else 'the whole string'}`, not segment by segment over all "
                      f"segments: with names containing characters below '/' ('-', '.', '+') '>' picks the wrong entry", f.relpath, s.lineno)
    rev = kw.get("reverse")
    descending = isinstance(rev, ast.Constant) and rev.value is True
    gk = next((k.value for k in g.keywords if k.arg == "key"), g.args[1] if len(g.args) > 1 else None)
    ga, gb = _key_function_body(f, gk) if gk is not None else (None, None)
    okg = False
    if ga is not None and isinstance(gb, ast.Subscript) and isinstance(gb.slice, ast.Slice):
        sl = gb.slice
        okg = sl.upper is not None and norm(sl.upper) in _index_names(flow) and (sl.lower is None or norm(sl.lower) == "0") and sl.step is None \
            and _is_full_split(f, ga, gb.value)
    if okg:
        res.ok("sorted_search group key", "x.split('/')[:index]: the segments before the '>' position")
    else:
        res.violation([f.qualname, "group key"], "sorted_search does not group by the segments before the '>' position", f.relpath, g.lineno)
    # which element of each group is taken
    loop = next((n for n in own_nodes(f.node) if isinstance(n, ast.For) and any(x is g for x in ast.walk(n.iter))), None)
    pick = None
    if loop is not None and isinstance(loop.target, ast.Tuple) and len(loop.target.elts) == 2:
        grp = norm(loop.target.elts[1])
        ys = [y for y in ast.walk(loop) if isinstance(y, ast.Yield) and y.value is not None]
        picks = set()
        for y in ys:
            v = y.value
            if isinstance(v, ast.Call) and dotted(v.func) == "Sid" and len(v.args) == 1:
                v = v.args[0]
            t = norm(inline_locals(f, v, y))
            if t in (f"list({grp})[0]", f"next({grp})", f"next(iter({grp}))"):
                picks.add("first")
            elif t in (f"list({grp})[-1]",):
                picks.add("last")
            else:
                picks.add(t)
        if len(picks) == 1:
            pick = picks.pop()
    if (descending and pick == "first") or (not descending and pick == "last"):
        res.ok("sorted_search direction", f"{'descending sort, first' if descending else 'ascending sort, last'} element of each group")
    else:
        res.violation([f.qualname, "direction"], f"sorted_search sorts {'descending' if descending else 'ascending'} and yields `{pick}` of each "
                                                 f"group: not the greatest entry of the group", f.relpath, s.lineno)
    if _index_names(flow):
        res.ok("sorted_search index", "position of '>' among the segments")
    else:
        res.violation([f.qualname, "index"], "sorted_search does not locate '>' among the '/'-segments", f.relpath, f.node.lineno)
    _sort_star_and_override(ctx, f, res)
    # the input to the sort is the de-duplicated set of found strings
    s_arg = s.args[0] if s.args else None

    def _is_set(e) -> bool:
        if isinstance(e, (ast.Set, ast.SetComp)) or (isinstance(e, ast.Call) and dotted(e.func) in ("set", "frozenset")):
            return True
        if isinstance(e, ast.Name):
            at_ = flow.node_of(s)
            ds = flow.defs_reaching(at_.id, e.id) if at_ is not None else []
            return bool(ds) and all(d.kind == "assign" and d.value is not None and not isinstance(d.value, ast.Name) and _is_set(d.value) for d in ds)
        return False

    if s_arg is not None and ("set(" in norm(s_arg) or _is_set(s_arg)):
        res.ok("sorted_search input", "duplicates are removed before sorting")
    else:
        res.violation([f.qualname, "duplicates"], "sorted_search sorts without removing duplicates", f.relpath, s.lineno)
    return res


def rule_groupfinder(ctx: Ctx) -> RuleResult:
    """FindInAll hands all typed searches of one Finder to it in one call (so '>' is decided per group)"""
    res = RuleResult("R-GROUPFINDER")
    for q, getter, do in (("spil.sid.read.finders.find_all.FindInAll.find", "get_finder", "do_find"),
                          ("spil.sid.read.getters.getter_all.GetFromAll.get", "get_getter", "do_get")):
        from ..shape import expanded

        f = expanded(ctx, ctx.p.function(q))
        flow = flow_of(f.node)
        stores = [n for n in own_nodes(f.node) if isinstance(n, ast.Assign) and isinstance(n.targets[0], ast.Subscript)
                  and isinstance(n.targets[0].value, ast.Name)]
        setdef = [n for n in own_nodes(f.node) if isinstance(n, ast.Call) and isinstance(n.func, ast.Attribute) and n.func.attr == "setdefault"]
        keys = [s.targets[0].slice for s in stores] + [c.args[0] for c in setdef if c.args]
        ok = False
        for k in keys:
            if isinstance(k, ast.Name):
                ds = [d for d in flow.all_defs if d.var == k.id and d.kind == "assign" and isinstance(d.value, ast.Call)
                      and dotted(d.value.func) == getter]
                if ds:
                    ok = True
        # the same grouping through itertools.groupby: the runs it delivers are merged per instance in a dictionary keyed by the
        # groupby key, whose key function is get_finder / get_getter
        gb_filled = False
        for lp in [n for n in own_nodes(f.node) if isinstance(n, ast.For) and isinstance(n.iter, ast.Call) and (dotted(n.iter.func) or "").endswith("groupby")]:
            kf = next((k.value for k in lp.iter.keywords if k.arg == "key"), lp.iter.args[1] if len(lp.iter.args) > 1 else None)
            body_ = None
            if isinstance(kf, ast.Lambda):
                body_ = kf.body
            elif isinstance(kf, ast.Name) and kf.id in f.nested:
                rr = [r_.value for r_ in own_nodes(f.nested[kf.id].node) if isinstance(r_, ast.Return) and r_.value is not None]
                body_ = rr[0] if len(rr) == 1 else None
            if not (isinstance(body_, ast.Call) and dotted(body_.func) == getter) or not isinstance(lp.target, ast.Tuple) or len(lp.target.elts) != 2:
                continue
            kname, gname = norm(lp.target.elts[0]), norm(lp.target.elts[1])
            for c in ast.walk(lp):
                if isinstance(c, ast.Call) and isinstance(c.func, ast.Attribute) and c.func.attr in ("extend", "__iadd__") and c.args and norm(c.args[0]) in (
                        gname, f"list({gname})") and isinstance(c.func.value, ast.Call) and isinstance(c.func.value.func, ast.Attribute) \
                        and c.func.value.func.attr == "setdefault" and c.func.value.args and norm(c.func.value.args[0]) == kname:
                    from ..shape import facts_at as _fa9

                    if (kname, False) not in _fa9(ctx, f, c):
                        ok = True
                        gb_filled = True
        loops = [n for n in own_nodes(f.node) if isinstance(n, ast.For) and norm(n.iter).endswith(".items()")]
        delegated = any(isinstance(c, ast.Call) and isinstance(c.func, ast.Attribute) and c.func.attr == do for lp in loops for c in ast.walk(lp))
        # every typed search lands in its group: under the 'a Finder / Getter is configured' fact the loop variable is added to the
        # group that is (or gets) stored under that instance
        from ..shape import fact_nodes_at as _fna3

        filled = False
        outer = [n for n in own_nodes(f.node) if isinstance(n, ast.For) and not norm(n.iter).endswith(".items()")]
        for lp in outer:
            lv = norm(lp.target)
            for c in ast.walk(lp):
                if isinstance(c, ast.Call) and isinstance(c.func, ast.Attribute) and c.func.attr in ("append", "add") and c.args and norm(c.args[0]) == lv:
                    facts = _fna3(ctx, f, c)
                    neg = [e for e, truth in facts if not truth and isinstance(e, ast.Name) and any(
                        d.kind == "assign" and isinstance(d.value, ast.Call) and dotted(d.value.func) == getter for d in flow.all_defs if d.var == e.id)]
                    grp = inline_locals(f, c.func.value, c)
                    hidden = any(isinstance(x, ast.BoolOp) and isinstance(x.op, ast.And) for x in ast.walk(grp))
                    if not neg and not hidden:
                        filled = True
        filled = filled or gb_filled
        if ok and delegated and not filled:
            res.violation([q, "group filling"], f"{f.short}: the typed searches are not added to the group of their {getter}() instance (under "
                                               f"'an instance is configured'): the groups handed to {do} are empty or incomplete", f.relpath, f.node.lineno)
        elif ok and delegated:
            res.ok(f"{f.short}", f"searches are grouped by the {getter}() instance alone and each group goes to one {do} call")
        else:
            res.violation([q, "grouping key"], f"{f.short} does not group the typed searches by Finder/Getter instance alone: a '>' search that "
                                               f"unfolds into several typed searches is answered batch by batch and returns one 'last' per batch",
                          f.relpath, f.node.lineno)
    return res


def rule_finderid(ctx: Ctx) -> RuleResult:
    """the configuration hands out the same Finder / Getter instance for the same table entry"""
    res = RuleResult("R-FINDERID")
    for q, base in (("spil_data_conf.get_finder_for", "spil.sid.read.finder.Finder"), ("spil_data_conf.get_getter_for", "spil.sid.read.getter.Getter")):
        f = ctx.p.function(q)
        cfg = cfg_of(f.node)
        # a table that is filled once must not be computed from another table that is filled lazily by someone else: what it
        # contains then depends on which entry point of the library was used first
        lazy = set()
        for g in ctx.p.functions.values():
            if g.module is not f.module or g is f:
                continue
            for x in own_nodes(g.node):
                if isinstance(x, ast.Call) and isinstance(x.func, ast.Attribute) and x.func.attr in ("update", "setdefault", "append", "add") \
                        and isinstance(x.func.value, ast.Name) and x.func.value.id in f.module.bindings:
                    lazy.add(x.func.value.id)
                if isinstance(x, ast.Assign) and isinstance(x.targets[0], ast.Subscript) and isinstance(x.targets[0].value, ast.Name) \
                        and x.targets[0].value.id in f.module.bindings:
                    lazy.add(x.targets[0].value.id)
        for x in own_nodes(f.node):
            if isinstance(x, ast.Call) and isinstance(x.func, ast.Attribute) and x.func.attr == "update" and isinstance(x.func.value, ast.Name) \
                    and x.func.value.id in f.module.bindings:
                reads = sorted({y.id for a_ in x.args for y in ast.walk(a_) if isinstance(y, ast.Name) and y.id in lazy and y.id != x.func.value.id})
                if reads:
                    res.violation([q, x.func.value.id, "built from a lazily filled table", reads[0]],
                                  f"{q} fills `{x.func.value.id}` once from `{reads[0]}`, which another function of the configuration fills on its first "
                                  f"call: whether the entries exist depends on which of the two was called first in the process", f.relpath, x.lineno)
        n = 0
        for c in own_nodes(f.node):
            if not isinstance(c, ast.Call):
                continue
            r = ctx.p.resolve_expr(f.module, c.func, f)
            if r.kind != "class" or r.cls is None or not any(k.qualname == base for k in ctx.p.mro(r.cls)):
                continue
            n += 1
            site = f"{q}: `{norm(c)[:50]}`"
            tests = ctx.ef._dominating_tests(cfg, c)
            miss = [t for t, lab in tests if lab == "true" and isinstance(t, ast.UnaryOp) and isinstance(t.op, ast.Not)
                    and isinstance(t.operand, ast.Name) and t.operand.id in f.module.bindings]
            miss += [t for t, lab in tests if lab == "true" and isinstance(t, ast.Compare) and isinstance(t.ops[0], (ast.Is, ast.NotIn))
                     and any(isinstance(x, ast.Name) and x.id in f.module.bindings for x in ast.walk(t))]
            if not miss:
                # the miss test combined with others: a fact that a module-level table is empty
                from ..shape import fact_nodes_at as _fna

                miss = [e_ for e_, tr_ in _fna(ctx, f, c) if not tr_ and isinstance(e_, ast.Name) and e_.id in f.module.bindings]
            if miss:
                # built once for the whole process: it may not depend on the arguments of the call that happens to be first
                flow = flow_of(f.node)
                at = cfg.node_of(c)
                pdeps = sorted({a.text for a in flow.depends(c, at.id if at else None) if a.kind == "param"})
                if pdeps:
                    res.violation([q, norm(c.func), "built once from the first call's arguments"],
                                  f"{q} builds `{norm(c)}` once (under `{norm(miss[0])}`) from its argument(s) {pdeps}: whatever the first "
                                  f"call in the process passed decides what every later call searches", f.relpath, c.lineno, site=site)
                    continue
                res.ok(site, f"constructed once, under the miss test `{norm(miss[0])}` on a module-level table")
            elif r.cls.qualname.endswith("NextGetter"):
                res.ok(site, "attribute getter: stateless, not used for grouping", nontrivial=False)
            else:
                res.violation([q, norm(c), "fresh instance"], f"{q} builds `{norm(c)}` on every call: FindInAll / GetFromAll group searches by "
                                                              f"instance, so nothing is ever grouped", f.relpath, c.lineno, site=site)
        res.floor(n, 1, f"Finder/Getter constructions in {q}")
    return res


# ------------------------------------------------------------------------------------------------
def _query_kept(ctx: Ctx, res: RuleResult, f: FunctionInfo):
    """a query that was put aside is put back on every typed search that is built"""
    qname = None
    for n in own_nodes(f.node):
        if isinstance(n, ast.Assign) and isinstance(n.targets[0], ast.Tuple) and len(n.targets[0].elts) == 2 and isinstance(n.value, ast.Call) \
                and isinstance(n.value.func, ast.Attribute) and n.value.func.attr == "split" and n.value.args and norm(n.value.args[0]) == "'?'":
            qname = norm(n.targets[0].elts[1])
    if qname is None:
        return
    for c in own_nodes(f.node):
        if not (isinstance(c, ast.Call) and dotted(c.func) == "Sid" and c.args):
            continue
        facts = facts_at(ctx, f, c)
        mentions = any(isinstance(x, ast.Name) and x.id == qname for x in ast.walk(c.args[0]))
        if (qname, True) in facts and not mentions:
            res.violation([f.qualname, "query dropped", norm(c)[:50]], f"{f.short}: `{norm(c)[:60]}` is built where a query was put aside, without "
                                                                     f"it: the filter of the search is lost", f.relpath, c.lineno)
        elif (qname, True) in facts:
            res.ok(f"{f.short}: `{norm(c)[:50]}`", "the query that was put aside is appended again")


def rule_alltypes(ctx: Ctx) -> RuleResult:
    """simple_typing answers with every type whose template matches the (search) string: the only returns that do not
    come out of the sid_to_dicts loop are the 'root cannot be typed' one and the empty-result fallback (C07: a search
    denotes all the typed searches its syntax matches, not the first)"""
    res = RuleResult("R-ALLTYPES")
    f = ctx.p.function("spil.sid.core.utils.simple_typing")
    from ..shape import expanded, fact_nodes_at

    f = expanded(ctx, f)
    flow = flow_of(f.node)
    cfg = cfg_of(f.node)
    _query_kept(ctx, res, f)
    _query_kept(ctx, res, ctx.p.function("spil.sid.core.utils.expand"))
    all_calls = [n for n in own_nodes(f.node) if isinstance(n, ast.Call) and (dotted(n.func) or "").split(".")[-1] == "sid_to_dicts"]
    if not all_calls:
        res.violation([f.qualname, "all matching templates"], "simple_typing no longer asks sid_to_dicts for every matching template: a search "
                                                              "string is typed with one type only", f.relpath, f.node.lineno)
        return res
    call_node = cfg.node_of(all_calls[0])
    rets = _rets(f)
    res.floor(len(rets), 1, "returns of simple_typing")
    for r in rets:
        rn = cfg.node_of(r)
        site = f"simple_typing: `{norm(r)[:60]}`"
        if call_node is not None and rn is not None and cfg.dominates(call_node.id, rn.id):
            deps = flow.depends(r.value, rn.id)
            tainted = _unfold_tainted(f, "sid_to_dicts")
            if any(a.kind == "call" and a.text.split(".")[-1] == "sid_to_dicts" for a in deps) or (
                    {x.id for x in ast.walk(r.value) if isinstance(x, ast.Name)} & tainted):
                res.ok(site, "built from sid_to_dicts (all matching templates)")
            else:
                res.violation([f.qualname, norm(r), "ignores the matches"], f"simple_typing: `{norm(r)}` does not depend on the sid_to_dicts result",
                              f.relpath, r.lineno, site=site)
            continue
        # a return before the matching: only when the root of the search cannot be typed
        untyped_root = False
        for e, truth in fact_nodes_at(ctx, f, r):
            if truth:
                continue
            d = flow.depends(e, rn.id if rn else None)
            if any(a.kind == "attr" and a.text.split(".")[-1] in ("basetype", "type") for a in d) or any(
                    isinstance(x, ast.Attribute) and x.attr in ("basetype", "type") for x in ast.walk(inline_locals(f, e, r))):
                untyped_root = True
        if untyped_root:
            res.ok(site, "the root of the search cannot be typed: the string is returned as it is")
        else:
            res.violation([f.qualname, norm(r), "early return"],
                          f"simple_typing: `{norm(r)}` answers before the templates are matched (and not because the root is untyped): a "
                          f"string that several templates match is given its first type only", f.relpath, r.lineno, site=site)
    return res



def rule_finderroute(ctx: Ctx) -> RuleResult:
    """the configuration picks the Finder / Getter by the *type* of the search alone: a literal, a '*' and a
    filtered search of the same type are answered from the same source (C10: the rewrite rules compare such searches;
    C11 / C12: exists() and find() of one type agree)"""
    res = RuleResult("R-FINDERROUTE")
    for q in ("spil_data_conf.get_finder_for", "spil_data_conf.get_getter_for"):
        f = ctx.p.function(q)
        sid_p = f.params[0]
        parents = {}
        for x in ast.walk(f.node):
            for ch in ast.iter_child_nodes(x):
                parents[id(ch)] = x
        n = 0
        for x in own_nodes(f.node):
            if not (isinstance(x, ast.Name) and x.id == sid_p and isinstance(x.ctx, ast.Load)):
                continue
            n += 1
            par = parents.get(id(x))
            if isinstance(par, ast.Attribute) and par.attr in ("type", "basetype"):
                res.ok(f"{q}: `{norm(par)}`", "the routing reads the type of the Sid only")
                continue
            # diagnostics may show the Sid
            up = par
            diag = False
            while up is not None and not isinstance(up, ast.stmt):
                if isinstance(up, ast.Call) and (dotted(up.func) or "").split(".")[-1] in ("debug", "info", "warning", "error", "print", "format"):
                    diag = True
                if isinstance(up, ast.JoinedStr):
                    diag = True
                up = parents.get(id(up))
            if isinstance(up, ast.Raise) or (diag and isinstance(up, ast.Expr)):
                res.ok(f"{q}: `{norm(par)[:40]}`", "diagnostic text only", nontrivial=False)
                continue
            res.violation([q, norm(par if isinstance(par, (ast.Attribute, ast.Call)) else x), "routing reads more than the type"],
                          f"{q} looks at `{norm(parents.get(id(par), par) if isinstance(par, ast.Attribute) else par)[:60]}` of the searched "
                          f"Sid: the source that answers depends on more than the type, so a literal, a '*' and a filtered search of the "
                          f"same type can be answered from different data", f.relpath, x.lineno)
        res.floor(n, 1, f"uses of the Sid parameter in {q}")
    return res


def rule_nonerow(ctx: Ctx) -> RuleResult:
    """a type that the Getter table lists with None has NO Getter (GetFromAll answers nothing for it): the lookup tells
    'listed with None' from 'not listed' (membership / .get default), it does not fall through on a falsy row (C16: one
    record per Sid the configured Getter's Finder finds - and none where no Getter is configured)"""
    res = RuleResult("R-NONEROW")
    q = "spil_data_conf.get_getter_for"
    f = ctx.p.function(q)
    flow = flow_of(f.node)
    # the table: a module-level dictionary some of whose configured rows are None
    tables = set()
    for n in own_nodes(f.node):
        d = None
        if isinstance(n, ast.Call) and isinstance(n.func, ast.Attribute) and n.func.attr == "update" and n.args and isinstance(n.args[0], ast.Dict) \
                and isinstance(n.func.value, ast.Name):
            d, name = n.args[0], n.func.value.id
        elif isinstance(n, ast.Assign) and isinstance(n.value, ast.Dict) and isinstance(n.targets[0], ast.Name):
            d, name = n.value, n.targets[0].id
        if d is not None and any(isinstance(v, ast.Constant) and v.value is None for v in d.values):
            tables.add(name)
    for name, bs in f.module.bindings.items():
        if bs and isinstance(bs[-1].value, ast.Dict) and any(isinstance(v, ast.Constant) and v.value is None for v in bs[-1].value.values):
            tables.add(name)
    if not tables:
        res.ok(q, "no Getter row is configured as None", nontrivial=False)
        return res
    sid_p = f.params[0]
    parents = {}
    for x in ast.walk(f.node):
        for ch in ast.iter_child_nodes(x):
            parents[id(ch)] = x
    n = 0
    for c in own_nodes(f.node):
        if not (isinstance(c, ast.Call) and isinstance(c.func, ast.Attribute) and c.func.attr == "get" and c.args):
            continue
        recv = c.func.value
        at = flow.node_of(c)
        aliases_table = (isinstance(recv, ast.Name) and recv.id in tables) or any(
            a.kind == "free" and a.text in tables for a in flow.aliases(recv, at.id if at else None))
        by_type = any(isinstance(x, ast.Attribute) and x.attr == "type" and norm(x.value) == sid_p for x in ast.walk(c.args[0])) or any(
            a.kind == "attr" and a.text == f"{sid_p}.type" for a in flow.depends(c.args[0], at.id if at else None))
        if not (aliases_table and by_type):
            continue
        n += 1
        site = f"{q}: `{norm(c)}`"
        par = parents.get(id(c))
        falls = isinstance(par, ast.BoolOp) and isinstance(par.op, ast.Or) and par.values[-1] is not c
        # or through a local that is then tested for truth before another source is returned
        if not falls and isinstance(par, (ast.Assign, ast.AnnAssign)):
            tgt = par.targets[0] if isinstance(par, ast.Assign) else par.target
            if isinstance(tgt, ast.Name):
                for x in own_nodes(f.node):
                    if isinstance(x, ast.BoolOp) and isinstance(x.op, ast.Or) and isinstance(x.values[0], ast.Name) and x.values[0].id == tgt.id \
                            and not _is_none_or_empty(x.values[-1]):
                        falls = True
        in_facts = any(truth and txt.endswith(f" in {norm(recv)}") for txt, truth in facts_at(ctx, f, c))
        if falls and not in_facts:
            res.violation([q, norm(c.func.value), "None row falls through"],
                          f"{q}: `{norm(par)[:80]}` treats a type that is listed with None like a type that is not listed: it falls through "
                          f"to the default Getter, so GetFromAll returns records for types that are configured to have none", f.relpath, c.lineno,
                          site=site)
        else:
            res.ok(site, "a row configured as None is answered with None (membership / explicit default), not with the fallback")
    res.floor(n, 1, "typed lookups in the Getter table")
    return res


def _is_none_or_empty(e: ast.AST) -> bool:
    return isinstance(e, ast.Constant) and e.value is None


def rule_narrow(ctx: Ctx) -> RuleResult:
    """every typed search is narrowed by the query configured for its basetype and then by the one configured for its
    type, whenever one is configured: `sid.get_with(query=<configured>)` under the fact that the configured query is
    non-empty, the result carried on (C07: 'each result is narrowed to its basetype's configured values')"""
    res = RuleResult("R-NARROW")
    f = ctx.p.function("spil.sid.read.unfolders.typed_narrow.type_narrow")
    flow = flow_of(f.node)
    from ..shape import fact_nodes_at

    seen = {}
    for c in own_nodes(f.node):
        if not (isinstance(c, ast.Call) and isinstance(c.func, ast.Attribute) and c.func.attr == "get_with"):
            continue
        q = next((k.value for k in c.keywords if k.arg == "query"), None)
        if q is None:
            continue
        at = flow.node_of(c)
        # the table the query was looked up in: the receiver of the `.get(..)` that defines it (not what it depends on further up)
        qd = inline_locals(f, q, c)
        table = None
        for x in ast.walk(qd):
            if isinstance(x, ast.Call) and isinstance(x.func, ast.Attribute) and x.func.attr == "get" \
                    and norm(x.func.value).split(".")[-1] in ("basetyped_search_narrowing", "typed_search_narrowing"):
                table = norm(x.func.value)
                break
            if isinstance(x, ast.Subscript) and norm(x.value).split(".")[-1] in ("basetyped_search_narrowing", "typed_search_narrowing"):
                table = norm(x.value)
                break
        if table is None:
            res.violation([f.qualname, norm(c), "not from the tables"], f"type_narrow applies `{norm(q)}`, which does not come from the configured "
                                                                        f"narrowing tables", f.relpath, c.lineno)
            continue
        table = table.split(".")[-1]
        # applied exactly when a query is configured
        positive = any(truth and isinstance(e, ast.Name) and isinstance(q, ast.Name) and e.id == q.id for e, truth in fact_nodes_at(ctx, f, c)) or any(
            truth and norm(e) == norm(q) for e, truth in fact_nodes_at(ctx, f, c))
        negative = any((not truth) and norm(e) == norm(q) for e, truth in fact_nodes_at(ctx, f, c))
        site = f"type_narrow: `{norm(c)}` ({table})"
        if negative or not positive:
            res.violation([f.qualname, table, "polarity"], f"type_narrow: the query configured in {table} is applied "
                                                           f"{'when there is none' if negative else 'without testing that there is one'}: configured "
                                                           f"narrowing is skipped (a '*' then also matches values outside the configured ones)",
                          f.relpath, c.lineno, site=site)
            continue
        # the narrowed Sid is what goes on
        par_assign = [n for n in own_nodes(f.node) if isinstance(n, (ast.Assign, ast.Return)) and n.value is c]
        if not par_assign:
            res.violation([f.qualname, table, "result dropped"], f"type_narrow: the result of `{norm(c)}` is not kept", f.relpath, c.lineno, site=site)
            continue
        seen[table] = c
        res.ok(site, "applied when configured, result carried on")
    for table in ("basetyped_search_narrowing", "typed_search_narrowing"):
        if table not in seen and not any(fi.key[1:2] == [table] for fi in res.findings):
            res.violation([f.qualname, table, "missing"], f"type_narrow no longer applies the narrowing configured in {table}", f.relpath, f.node.lineno)
    if len(seen) == 2:
        a, b = seen["basetyped_search_narrowing"], seen["typed_search_narrowing"]
        cfg = cfg_of(f.node)
        if not cfg.path_exists(cfg.node_of(a).id, cfg.node_of(b).id, exceptional=False):
            res.violation([f.qualname, "order"], "type_narrow applies the type narrowing before the basetype narrowing", f.relpath, b.lineno)
    # returns the narrowed Sid
    for r in _rets(f):
        at = flow.node_of(r)
        if r.value is None or not any(a.kind == "call" and a.text.endswith("get_with") for a in flow.depends(r.value, at.id if at else None)):
            res.violation([f.qualname, "return"], f"type_narrow returns `{norm(r.value) if r.value else None}`, not the narrowed Sid", f.relpath, r.lineno)
    return res


def rule_constvalid(ctx: Ctx) -> RuleResult:
    """FindInConstants only answers Sids that are typed: what it builds from a root and a constant (get_with) or takes from
    the search itself (get_as) is tested before it is yielded (C10: every result is typed; C11: the constant levels answer
    like the other finders)"""
    res = RuleResult("R-CONSTVALID")
    cls = ctx.p.cls("spil.sid.read.finders.find_constants.FindInConstants")
    n = 0
    for m in cls.methods.values():
        flow = flow_of(m.node)
        for y in [y for y in _yields(m) if isinstance(y, ast.Yield) and y.value is not None]:
            v = y.value
            if isinstance(v, ast.Call) and dotted(v.func) == "str" and v.args:
                v = v.args[0]
            if not isinstance(v, ast.Name):
                continue
            at = flow.node_of(y)
            ds = list(flow.defs_reaching(at.id, v.id)) if at is not None else []
            made = [d for d in ds if d.kind == "assign" and isinstance(d.value, ast.Call) and isinstance(d.value.func, ast.Attribute)
                    and d.value.func.attr in ("get_with", "get_as")]
            if not made:
                continue  # taken from the parent source (already found) or joined to such a Sid
            n += 1
            site = f"{m.short}: `yield {norm(y.value)}`"
            if (v.id, True) in facts_at(ctx, m, y):
                res.ok(site, f"`{v.id}` (built by {made[0].value.func.attr}) is tested before it is yielded")
            else:
                res.violation([m.qualname, v.id, "untested result"], f"{m.short} yields `{v.id}`, the result of `{norm(made[0].value)[:50]}`, without "
                                                                     f"testing that it is a typed Sid: an invalid combination of root and constant "
                                                                     f"is answered as a (falsy, untyped) result", m.relpath, y.lineno, site=site)
    res.floor(n, 3, "yields of built Sids in FindInConstants")
    return res


def rule_sidnotpath(ctx: Ctx) -> RuleResult:
    """C08 (and every property that reads Sid strings): a Sid string is split and joined at the configured separator by string methods;
    pathlib / os.path know about '.', '..', roots and doubled separators, which mean nothing in a Sid (`PurePosixPath('a/b').parents`
    ends in '.')"""
    res = RuleResult("R-SIDNOTPATH")
    n = 0
    for f in ctx.p.functions.values():
        if f.module.kind != "library" or not (f.module.name.startswith("spil.sid.core.") or f.module.name.startswith("spil.sid.read.")):
            continue
        if f.module.name.endswith("find_cache"):
            continue
        n += 1
        for x in own_nodes(f.node):
            if isinstance(x, ast.Call):
                nm = dotted(x.func) or ""
                last = nm.split(".")[-1]
                if last in ("PurePosixPath", "PurePath", "PureWindowsPath", "Path") or nm.startswith("os.path.") or nm.startswith("posixpath."):
                    res.violation([f.qualname, "path API on a Sid", nm], f"{f.short} handles a Sid string with `{norm(x)[:50]}`: path semantics ('.', '..', "
                                                                         f"roots, doubled separators) leak into Sids", f.relpath, x.lineno)
    res.floor(n, 30, "functions of spil.sid.core / spil.sid.read examined")
    res.ok("spil.sid.core, spil.sid.read", f"{n} functions, none uses pathlib / os.path on Sid strings", nontrivial=False)
    return res
