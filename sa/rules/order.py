"""R-ORD - no ordered result takes its order from the iteration order of a set (C13: answers are the same under
any string-hash seed).  Strings and Sids hash differently in every process (PYTHONHASHSEED), so the iteration
order of a set of them is not a function of the program's input.  The rule finds every place where a
set-valued expression is turned into a sequence (list(), tuple(), a for loop, a comprehension, join, unpacking,
pop) without going through sorted(), and requires each to be order-insensitive (frozen table, re-verified)."""
from __future__ import annotations

import ast
from typing import Dict, List, Optional, Set, Tuple

from ..context import Ctx
from ..dataflow import flow_of
from ..program import FunctionInfo, dotted, norm, own_nodes
from ..report import RuleResult

SET_MAKERS = {"set", "frozenset"}
SET_METHODS = {"union", "intersection", "difference", "symmetric_difference", "copy"}
ORDER_FREE_CONSUMERS = {"sorted", "set", "frozenset", "len", "min", "max", "sum", "any", "all", "bool", "isinstance", "type", "id"}
ORDER_EXPOSING = {"list", "tuple", "iter", "next", "enumerate", "zip", "map", "filter", "str", "repr", "reversed", "OrderedDict",
                  "dict", "deque", "pformat", "pprint", "print", "chain"}


class SetValued:
    def __init__(self, f: FunctionInfo):
        self.f = f
        self.flow = flow_of(f.node)
        self._memo: Dict[int, bool] = {}
        # names that are only ever bound to sets and only grown through set methods
        self.grown: Set[str] = set()

    def is_set(self, e: ast.AST, depth: int = 0) -> bool:
        if depth > 6:
            return False
        if isinstance(e, (ast.Set, ast.SetComp)):
            return True
        if isinstance(e, ast.Call):
            fn = dotted(e.func) or ""
            if fn in SET_MAKERS:
                return True
            if isinstance(e.func, ast.Attribute) and e.func.attr in SET_METHODS and self.is_set(e.func.value, depth + 1):
                return True
            if isinstance(e.func, ast.Attribute) and e.func.attr == "keys":
                return False
            return False
        if isinstance(e, ast.BinOp) and isinstance(e.op, (ast.BitOr, ast.BitAnd, ast.Sub, ast.BitXor)):
            return self.is_set(e.left, depth + 1) or self.is_set(e.right, depth + 1)
        if isinstance(e, ast.IfExp):
            return self.is_set(e.body, depth + 1) or self.is_set(e.orelse, depth + 1)
        if isinstance(e, ast.BoolOp):
            return any(self.is_set(v, depth + 1) for v in e.values)
        if isinstance(e, ast.NamedExpr):
            return self.is_set(e.value, depth + 1)
        if isinstance(e, ast.Name) and self.flow.is_local(e.id):
            node = self.flow.node_of(e)
            ds = list(self.flow.defs_reaching(node.id, e.id)) if node is not None else []
            if not ds:
                return False
            vals = []
            for d in ds:
                if d.kind == "assign" and d.value is not None:
                    vals.append(d.value)
                elif d.kind == "param":
                    ann = self._param_annotation(e.id)
                    if ann and any(isinstance(x, ast.Name) and x.id in ("Set", "set", "FrozenSet", "frozenset", "AbstractSet") for x in ast.walk(ann)):
                        return True
                    return False
                else:
                    return False
            return bool(vals) and any(self.is_set(v, depth + 1) for v in vals)
        return False

    def _param_annotation(self, name: str) -> Optional[ast.AST]:
        a = self.f.node.args
        for x in a.posonlyargs + a.args + a.kwonlyargs:
            if x.arg == name:
                return x.annotation
        return None


def _int_elements(sv: SetValued, e: ast.AST) -> bool:
    """the set is built from integers only (their hash does not depend on the seed)"""
    srcs: List[ast.AST] = []
    if isinstance(e, ast.Call) and (dotted(e.func) or "") in SET_MAKERS and e.args:
        srcs = [e.args[0]]
    elif isinstance(e, ast.Set):
        srcs = list(e.elts)
    elif isinstance(e, ast.SetComp):
        srcs = [e.elt]
    if not srcs:
        return False

    def is_int(x: ast.AST) -> bool:
        if isinstance(x, ast.Constant):
            return isinstance(x.value, int)
        if isinstance(x, ast.Call):
            fn = dotted(x.func) or ""
            if fn in ("len", "int", "range", "ord"):
                return True
            if isinstance(x.func, ast.Attribute) and x.func.attr in ("index", "count", "find"):
                return True
        if isinstance(x, (ast.ListComp, ast.GeneratorExp)):
            return is_int(x.elt)
        if isinstance(x, (ast.List, ast.Tuple)):
            return all(is_int(y) for y in x.elts)
        return False

    return all(is_int(x) for x in srcs)


def exposures(ctx: Ctx, f: FunctionInfo) -> List[Tuple[ast.AST, ast.AST, str]]:
    """(node, set expression, how the order is exposed)"""
    sv = SetValued(f)
    parents: Dict[int, ast.AST] = {}
    for x in ast.walk(f.node):
        for ch in ast.iter_child_nodes(x):
            parents[id(ch)] = x
    out = []

    def consumed_order_free(n: ast.AST) -> bool:
        par = parents.get(id(n))
        return isinstance(par, ast.Call) and n in par.args and (dotted(par.func) or "").split(".")[-1] in ORDER_FREE_CONSUMERS

    for n in own_nodes(f.node):
        if isinstance(n, ast.Call) and consumed_order_free(n):
            continue  # sorted(list(set(x))), len(list(s)) ...
        if isinstance(n, ast.Call):
            fn = (dotted(n.func) or "").split(".")[-1]
            if fn in ORDER_EXPOSING:
                for a in n.args:
                    tgt = a.value if isinstance(a, ast.Starred) else a
                    if sv.is_set(tgt) and not _int_elements(sv, tgt):
                        out.append((n, tgt, f"{fn}()"))
            elif isinstance(n.func, ast.Attribute) and n.func.attr == "join" and n.args and sv.is_set(n.args[0]):
                out.append((n, n.args[0], "str.join"))
            elif isinstance(n.func, ast.Attribute) and n.func.attr == "pop" and not n.args and sv.is_set(n.func.value):
                out.append((n, n.func.value, "set.pop()"))
            elif isinstance(n.func, ast.Attribute) and n.func.attr in ("extend", "format") :
                for a in n.args:
                    if sv.is_set(a) and not _int_elements(sv, a):
                        out.append((n, a, f".{n.func.attr}()"))
            else:
                for a in n.args:
                    if isinstance(a, ast.Starred) and sv.is_set(a.value):
                        out.append((n, a.value, "* unpacking"))
        elif isinstance(n, (ast.For, ast.AsyncFor)):
            if sv.is_set(n.iter) and not _int_elements(sv, n.iter):
                out.append((n, n.iter, "for loop"))
        elif isinstance(n, (ast.ListComp, ast.GeneratorExp, ast.DictComp)):
            for g in n.generators:
                if sv.is_set(g.iter) and not _int_elements(sv, g.iter):
                    par = parents.get(id(n))
                    if isinstance(par, ast.Call) and (dotted(par.func) or "").split(".")[-1] in ORDER_FREE_CONSUMERS:
                        continue
                    out.append((n, g.iter, "comprehension"))
        elif isinstance(n, ast.Assign) and isinstance(n.targets[0], (ast.Tuple, ast.List)) and sv.is_set(n.value):
            out.append((n, n.value, "unpacking"))
        elif isinstance(n, ast.JoinedStr):
            for v in n.values:
                if isinstance(v, ast.FormattedValue) and sv.is_set(v.value):
                    out.append((n, v.value, "f-string"))
    return out


def _loop_is_order_free(f: FunctionInfo, loop: ast.For) -> bool:
    """the body of the loop only fills sets / tests membership / counts: the order of the iteration cannot be seen"""
    for st in loop.body + loop.orelse:
        for x in ast.walk(st):
            if isinstance(x, (ast.Return, ast.Yield, ast.YieldFrom, ast.Break)):
                return False
            if isinstance(x, ast.Call) and isinstance(x.func, ast.Attribute) and x.func.attr in ("append", "extend", "insert", "write", "setdefault"):
                return False
            if isinstance(x, ast.Call) and isinstance(x.func, ast.Name) and x.func.id in ("print",):
                return False
            if isinstance(x, (ast.Assign, ast.AugAssign)):
                ts = x.targets if isinstance(x, ast.Assign) else [x.target]
                if any(isinstance(t, ast.Subscript) for t in ts):
                    return False  # dict insertion order follows the iteration
                if isinstance(x, ast.AugAssign) and not isinstance(x.op, (ast.BitOr, ast.BitAnd)):
                    if not (isinstance(x.value, ast.Constant) and isinstance(x.value.value, int)):
                        return False
    return True


STR_METHODS = {"format", "join", "replace", "strip", "lstrip", "rstrip", "lower", "upper", "as_posix", "title", "capitalize", "removeprefix",
               "removesuffix"}


def _is_str_expr(e: ast.AST) -> bool:
    if isinstance(e, ast.Constant):
        return isinstance(e.value, str)
    if isinstance(e, ast.JoinedStr):
        return True
    if isinstance(e, ast.Call):
        fn = dotted(e.func) or ""
        if fn == "str":
            return True
        if isinstance(e.func, ast.Attribute) and e.func.attr in STR_METHODS:
            return True
    if isinstance(e, ast.BinOp) and isinstance(e.op, (ast.Add, ast.Mod)):
        return _is_str_expr(e.left) or _is_str_expr(e.right)
    return False


def _ann_is_str_container(ann: Optional[ast.AST]) -> bool:
    if ann is None:
        return False
    if isinstance(ann, ast.Constant) and isinstance(ann.value, str):
        try:
            ann = ast.parse(ann.value, mode="eval").body
        except SyntaxError:
            return False
    names = {x.id for x in ast.walk(ann) if isinstance(x, ast.Name)} | {x.attr for x in ast.walk(ann) if isinstance(x, ast.Attribute)}
    return "str" in names and not ({"Sid", "Any", "object"} & names)


def _strings_proven(ctx: Ctx, f: FunctionInfo, sv: SetValued, sorted_call: ast.Call, setexpr: ast.AST, parents) -> str:
    """a reason why the elements of the sorted set are strings, or ''"""
    # the consumer needs strings
    par = parents.get(id(sorted_call))
    if isinstance(par, ast.Call) and isinstance(par.func, ast.Attribute) and par.func.attr == "join" and sorted_call in par.args:
        return "the sorted list is joined as text"
    if any(k.arg == "key" for k in sorted_call.keywords):
        key = next(k.value for k in sorted_call.keywords if k.arg == "key")
        if isinstance(key, ast.Lambda) and any(isinstance(x, ast.Call) and isinstance(x.func, ast.Attribute) and x.func.attr in ("split", "lower")
                                               for x in ast.walk(key.body)):
            return "the sort key applies a string method to the element"
    src = setexpr
    if isinstance(src, ast.Call) and (dotted(src.func) or "") in SET_MAKERS and src.args:
        src = src.args[0]
    elif isinstance(src, ast.SetComp):
        return "built from string expressions" if _is_str_expr(src.elt) else ""
    elif isinstance(src, ast.Set):
        return "string literals" if all(_is_str_expr(x) for x in src.elts) else ""
    # configuration tables
    if isinstance(src, ast.Call) and isinstance(src.func, ast.Attribute) and src.func.attr in ("values", "keys") and isinstance(src.func.value, ast.Name) \
            and not sv.flow.is_local(src.func.value.id):
        return f"names of the configuration table `{src.func.value.id}`"
    if isinstance(src, ast.Attribute) and isinstance(src.value, ast.Name) and src.value.id == "self":
        # an attribute: look for its annotation on the parameter it is assigned from in __init__
        cls = f.cls
        init = cls.methods.get("__init__") if cls is not None else None
        if init is not None:
            for st in own_nodes(init.node):
                if isinstance(st, ast.Assign) and any(isinstance(t, ast.Attribute) and t.attr == src.attr for t in st.targets) and isinstance(st.value, ast.Name):
                    for a in init.node.args.args:
                        if a.arg == st.value.id and _ann_is_str_container(a.annotation):
                            return f"`{src.attr}` is the `{norm(a.annotation)}` given to the constructor"
        return ""
    if isinstance(src, ast.Name):
        if not sv.flow.is_local(src.id):
            return ""
        a = f.node.args
        for x in a.posonlyargs + a.args + a.kwonlyargs:
            if x.arg == src.id:
                return f"parameter annotated `{norm(x.annotation)}`" if _ann_is_str_container(x.annotation) else ""
        for st in own_nodes(f.node):
            if isinstance(st, ast.AnnAssign) and isinstance(st.target, ast.Name) and st.target.id == src.id and _ann_is_str_container(st.annotation):
                return f"local annotated `{norm(st.annotation)}`"
        # every element put into the list is a string expression
        elems: List[ast.AST] = []
        unknown = False
        for st in own_nodes(f.node):
            if isinstance(st, ast.Assign) and any(isinstance(t, ast.Name) and t.id == src.id for t in st.targets):
                v = st.value
                if isinstance(v, (ast.List, ast.Tuple, ast.Set)):
                    elems += list(v.elts)
                elif isinstance(v, (ast.ListComp, ast.SetComp, ast.GeneratorExp)):
                    elems.append(v.elt)
                else:
                    unknown = True
            elif isinstance(st, ast.Call) and isinstance(st.func, ast.Attribute) and isinstance(st.func.value, ast.Name) and st.func.value.id == src.id:
                if st.func.attr in ("append", "add"):
                    elems += list(st.args)
                elif st.func.attr in ("extend", "update"):
                    unknown = True
        if elems and not unknown and all(_is_str_expr(x) for x in elems):
            return "every element added is a string expression"
    return ""


# exposures that are harmless, with the reason; keyed by function and exposing construct
ORD_TABLE: Dict[Tuple[str, str], str] = {
}


def rule_ord(ctx: Ctx) -> RuleResult:
    res = RuleResult("R-ORD")
    n_fn = 0
    n_sets = 0
    for f in ctx.p.iter_functions(kinds=("library", "config")):
        if f.module.name.startswith("spil.tests") or f.module.name == "spil.sid.read.finders.find_cache":
            continue
        n_fn += 1
        for node, setexpr, how in exposures(ctx, f):
            n_sets += 1
            site = f"{f.qualname}: `{norm(node)[:60]}`"
            if isinstance(node, ast.For) and _loop_is_order_free(f, node):
                res.ok(site, "the loop over the set only fills sets / counts: its order cannot be observed")
                continue
            key = (f.qualname, how)
            if key in ORD_TABLE:
                res.ok(site, f"table: {ORD_TABLE[key]}")
                continue
            res.violation([f.qualname, how, norm(setexpr)[:60]],
                          f"{f.short}: `{norm(node)[:70]}` takes its order from the iteration order of the set `{norm(setexpr)[:40]}` ({how}, "
                          f"no sorted()): strings and Sids hash differently in every process, so the order of the result changes with "
                          f"the string-hash seed", f.relpath, node.lineno, site=site)
    # (b) sorted(<set>) is a function of the elements only if the sort key tells all of them apart: Sids compare by string
    # alone (C14), so a set of Sids of different types sharing a string comes out of sorted() in hash order
    for f in ctx.p.iter_functions(kinds=("library", "config")):
        if f.module.name.startswith("spil.tests") or f.module.name == "spil.sid.read.finders.find_cache":
            continue
        sv = SetValued(f)
        parents: Dict[int, ast.AST] = {}
        for x in ast.walk(f.node):
            for ch in ast.iter_child_nodes(x):
                parents[id(ch)] = x
        for n in own_nodes(f.node):
            if not (isinstance(n, ast.Call) and (dotted(n.func) or "") == "sorted" and n.args):
                continue
            arg = n.args[0]
            while isinstance(arg, ast.Call) and (dotted(arg.func) or "") in ("list", "tuple") and len(arg.args) == 1:
                arg = arg.args[0]
            if not sv.is_set(arg) or _int_elements(sv, arg):
                continue
            n_sets += 1
            site = f"{f.qualname}: `{norm(n)[:60]}`"
            why = _strings_proven(ctx, f, sv, n, arg, parents)
            if why:
                res.ok(site, f"the elements are strings ({why}): distinct strings never tie, the order is a function of the set")
            else:
                res.violation([f.qualname, "sorted(set)", norm(arg)[:60]],
                              f"{f.short}: `{norm(n)[:70]}` sorts a set whose elements are not known to be strings: Sids compare by string "
                              f"only, so Sids of different types that share a string tie and keep the set's iteration order, which "
                              f"changes with the string-hash seed (remove duplicates with dict.fromkeys to keep a stable order)",
                              f.relpath, n.lineno, site=site)
    res.floor(n_fn, 150, "library / configuration functions scanned for set-order exposure")
    # positive control: the rule must see the sorted() idiom next to the sets it accepts
    ctrl = 0
    for f in ctx.p.iter_functions(kinds=("library",)):
        for n in own_nodes(f.node):
            if isinstance(n, ast.Call) and (dotted(n.func) or "") == "sorted" and n.args and SetValued(f).is_set(
                    n.args[0].args[0] if isinstance(n.args[0], ast.Call) and (dotted(n.args[0].func) or "") == "list" and n.args[0].args else n.args[0]):
                ctrl += 1
    res.floor(ctrl, 3, "sorted(set(...)) idioms recognised (the set detector sees the repository's sets)")
    res.ok(f"{n_fn} functions, {n_sets} set-order exposures, {ctrl} sorted(set) idioms", "no unsorted set order reaches a sequence", nontrivial=False)
    return res
