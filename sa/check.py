"""Driver: ``python -m sa.check C13 [--tier quick|thorough]`` and ``--replay <file>``.

exit 0  the property's rule instances all hold on /repo's working tree (open known findings are
        printed as KNOWN-FINDING lines)
exit 1  at least one violation that known_findings.json does not list as open:
        ``VIOLATION property=<id> replay=<path>``
exit 2  ANALYSIS-ERROR: the analyser could not answer (missing anchor, vacuous rule, crash)
"""
from __future__ import annotations

import argparse
import importlib
import json
import os
import sys
import time
import traceback
from typing import Any, Dict, List

from .context import Ctx
from .program import AnalysisError
from .report import Finding, Instance, RuleResult, VERIF, load_known, match_known

EVIDENCE_DIR = os.path.join(VERIF, "evidence")
REPLAY_DIR = os.path.join(EVIDENCE_DIR, "replay")


def run_property(prop: str, ctx: Ctx, tier: str) -> RuleResult:
    mod = importlib.import_module(f"sa.props.{prop.lower()}")
    total = RuleResult(prop)
    total.analysis_errors = []
    for rule in mod.rules(ctx, tier):
        try:
            r = rule()
        except AnalysisError as e:
            # one rule that cannot answer does not silence the others: their violations are still reported;
            # without any violation the run ends as analysis-broken (exit 2)
            total.analysis_errors.append(str(e))
            continue
        total.merge(r)
    for f in total.findings:
        f.prop = prop
    return total, mod


def write_evidence(prop: str, tier: str, res: RuleResult, mod, ctx: Ctx, wall: float, n_unlisted: int, extra: Dict[str, Any]):
    os.makedirs(EVIDENCE_DIR, exist_ok=True)
    inst = res.instances
    distinct = {(i.rule, i.site) for i in inst if i.nontrivial and i.verdict != "note"}
    by_rule: Dict[str, int] = {}
    for i in inst:
        by_rule[i.rule] = by_rule.get(i.rule, 0) + 1
    samples = []
    seen_rules = set()
    for i in inst:  # one sample per rule first, then fill up
        if i.rule not in seen_rules and i.verdict != "note":
            samples.append(i.as_dict())
            seen_rules.add(i.rule)
    for i in inst:
        if len(samples) >= 40:
            break
        if i.as_dict() not in samples and i.nontrivial:
            samples.append(i.as_dict())
    res_calls, tot_calls = ctx.cg.stats() if ctx._cg is not None else (0, 0)
    cov = {
        "explanation": "static rule instances evaluated over the parsed program (ast, call graph, per-function CFG, folded "
                       "configuration tables); no repository code is imported or executed. " + getattr(mod, "DECIDES", ""),
        "evaluations": len([i for i in inst if i.verdict != "note"]),
        "distinct_nontrivial": len(distinct),
        "rule": "instance = (rule, site). A site is a construct, call site, path or table row the rule is obliged to check; "
                "non-trivial = its obligation needed a recognised guard, a handler, a data-flow fact, a folded configuration "
                "fact or a frozen table entry (as opposed to holding by absence).",
        "samples": samples,
        "instances_by_rule": by_rule,
        "modules_parsed": len(ctx.p.modules),
        "functions": len(ctx.p.functions),
        "call_sites": tot_calls,
        "resolved_calls_pct": round(100.0 * res_calls / tot_calls, 1) if tot_calls else 0.0,
        "tree_digest": ctx.p_raw.digest(),
        "normal_form": {"what": "the rules run on the program with small helpers that no rule names inlined into their callers "
                                "(sa/normalise.py); on this tree:",
                        "inlined_calls": ctx.normal_form.get("inlined_calls", 0),
                        "helpers_inlined": ctx.normal_form.get("helpers", []),
                        "helpers_fully_inlined_and_dropped": ctx.normal_form.get("removed", []),
                        "tables_unrolled_or_pipelines_fused": ctx.normal_form.get("unrolled_tables", 0)},
        "does_not_decide": getattr(mod, "DOES_NOT_DECIDE", ""),
        "exhaustive": True,
    }
    cov.update(extra)
    ev = {
        "property_id": prop, "tier": tier, "seed": int(os.environ.get("VERIF_SEED", "0") or 0), "level": "other",
        "coverage": cov,
        "assumptions": [
            "CPython's ast and re._parser",
            "external summary tables (stdlib behaviour) in sa/effects.py and sa/rules/memo.py",
            "frozen discharge tables in sa/tables.py, each entry with its reason and side condition",
            "spil.conf is imported before any path configuration module",
            "the normal form (helper inlining, table unrolling, pipeline fusion) preserves behaviour up to the evaluation order "
            "of hoisted argument expressions",
        ] + list(getattr(mod, "ASSUMPTIONS", [])),
        "wall_s": round(wall, 3),
        "violations": n_unlisted,
    }
    with open(os.path.join(EVIDENCE_DIR, f"{prop}.json"), "w") as f:
        json.dump(ev, f, indent=1, default=str)


def main(argv=None) -> int:
    ap = argparse.ArgumentParser()
    ap.add_argument("prop", nargs="?")
    ap.add_argument("--tier", default=os.environ.get("VERIF_TIER", "quick"), choices=["quick", "thorough"])
    ap.add_argument("--repo", default=os.environ.get("SA_REPO", "/repo"))
    ap.add_argument("--replay")
    ap.add_argument("--list", action="store_true", help="print every instance")
    ap.add_argument("--no-evidence", action="store_true", help="do not write evidence / replay files (used when analysing scratch copies)")
    args = ap.parse_args(argv)
    t0 = time.time()
    try:
        if args.replay:
            with open(args.replay) as f:
                rec = json.load(f)
            args.prop = rec["property"]
        if not args.prop:
            ap.error("property id required")
        prop = args.prop.upper()
        ctx = Ctx(args.repo, tier=args.tier)
        res, mod = run_property(prop, ctx, args.tier)
        extra: Dict[str, Any] = {}
        known = load_known()
        unlisted: List[Finding] = []
        listed = []
        for f in res.findings:
            k = match_known(f, known)
            if k is not None:
                listed.append((f, k))
            else:
                unlisted.append(f)
        if args.replay:
            hits = [f for f in res.findings if f.rule == rec["rule"] and f.key == rec["key"]]
            for f in hits:
                print(f"REPLAY: still present: {f.file}:{f.line} {f.rule} {f.message}")
                if f.chain:
                    print("        chain: " + " -> ".join(f.chain))
            if not hits:
                print(f"REPLAY: not reproduced on the current tree: {rec['rule']} {rec['key']}")
            return 1 if hits else 0
        if args.tier == "thorough" and not unlisted:
            from . import selftest

            extra["selftest"] = selftest.run_for(prop, args.repo)
            # the normal form is behaviour-preserving: differential run on synthetic programs (no repository code)
            import contextlib
            import io

            from .tests import test_normalise

            buf = io.StringIO()
            with contextlib.redirect_stdout(buf):
                rc = test_normalise.main()
            extra["selftest"]["normal_form_differential"] = {"cases": len(test_normalise.CASES) + 1, "problems": rc,
                                                             "log": buf.getvalue().strip().splitlines()[-1:]}
            if rc:
                extra["selftest"]["failed"] = extra["selftest"].get("failed", 0) + 1
                extra["selftest"].setdefault("failures", []).append("normal form differential test: " + buf.getvalue()[:400])
            # detection regression: mutants this check is known to report, re-created from the current source
            from . import mutref

            mr = mutref.run_for(prop, args.repo)
            extra["selftest"]["detection_regression"] = mr
            if mr.get("failed"):
                extra["selftest"]["failed"] = extra["selftest"].get("failed", 0) + mr["failed"]
                extra["selftest"].setdefault("failures", []).extend("mutant no longer reported: " + x for x in mr["failures"])
        wall = time.time() - t0
        if not args.no_evidence:
            write_evidence(prop, args.tier, res, mod, ctx, wall, len(unlisted), extra)
        if args.list:
            for i in res.instances:
                print(f"  [{i.verdict:9}] {i.rule:12} {i.site} -- {i.why}")
        for f, k in listed:
            print(f"KNOWN-FINDING: property={prop} {k.get('what', f.message)} [{f.rule} {' :: '.join(f.key)}]")
        for e in res.analysis_errors:
            print(f"ANALYSIS-ERROR {e}")
        if unlisted:
            rdir = REPLAY_DIR if not args.no_evidence else os.path.join("/tmp", "sa_replay_scratch")
            os.makedirs(rdir, exist_ok=True)
            for n, f in enumerate(unlisted, 1):
                path = os.path.join(rdir, f"{prop}-{n}.json")
                with open(path, "w") as fh:
                    json.dump(f.as_dict(), fh, indent=1)
                print(f"VIOLATION property={prop} replay={path}")
                print(f"  {f.file}:{f.line}  {f.rule}  {f.message}")
                if f.chain:
                    print("  chain: " + " -> ".join(f.chain))
            return 1
        if res.analysis_errors:
            return 2
        st = extra.get("selftest")
        if st and st.get("failed"):
            print(f"ANALYSIS-ERROR selftest: {st['failed']} variant(s) were not judged as expected: {st.get('failures')}")
            return 2
        n_ok = len([i for i in res.instances if i.verdict == "ok"])
        print(f"OK property={prop} tier={args.tier} instances={n_ok} known_findings={len(listed)} wall={wall:.2f}s")
        return 0
    except AnalysisError as e:
        print(f"ANALYSIS-ERROR {e}")
        return 2
    except SystemExit:
        raise
    except Exception as e:  # an interpreter error is never a verdict
        print(f"ANALYSIS-ERROR internal: {type(e).__name__}: {e}")
        traceback.print_exc()
        return 2


if __name__ == "__main__":
    sys.exit(main())
