"""C20 - the guarantees hold for any well-formed configuration, not only the demo one"""
from ..rules import config, vocab, extrapolate, search, memo

DECIDES = ("no literal of the demo vocabulary (recomputed from the folded configuration on every run) in a semantic position of library code (R-VOCAB); leaf / narrowing / alias / key-order / separator decisions read the configured tables (R-TBL); values are never case-folded (R-NOCASE); no class-level container shared between configurations (R-CLASSSTATE); the loaders copy every member of the configuration modules, chosen by configured name (R-LOADALL). Also: extrapolation, template selection and '**' expansion read the configured tables only (R-EXTRAPOLATE, R-SEL, R-EXPAND). A found path is skipped only for what the templates say (wrong type, not conform), never for how its name looks (R-SKIPS). leaf_keys entries per basetype (R-LEAFKEYS).")
DOES_NOT_DECIDE = 'behaviour under a generated configuration'


def rules(ctx, tier):
    return [
        lambda: vocab.rule_vocab(ctx),
        lambda: vocab.rule_tbl(ctx),
        lambda: vocab.rule_nocase(ctx),
        lambda: vocab.rule_classstate(ctx),
        lambda: vocab.rule_loadall(ctx),
        lambda: extrapolate.rule_extrapolate(ctx),
        lambda: extrapolate.rule_sel(ctx),
        lambda: search.rule_expand(ctx),
        lambda: memo.rule_nostate(ctx),
        lambda: search.rule_skips(ctx),
        lambda: config.rule_leafkeys(ctx),
    ]
