"""C13 - answers never depend on what was asked before (caches are invisible)."""
from ..rules import order, memo, mutation, forward, config, identity, search

DECIDES = ("C13: memo-key completeness and wrapper transparency of the three decorators, what may be memoised (no generator, no data-file-system effect), no state on the read path outside the memo decorators. Also: hash and equality are functions of the uri, so memo keys identify Sids (R-IDENT); Finders built once do not depend on the arguments of the first call (R-FINDERID); memo keys hold the argument values, not a lossy conversion (R-KEY); cache-owned values are never mutated, also not through in-place operators or functions handing a cached result on, and the one accepted in-place rewrite (path_to_dict's path mapping on resolva's cached dictionary) has no second reader: every other resolve_* call site is on the sid resolver (R-MUT); no ordered result takes its order from the iteration of a set of strings / Sids, and no set of Sids is sorted (they compare by string only and tie): the string-hash seed cannot be seen (R-ORD). No stray module-level `name` shared by the path configurations (R-CONFSHADOW).")
DOES_NOT_DECIDE = "equality with a fresh process as such (value level)"


def rules(ctx, tier):
    return [
        lambda: memo.rule_key(ctx),
        lambda: memo.rule_wrap(ctx),
        lambda: memo.rule_purememo(ctx),
        lambda: memo.rule_nostate(ctx),
        lambda: mutation.rule_mut(ctx),
        lambda: forward.rule_fwd_config(ctx),
        lambda: config.rule_root_idem(ctx),
        lambda: identity.rule_ident(ctx),
        lambda: search.rule_finderid(ctx),
        lambda: order.rule_ord(ctx),
        lambda: mutation.rule_esc(ctx),
        lambda: config.rule_confshadow(ctx),
    ]
