"""C13 - answers never depend on what was asked before (caches are invisible)."""
from ..rules import memo, mutation, forward, config

DECIDES = ("C13: memo-key completeness and wrapper transparency of the three decorators, what may be memoised "
           "(no generator, no data-file-system effect), no state on the read path outside the memo decorators.")
DOES_NOT_DECIDE = "equality with a fresh process as such (value level)"


def rules(ctx, tier):
    return [
        lambda: memo.rule_key(ctx),
        lambda: memo.rule_wrap(ctx),
        lambda: memo.rule_purememo(ctx),
        lambda: memo.rule_nostate(ctx),
        lambda: mutation.rule_mut(ctx),
        lambda: forward.rule_fwd_config(ctx),
        lambda: config.rule_root_idem(ctx),
    ]
