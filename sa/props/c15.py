"""C15 - created entities exist, and attribute data reads back what was written"""
from ..rules import config, data, memo, forward, search

DECIDES = ("create on existing / update on missing raise SpilException before any file-system effect, parents first (R-CHKEFF); set folds attribute/value whenever an attribute is named and delegates to update (R-SET); the dumped mapping is previous.update(new), and update() reaches _write_data before every return that does not report failure (R-OVERLAY); writer and reader derive the sidecar from the Sid's own path by one pure function (R-SIDECAR); each record is a fresh dictionary, 'sid' added after loading (R-GETDATA, R-MUTDEFAULT); nothing on the data path is memoised or keeps state (R-PUREMEMO, R-NOSTATE); writer / getter thread their configuration (R-FWD). Also: a created entity is not hidden by a duplicate filter filled before the yield guards (R-DEDUP). The writer keeps nothing between calls either: no store into instance attributes or module-level containers on the write path, directly or through a callee that fills a container handed to it (R-NOSTATE, write path). The file-system listing does not answer dot-files (glob.glob) and found paths are resolved as found (R-SKIPS); no swallowed sid template (R-DEADTYPE).")
DOES_NOT_DECIDE = 'the history semantics (what exists when), isolation between paths at run time'


def rules(ctx, tier):
    return [
        lambda: data.rule_chkeff(ctx),
        lambda: data.rule_set(ctx),
        lambda: data.rule_overlay(ctx),
        lambda: data.rule_sidecar(ctx),
        lambda: data.rule_getdata(ctx),
        lambda: data.rule_mutdefault(ctx),
        lambda: memo.rule_purememo(ctx),
        lambda: memo.rule_nostate(ctx),
        lambda: memo.rule_nostate(ctx, 'write'),
        lambda: forward.rule_fwd_config(ctx),
        lambda: search.rule_dedup(ctx),
        lambda: search.rule_skips(ctx),
        lambda: config.rule_deadtype(ctx),
    ]
