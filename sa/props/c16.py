"""C16 - a Getter returns one record per Sid its Finder finds, in the same order"""
from ..rules import exc, data, forward, search, memo

DECIDES = ("one unconditional yield of get_data(found Sid) per Sid of the Finder, in its order; GetFromAll passes every record through (R-YIELD1); attributes / sid_encode forwarded unchanged down the chains (R-FWD); the Getter's finder and data path use its own configuration (R-FWD); 'sid' set iff the encoder's result is truthy, projection has exactly the requested keys, fresh record per call (R-GETDATA, R-MUTDEFAULT); GetFromAll groups by Getter instance, one instance per table entry (R-GROUPFINDER, R-FINDERID); types without Getter are skipped without raising (R-EXC on the dispatch). Also: the read path keeps no state between calls (R-NOSTATE); get_one is the first record of get() whenever there is one, GetFromAll.get_data / get_attr ask the configured Getter exactly when there is one (R-FIRSTREC).")
DOES_NOT_DECIDE = 'record contents'


def rules(ctx, tier):
    return [
        lambda: exc.run(ctx, 'GetFromAll.dispatch'),
        lambda: data.rule_yield1(ctx),
        lambda: data.rule_getdata(ctx),
        lambda: data.rule_mutdefault(ctx),
        lambda: forward.rule_fwd_chain(ctx),
        lambda: forward.rule_fwd_config(ctx),
        lambda: search.rule_groupfinder(ctx),
        lambda: search.rule_finderid(ctx),
        lambda: search.rule_unfoldall(ctx),
        lambda: memo.rule_nostate(ctx),
        lambda: search.rule_nonerow(ctx),
        lambda: data.rule_firstrec(ctx),
    ]
