"""C05 - Sid -> path -> Sid is the identity in every path configuration"""
from ..rules import exc, forward, pathops, config, memo

DECIDES = ('one configuration end to end (R-FWD over the path-config domain incl. resolver ids); forward and reverse mapping read the same tables (R-MAPAGREE); field order restored from key_types (R-KEYORDER, R-KEYTYPES); a path is typed only if it formats back to itself (R-REFORMAT); configurations are the same tables up to the root and independent of load order (R-ROOT / R-IDEM on the folded tables, both load orders); mappings one-to-one (R-MAPINJ); unambiguous file-name segments (R-SEGAMB); no concrete path is accepted by two path templates of one configuration (R-DISJ, NFA product emptiness on the expressions resolva builds); path() answers None instead of raising (R-NOPATH, R-EXC); the memo key holds the configuration (R-KEY, R-WRAP). A path is typed by resolve_first(path) over all path templates in configuration order (resolve_one only for a given type), with no exit before that and no template picked beside the resolver, and the Sid gets the type found for the path (R-PATHFIRST). No module-level name of a path configuration module replaces an attribute PathConfig sets itself, in particular `name`, the Resolver key (R-CONFSHADOW); path() answers dict_to_path(own fields, own type, config) or None, nothing borrowed (R-NOPATH).')
DOES_NOT_DECIDE = 'equality for concrete values beyond the configuration-level argument (regular-expression evaluation)'


def rules(ctx, tier):
    return [
        lambda: exc.run(ctx, 'path(config)'),
        lambda: forward.rule_fwd_config(ctx),
        lambda: pathops.rule_mapagree(ctx),
        lambda: pathops.rule_keyorder(ctx),
        lambda: pathops.rule_nopath(ctx),
        lambda: pathops.rule_reformat(ctx),
        lambda: pathops.rule_pathfirst(ctx),
        lambda: config.rule_root_idem(ctx),
        lambda: config.rule_mapinj(ctx),
        lambda: config.rule_keytypes(ctx),
        lambda: config.rule_segamb(ctx),
        lambda: memo.rule_key(ctx),
        lambda: memo.rule_wrap(ctx),
        lambda: memo.rule_purememo(ctx),
        lambda: config.rule_disj(ctx),
        lambda: config.rule_confshadow(ctx),
    ]
