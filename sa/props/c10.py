"""C10 - search results obey the algebra of the search syntax"""
from ..rules import config, search, mutation

DECIDES = ("only the last sentence and structural necessary conditions of the rewrite rules: no duplicates (R-DEDUP, the insert sits in the yield's guard region), every result typed and of the searched type, dropped only for the named reasons, searched patterns remembered per type (R-SKIPS); a ',' list in a query is distributed (R-ORSCOPE); '**' includes zero levels (R-EXPAND); aliases unfolded everywhere (R-UNFOLDALL). Also: the cached typing lists the unfolders share are never mutated (R-MUT); the configuration picks the source by type alone, so a literal, a '*' and a filtered search are answered from the same data (R-FINDERROUTE). leaf_keys entries (R-LEAFKEYS). Every placeholder expression of the sid templates accepts the search symbols '*' and '>' (R-SEARCHSYM).")
DOES_NOT_DECIDE = 'the five rewrite relations themselves: they compare the result sets of two runtime searches'


def rules(ctx, tier):
    return [
        lambda: search.rule_dedup(ctx),
        lambda: search.rule_skips(ctx),
        lambda: search.rule_orscope(ctx),
        lambda: search.rule_expand(ctx),
        lambda: search.rule_unfoldall(ctx),
        lambda: mutation.rule_mut(ctx),
        lambda: search.rule_finderroute(ctx),
        lambda: search.rule_narrow(ctx),
        lambda: search.rule_constvalid(ctx),
        lambda: config.rule_leafkeys(ctx),
        lambda: config.rule_searchsym(ctx),
    ]
