"""C07 - a search expression unfolds to exactly the typed searches its syntax denotes"""
from ..rules import config, exc, search, memo, vocab, mutation, sidops

DECIDES = ("the error contract (only SpilException escapes unfold_search, R-EXC over the five unfolders); unfolder precedence and chaining (R-PIPE); de-duplication then removal of untyped / unapplied-query Sids on every path (R-FILTER), never while iterating the same list (R-ITERMUT); the or-sign is looked for in path and query (R-ORSCOPE); '/**' stands for zero or more levels, completed against the configured leaf key, once (R-EXPAND); leaf / narrowing / alias decisions read the configured tables (R-TBL); the memo key covers both flags (R-KEY). Also: simple_typing returns every matching type, early returns only for an untypable root (R-ALLTYPES); the cached typing lists are never mutated (R-MUT); the query text is decoded as a whole (R-QUERYROUTE). leaf_keys has an entry for every basetype a root can have, and it is the last key of the deepest template below that root (R-LEAFKEYS); an alias is accepted wherever all its members are (R-ALIASVALUE). Every placeholder expression of the sid templates accepts the search symbols '*' and '>' (R-SEARCHSYM).")
DOES_NOT_DECIDE = "the denotation itself: which types, how many '*', which narrowing values (resolver evaluation)"


def rules(ctx, tier):
    return [
        lambda: exc.run(ctx, 'unfold_search'),
        lambda: search.rule_pipe(ctx),
        lambda: search.rule_filter(ctx),
        lambda: search.rule_itermut(ctx),
        lambda: search.rule_orscope(ctx),
        lambda: search.rule_expand(ctx),
        lambda: memo.rule_key(ctx),
        lambda: vocab.rule_tbl(ctx),
        lambda: search.rule_alltypes(ctx),
        lambda: mutation.rule_mut(ctx),
        lambda: sidops.rule_queryroute(ctx),
        lambda: sidops.rule_ret3(ctx),
        lambda: search.rule_narrow(ctx),
        lambda: config.rule_leafkeys(ctx),
        lambda: config.rule_aliasvalue(ctx),
        lambda: config.rule_searchsym(ctx),
    ]
