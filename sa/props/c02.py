"""C02 - string, fields, query and uri forms of a typed Sid denote the same Sid"""
from ..rules import config, exc, mutation, identity, sidops, pathops, memo

DECIDES = ("the structural conditions without which no round trip can hold: the (string, type, fields) triple of every Sid comes from one resolver operation and never aliases the caller's dictionary, fields re-derived in template order with the stored type (R-TRIPLE), construction typestate (R-INIT), copy / repr / hash / == are functions of the uri and uri of (type, string) (R-IDENT), Sid(query=q) is Sid('?'+q) and as_query renders the own fields through urlencode / parse_qsl of the whole mapping (R-QUERYROUTE), the string of a typed Sid is the canonical rendering of its fields (R-CANON), totality of the string and fields factories (R-EXC). Also: Sid(fields=d) types and formats d itself, all of it (R-FIELDSARG); the '~' prefix is removed only from values that carry it (R-UPDATE). Types with identical keys accept no common concrete string (R-KEYSETDISJ, NFA product); the query text carries the values verbatim and is cleaned the way urlsplit does before it is split (R-QUERYROUTE).")
DOES_NOT_DECIDE = 'equality of the rebuilt Sid for concrete values (resolver evaluation), the choice among types with colliding key sets, urlencode/parse_qsl round trip on arbitrary characters'


def rules(ctx, tier):
    return [
        lambda: exc.run(ctx, 'Sid(str)'),
        lambda: exc.run(ctx, 'Sid(fields)'),
        lambda: mutation.rule_triple(ctx),
        lambda: mutation.rule_init(ctx),
        lambda: identity.rule_ident(ctx),
        lambda: sidops.rule_queryroute(ctx),
        lambda: pathops.rule_canon(ctx),
        lambda: mutation.rule_esc(ctx),
        lambda: sidops.rule_ret3(ctx),
        lambda: sidops.rule_fieldsarg(ctx),
        lambda: sidops.rule_update(ctx),
        lambda: memo.rule_nostate(ctx),
        lambda: config.rule_keysetdisj(ctx),
    ]
