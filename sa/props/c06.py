"""C06 - a path resolves only to the Sid that owns it, and never makes Sid() fail"""
from ..rules import exc, forward, pathops, config, mutation

DECIDES = ("totality of Sid(path=, config=) for configured configurations (R-EXC: resolva's duplicate-placeholder exception is caught, nothing else escapes); 'typed => path(c) == p' by shape: typed data is returned only after dict_to_path(data, type, config) was compared with the given path (R-REFORMAT), which discharges the unescaped literals (R-LITERAL) and resolva's '$' anchor; the configuration is threaded unchanged (R-FWD). Also: the field dictionary of a Sid built from a path is never handed out uncopied nor through a memoised accessor (R-ESC). First template in configuration order, nothing sorted out before the resolver is asked, the owner type handed on to the Sid (R-PATHFIRST). No stray module-level `name` in a path configuration (R-CONFSHADOW).")
DOES_NOT_DECIDE = "nothing of the statement's second clause; which paths conform (regular-expression evaluation)"


def rules(ctx, tier):
    return [
        lambda: exc.run(ctx, 'Sid(path,config)'),
        lambda: pathops.rule_reformat(ctx),
        lambda: pathops.rule_pathfirst(ctx),
        lambda: config.rule_literal(ctx),
        lambda: config.rule_mapinj(ctx),
        lambda: forward.rule_fwd_config(ctx),
        lambda: mutation.rule_esc(ctx),
        lambda: config.rule_confshadow(ctx),
    ]
