"""C09 - the '>' operator returns the greatest entry of each group"""
from ..rules import search, versions, mutation, config, memo

DECIDES = ("sorted_search: per-segment sort key over all segments, group key = segments before '>', direction and pick agree, '>' read as '*' (R-SORT); FindInAll / GetFromAll group the typed searches by Finder / Getter instance alone (R-GROUPFINDER) and the configuration hands out one instance per table entry (R-FINDERID); get_last = find_one of self with the key set to '>' with the empty-Sid failsafe (R-GETNEW); the cached unfolded list is not rewritten in place (R-MUT). Also: the templates keep one placeholder per '/' segment, so version groups are cut at the right segment (R-SEGSHAPE); get_last is not memoised over the file system (R-PUREMEMO). The file-system finder yields only Sids of the searched type (R-SKIPS); aliases are values (R-ALIASVALUE). Every placeholder expression of the sid templates accepts the search symbols '*' and '>' (R-SEARCHSYM).")
DOES_NOT_DECIDE = 'the concrete maxima'


def rules(ctx, tier):
    return [
        lambda: search.rule_sort(ctx),
        lambda: search.rule_groupfinder(ctx),
        lambda: search.rule_finderid(ctx),
        lambda: versions.rule_getnew(ctx),
        lambda: mutation.rule_mut(ctx),
        lambda: config.rule_segshape(ctx),
        lambda: memo.rule_purememo(ctx),
        lambda: config.rule_aliasvalue(ctx),
        lambda: search.rule_skips(ctx),
        lambda: config.rule_searchsym(ctx),
    ]
