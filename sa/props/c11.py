"""C11 - all Finders give the same answer for the same data"""
from ..rules import exc, search, config, forward, pathops, mutation, data

DECIDES = ("non-conforming files never break or change a search: nothing escapes the scan loop (R-EXC), a found path is dropped only for the named reasons and yielded behind the falsy / type-mismatch skips (R-SKIPS), a foreign path is never typed (R-REFORMAT); local and server are the same tables up to the root (R-ROOT / R-IDEM) and every FindInPaths threads its own configuration (R-FWD); sibling find implementations agree on unfolding (R-UNFOLDALL); FindInAll dispatches per Finder instance (R-GROUPFINDER). Also: one sort and one groupby decide '>' in every finder (R-SORT); routing by type alone (R-FINDERROUTE). The data sidecar of an entity is a hidden sibling of its path (R-SIDECAR), so a file-system search never meets it. FindInConstants lists exactly the closed vocabulary the templates accept for its key (R-CONSTVOCAB); no swallowed sid template (R-DEADTYPE); FindInPaths lists with glob.glob, does not rewrite found paths, and never leaves the loop over the typed searches by return (R-SKIPS).")
DOES_NOT_DECIDE = 'equality of result sets across finders'


def rules(ctx, tier):
    return [
        lambda: exc.run(ctx, 'FindInPaths.scan'),
        lambda: search.rule_skips(ctx),
        lambda: data.rule_sidecar(ctx),
        lambda: search.rule_dedup(ctx),
        lambda: search.rule_unfoldall(ctx),
        lambda: config.rule_root_idem(ctx),
        lambda: forward.rule_fwd_config(ctx),
        lambda: pathops.rule_reformat(ctx),
        lambda: pathops.rule_pathfirst(ctx),
        lambda: search.rule_groupfinder(ctx),
        lambda: search.rule_sort(ctx),
        lambda: search.rule_finderroute(ctx),
        lambda: mutation.rule_mut(ctx),
        lambda: forward.rule_fwd_assid(ctx),
        lambda: search.rule_constvalid(ctx),
        lambda: config.rule_constvocab(ctx),
        lambda: config.rule_deadtype(ctx),
    ]
