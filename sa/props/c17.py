"""C17 - an interrupted attribute write leaves the old or the new data, never a ruin"""
from ..rules import exc, data

DECIDES = ('the crash clause by shape: the only effect on the sidecar path is one rename of a fully written temporary sibling that post-dominates the write; the sidecar is never opened for writing, truncated, moved or removed (R-ATOMIC), so every crash point leaves old or new; a stale temporary does not block the next write (not opened exclusively, and no raise / return is decided by whether it exists); update() reaches _write_data before every non-failure return (R-OVERLAY); tolerant read: open / json.load sit in a try whose handlers cover OSError and decoding errors without re-raising, nothing else escapes get_data (R-TOLERANT, R-EXC).')
DOES_NOT_DECIDE = 'nothing of the statement; trusts the atomicity of rename(2) within one directory'


def rules(ctx, tier):
    return [
        lambda: data.rule_atomic(ctx),
        lambda: data.rule_tolerant(ctx),
        lambda: exc.run(ctx, 'GetFromPaths.get_data'),
        lambda: data.rule_sidecar(ctx),
        lambda: data.rule_overlay(ctx),
    ]
