"""C04 - updating a Sid by query or get_with is all-or-nothing and never guesses"""
from ..rules import exc, sidops, mutation, config

DECIDES = ("apply_query's returns are all-new (after dict_to_type(all=True), formatted with the returned type) or all-old with the query text kept; the decision table (one type / none / several with or without the old one / search seen in string+query) (R-RET3); update works on a copy and honours the '~' prefix (R-UPDATE); get_with: copy, key/value merged before the None-removal, total removal, overlay, Sid(fields=copy) (R-GETWITH); the rebuilt Sid's fields are resolved with the stored type (R-TRIPLE); totality of get_with (R-EXC). Also: the '?query' is put aside before the 'type:' prefix is looked for and the prefix forces its template (R-FIRST). No dead key_patterns entry (R-DEADPATTERN), value-disjoint types with identical keys (R-KEYSETDISJ), verbatim query codec (R-QUERYROUTE); the string fallback of get_with stays unreachable.")
DOES_NOT_DECIDE = 'which type the overlaid fields resolve to for concrete values'


def rules(ctx, tier):
    return [
        lambda: exc.run(ctx, 'get_with'),
        lambda: sidops.rule_ret3(ctx),
        lambda: sidops.rule_update(ctx),
        lambda: sidops.rule_getwith(ctx),
        lambda: mutation.rule_triple(ctx),
        lambda: mutation.rule_esc(ctx),
        lambda: mutation.rule_mut(ctx),
        lambda: config.rule_first(ctx),
        lambda: config.rule_deadpattern(ctx),
        lambda: config.rule_keysetdisj(ctx),
        lambda: sidops.rule_queryroute(ctx),
    ]
