"""C01 - a string is typed exactly as the configured templates say, else stays untyped"""
from ..rules import exc, config, pathops, mutation, identity, extrapolate

DECIDES = ("totality of Sid(<str>) (R-EXC, nothing may be raised); first match in configuration order and forced 'type:' prefix (R-FIRST: resolver dispatch, uri split, load sequence of sid_conf_load, resolva's ordered loop); one placeholder per '/'-segment, none accepting '/' (R-SEGSHAPE on the folded templates); a string is only typed when its fields format back to it (R-CANON); the stored string is the input remainder and the (type, fields) pair comes from one resolver call (R-TRIPLE); untyped <=> no fields <=> falsy, length 0 (R-IDENT, __len__ / no __bool__). Also: the extrapolated table every string is typed against has one well-named type per level (R-EXTRAPOLATE, R-SEL); no cache-owned value is mutated (R-MUT, also through in-place operators and functions handing a cached result on). Configuration: no key_patterns entry is consumed by an earlier group before it can apply (R-DEADPATTERN); no sid template is contained, segment by segment, in an earlier one (R-DEADTYPE).")
DOES_NOT_DECIDE = "which template accepts a given string (regular-expression evaluation); the exact string kept for a failing 'type:' prefix"


def rules(ctx, tier):
    return [
        lambda: exc.run(ctx, 'Sid(str)'),
        lambda: config.rule_first(ctx),
        lambda: config.rule_segshape(ctx),
        lambda: pathops.rule_canon(ctx),
        lambda: mutation.rule_triple(ctx),
        lambda: identity.rule_ident(ctx),
        lambda: mutation.rule_esc(ctx),
        lambda: mutation.rule_mut(ctx),
        lambda: extrapolate.rule_extrapolate(ctx),
        lambda: extrapolate.rule_sel(ctx),
        lambda: config.rule_deadpattern(ctx),
        lambda: config.rule_deadtype(ctx),
    ]
