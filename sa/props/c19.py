"""C19 - template extrapolation gives every level of every hierarchy one well-named type"""
from ..rules import extrapolate, config, memo

DECIDES = ("generated name = basetype + separator + key (R-NAME); explicit entries copied first and unconditionally, generation only for listed types, prefixes walked longest first; both 'already owned' tests dominate the insertion and range over configured and already generated entries (R-OWN, R-KEEP); pattern replacement happens only under the selector test evaluated against each type's own name and writes back templates[type] (R-SEL); on the shipped configuration the documented extrapolation yields no duplicate name / template and keeps the explicit order (R-EXTRAREF), and every prefix has an owner (R-PREFIX); the two functions keep nothing between calls (R-NOSTATE on spil.conf.util). sid_conf_load runs extrapolate_templates, then pattern_replacing, then builds the Resolver (R-FIRST).")
DOES_NOT_DECIDE = 'the result for arbitrary grammars beyond these structural conditions'


def rules(ctx, tier):
    return [
        lambda: extrapolate.rule_extrapolate(ctx),
        lambda: extrapolate.rule_sel(ctx),
        lambda: extrapolate.rule_extraref(ctx),
        lambda: config.rule_prefix(ctx),
        lambda: memo.rule_nostate(ctx, 'conf'),
        lambda: config.rule_first(ctx),
    ]
