"""C14 - Sids are immutable values: equal means same uri, and nothing can alter one."""
from ..rules import identity, mutation, exc

DECIDES = ("C14: construction typestate of the private fields (R-INIT), the field dictionary never escapes or is mutated "
           "(R-ESC), no parameter / cache-owned value is mutated (R-MUT, R-MUT-PARAM), the stored triple never aliases a "
           "caller's dictionary (R-TRIPLE), identity projections: == on uri, hash/repr functions of uri, < on str, "
           "total_ordering (R-IDENT).")
DOES_NOT_DECIDE = "nothing of substance; trusts that str.format / urlencode do not mutate their arguments"


def rules(ctx, tier):
    return [
        lambda: identity.rule_ident(ctx),
        lambda: mutation.rule_init(ctx),
        lambda: mutation.rule_esc(ctx),
        lambda: mutation.rule_mut(ctx),
        lambda: mutation.rule_param_mut(ctx),
        lambda: mutation.rule_triple(ctx),
    ]
