"""C03 - parent, get_as and / navigate one consistent hierarchy"""
from ..rules import exc, config, sidops, pathops, identity, mutation

DECIDES = ("every '/'-prefix of every template is owned by a type with compatible patterns (R-PREFIX / R-PATSUP on the folded, extrapolated and pattern-replaced tables); accessor shapes: parent = get_as(second-to-last key) with the untyped and one-field fallbacks, get_as copies the pairs up to and including the key and rebuilds through the factory, keytype / basetype / len / '/' (R-NAV); field order of path-built Sids (R-KEYTYPES, R-KEYORDER); untyped fallbacks never raise (R-EXC on the navigation entry points). The typing of every prefix string is R-FIRST's (first template in configuration order, canonical rendering).")
DOES_NOT_DECIDE = 'that the prefix string re-resolves to the same values (regular-expression evaluation)'


def rules(ctx, tier):
    return [
        lambda: exc.run(ctx, 'navigation'),
        lambda: sidops.rule_nav(ctx),
        lambda: config.rule_prefix(ctx),
        lambda: config.rule_keytypes(ctx),
        lambda: pathops.rule_keyorder(ctx),
        lambda: identity.rule_ident(ctx),
        lambda: mutation.rule_triple(ctx),
        lambda: mutation.rule_esc(ctx),
        lambda: config.rule_sidamb(ctx),
        lambda: config.rule_first(ctx),
    ]
