"""C18 - get_last, get_next and get_new implement a gap-free version workflow"""
from ..rules import search, exc, versions, memo

DECIDES = ("the formatter's output shape (prefix + zero-padded width) equals the configured {version} pattern's concrete language, parse and format use one prefix, increment is 1, no overflow guard cuts off a representable version (R-FMT); 'next.<key>' is routed to NextGetter (R-ROUTE); get_last = find_one of self with key '>' and the failsafe; get_new takes the successor of exactly the last existing version, else the first version; every return is a rebuilt Sid or the empty Sid (R-GETNEW); nothing raises for key 'version' (R-EXC); no result is remembered between calls (R-NOSTATE, R-PUREMEMO). Found paths are resolved as found (R-SKIPS: no resolve / realpath / normpath on the way).")
DOES_NOT_DECIDE = 'arithmetic on actual version sets, strict monotonicity over histories'


def rules(ctx, tier):
    return [
        lambda: exc.run(ctx, 'versions'),
        lambda: versions.rule_fmt(ctx),
        lambda: versions.rule_route(ctx),
        lambda: versions.rule_getnew(ctx),
        lambda: memo.rule_nostate(ctx),
        lambda: memo.rule_purememo(ctx),
        lambda: search.rule_skips(ctx),
    ]
