"""C12 - exists, find_one, children and siblings agree with find"""
from ..rules import config, search, memo, vocab, mutation, forward

DECIDES = ("the delegation chain exists -> find_one(as_sid=False) -> first(find(...)) with no override and no other data path (R-DELEG); as_sid branches yield the same entry (R-ASSID); DataSid.exists / children / siblings delegate to FindInAll with self, self / '*', get_as(k).get_with(key=k, value='*'); a leaf has no children via conf.leaf_keys (R-DELEG, R-TBL); every do_find receives an unfolded list (R-UNFOLDALL); nothing on the read path is memoised or keeps state, so a created entity is seen (R-PUREMEMO, R-NOSTATE). Also: exists / find_one / children run the same unfolding pipeline (R-PIPE) and drop entries only for the named reasons (R-SKIPS); routing by type alone (R-FINDERROUTE). An entry is recorded as seen only once it is yielded, so a path rejected for one typed search is still found by the search of its own type (R-DEDUP). Constants = template vocabulary (R-CONSTVOCAB); aliases are values (R-ALIASVALUE).")
DOES_NOT_DECIDE = 'membership for concrete data; on-disk ancestry'


def rules(ctx, tier):
    return [
        lambda: search.rule_deleg(ctx),
        lambda: search.rule_assid(ctx),
        lambda: search.rule_unfoldall(ctx),
        lambda: memo.rule_purememo(ctx),
        lambda: memo.rule_nostate(ctx),
        lambda: vocab.rule_tbl(ctx),
        lambda: search.rule_pipe(ctx),
        lambda: search.rule_skips(ctx),
        lambda: search.rule_dedup(ctx),
        lambda: search.rule_finderroute(ctx),
        lambda: mutation.rule_mut(ctx),
        lambda: forward.rule_fwd_assid(ctx),
        lambda: config.rule_constvocab(ctx),
        lambda: config.rule_aliasvalue(ctx),
    ]
