"""C08 - searching a list returns exactly the entries that glob-match the search"""
from ..rules import config, exc, search, forward, mutation

DECIDES = ("glob2re: '*' becomes a class that excludes '/', other characters are escaped, flags lead, the end is anchored, used with re.match on every item (R-GLOBRE); each entry once (R-DEDUP), the list is re-iterable across unfolded forms (R-REITER); aliases are unfolded before searching, also for concrete Sids (R-UNFOLDALL); match = identity or found-in-a-singleton-list (R-MATCH); only SpilException escapes (R-EXC). Also: the bypass of unfolding is taken only for Sids that are no search and carry no alias (R-UNFOLDALL); the configuration routes by type alone (R-FINDERROUTE); no search alters the memoised unfolding it was handed, so that a later search of the same string sees the same forms (R-MUT). leaf_keys entries (R-LEAFKEYS); no removal from a list while iterating it (R-ITERMUT); Sid strings are not handled with pathlib / os.path (R-SIDNOTPATH).")
DOES_NOT_DECIDE = 'which entries match (regular-expression evaluation)'


def rules(ctx, tier):
    return [
        lambda: exc.run(ctx, 'FindInList.find'),
        lambda: search.rule_globre(ctx),
        lambda: search.rule_dedup(ctx),
        lambda: search.rule_unfoldall(ctx),
        lambda: search.rule_reiter(ctx),
        lambda: search.rule_match(ctx),
        lambda: search.rule_assid(ctx),
        lambda: search.rule_finderroute(ctx),
        lambda: forward.rule_fwd_assid(ctx),
        lambda: mutation.rule_mut(ctx),
        lambda: config.rule_leafkeys(ctx),
        lambda: search.rule_itermut(ctx),
        lambda: search.rule_sidnotpath(ctx),
    ]
