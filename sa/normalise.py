"""Normal form of the analysed program.

The rules name the functions the properties are anchored in (``sid_to_dict``, ``unfold_search``, ``star_search`` ...).
A refactoring that extracts a piece of such a function into a new helper, merges duplicated fragments into a
shared helper, or moves a helper to another module, leaves the behaviour alone but hides the constructs the rules
look for (and the constructs the exception tables discharge) behind a name no rule knows.

``normalise`` undoes exactly that: every *small helper function whose name no rule mentions* is inlined into its
callers (library and configuration code), with the usual care:

* parameters become fresh locals, ``return e`` becomes ``<target> = e; break`` inside a one-shot ``while True``
  (returns nested in loops set a flag that is tested after each enclosing loop);
* a generator helper is inlined under ``yield from helper(..)`` and under ``for x in helper(..): body``;
* helper calls nested in an expression are first hoisted to a temporary (never out of the right operand of
  and/or, a conditional expression, a comprehension or a lambda);
* free names of a helper that lives in another module are imported into the caller's module (refused on a
  name clash);
* never inlined: names of the rules' vocabulary, public API, dunder methods, properties and decorated functions,
  methods that are overridden or override, recursive functions, functions with nested definitions / global /
  ``*args`` / ``**kwargs`` / non-constant defaults, bodies over 60 statements.

A helper all of whose uses were inlined is removed from the normal form.  Everything downstream (call graph,
effects, rules) runs on the normal form; inlined nodes keep the line numbers of the helper they come from.
On a tree where no such helper exists the normal form is the program itself.
"""
from __future__ import annotations

import ast
import builtins
import copy
import glob
import os
import re
from typing import Dict, List, Optional, Set, Tuple

from .program import FunctionInfo, Module, Program, norm, own_nodes

SKIP_MODULES = {"spil.sid.read.finders.find_cache"}  # beta module outside the properties' scope: left as it is
MAX_STMTS = 60
MAX_DEPTH = 4
_VOCAB: Optional[Set[str]] = None


def vocabulary() -> Set[str]:
    """function / class / module names the rules, tables and property modules refer to: the string constants that are a
    (dotted) identifier, split at the dots.  Message texts are not names."""
    global _VOCAB
    if _VOCAB is not None:
        return _VOCAB
    here = os.path.dirname(os.path.abspath(__file__))
    files = glob.glob(os.path.join(here, "rules", "*.py")) + glob.glob(os.path.join(here, "props", "*.py")) + [
        os.path.join(here, n) for n in ("tables.py", "effects.py", "fold.py", "callgraph.py", "templates.py", "shape.py", "program.py")]
    toks: Set[str] = set()
    for fn in files:
        try:
            tree = ast.parse(open(fn, encoding="utf-8").read())
        except (OSError, SyntaxError):
            continue
        for n in ast.walk(tree):
            if isinstance(n, ast.Constant) and isinstance(n.value, str) and re.fullmatch(r"[A-Za-z_.<>][A-Za-z0-9_.<>]*", n.value):
                toks.update(x for x in n.value.split(".") if x)  # names and dotted names, not prose
    _VOCAB = toks
    return toks


# ------------------------------------------------------------------------------------------------ selection
def _stmt_count(fn: ast.FunctionDef) -> int:
    return sum(1 for n in ast.walk(fn) if isinstance(n, ast.stmt)) - 1


def _is_generator(fn: ast.FunctionDef) -> bool:
    return any(isinstance(n, (ast.Yield, ast.YieldFrom)) for n in own_nodes(fn))


def _const_default(d: ast.AST) -> bool:
    if isinstance(d, ast.Constant):
        return True
    if isinstance(d, ast.Lambda) and not any(isinstance(x, ast.Name) and isinstance(x.ctx, ast.Load) and x.id not in
                                             {a.arg for a in d.args.args} and not hasattr(builtins, x.id) for x in ast.walk(d.body)):
        return True  # a closed lambda is as good as a literal
    if isinstance(d, ast.UnaryOp) and isinstance(d.operand, ast.Constant):
        return True
    if isinstance(d, (ast.Tuple,)) and all(_const_default(x) for x in d.elts):
        return True
    return False


class Selector:
    def __init__(self, p: Program, vocab: Set[str]):
        self.p = p
        self.vocab = set(vocab)
        init = p.modules.get("spil")
        if init is not None:
            self.vocab |= set(init.bindings)  # public API
        self._memo: Dict[str, bool] = {}

    def inlinable(self, f: FunctionInfo) -> bool:
        got = self._memo.get(f.qualname)
        if got is None:
            got = self._memo[f.qualname] = self._inlinable(f)
        return got

    def _inlinable(self, f: FunctionInfo) -> bool:
        if f.module.kind not in ("library", "config") or f.module.name in SKIP_MODULES:
            return False
        if f.name.startswith("__") and f.name.endswith("__"):
            return False
        if f.cls is None:
            if f.name in self.vocab:
                return False
        else:
            known_cls = f.cls.name in self.vocab
            if known_cls and (f.name in self.vocab or not f.name.startswith("_")):
                return False  # a method the rules name, or a public method of a class the rules know
            if not known_cls and any(k.name in self.vocab for k in self.p.mro(f.cls)[1:]) and f.name in self.vocab:
                return False  # subclass of a known class re-using a known method name
        if f.parent is not None or f.is_property:
            return False
        node = f.node
        if isinstance(node, ast.AsyncFunctionDef):
            return False
        for d in node.decorator_list:
            if norm(d) not in ("staticmethod", "classmethod"):
                return False
        a = node.args
        if a.vararg:
            return False
        if a.kwarg and any(isinstance(n, ast.Name) and n.id == a.kwarg.arg and isinstance(n.ctx, (ast.Store, ast.Del)) for n in ast.walk(node)):
            return False
        if not all(_const_default(d) for d in list(a.defaults) + [d for d in a.kw_defaults if d is not None]):
            return False
        if _stmt_count(node) > MAX_STMTS:
            return False
        for n in ast.walk(node):
            if n is node:
                continue
            if isinstance(n, (ast.AsyncFunctionDef, ast.ClassDef, ast.Global, ast.Nonlocal, ast.Await)):
                return False
            if isinstance(n, ast.FunctionDef):
                # a closure factory: fine as long as the inner function has no name in common with the helper's own locals
                # (they could not be told apart when the locals are renamed)
                inner_names = {a.arg for a in ast.walk(n.args) if isinstance(a, ast.arg)} | {
                    x.id for x in ast.walk(n) if isinstance(x, ast.Name) and isinstance(x.ctx, ast.Store)}
                if inner_names & _local_names(node):
                    return False
            if isinstance(n, ast.Call) and isinstance(n.func, ast.Name) and n.func.id in ("locals", "vars", "globals", "super", "eval", "exec"):
                return False
            if isinstance(n, ast.Yield) and not _is_stmt_yield(node, n):
                return False
        # recursion
        for n in own_nodes(node):
            if isinstance(n, ast.Call):
                fn = n.func
                if isinstance(fn, ast.Name) and fn.id == f.name:
                    return False
                if isinstance(fn, ast.Attribute) and fn.attr == f.name:
                    return False
        # polymorphism
        if f.cls is not None:
            for k in self.p.subclasses(f.cls):
                if f.name in k.methods:
                    return False
            for k in self.p.mro(f.cls)[1:]:
                if f.name in k.methods:
                    return False
            if self._is_classmethod(f) or f.is_static:
                pass
        return True

    def _instance_class(self, scope: FunctionInfo, name: str):
        """the class of ``name`` when it is bound exactly once, in ``scope`` or an enclosing function, to ``C()`` with C a
        class of the program"""
        g: Optional[FunctionInfo] = scope
        while g is not None:
            stores = [n for n in ast.walk(g.node) if isinstance(n, ast.Name) and n.id == name and isinstance(n.ctx, ast.Store)]
            if name in g.params:
                return None
            if stores:
                if len(stores) != 1:
                    return None
                for st in ast.walk(g.node):
                    if isinstance(st, ast.Assign) and len(st.targets) == 1 and st.targets[0] is stores[0] and isinstance(st.value, ast.Call):
                        r = self.p.resolve_expr(g.module, st.value.func, g)
                        if r.kind == "class" and r.cls is not None and r.cls.module.kind in ("library", "config"):
                            return r.cls
                return None
            g = g.parent
        return None

    @staticmethod
    def _is_classmethod(f: FunctionInfo) -> bool:
        return any(norm(d) == "classmethod" for d in f.node.decorator_list)

    def target_of(self, scope: FunctionInfo, call: ast.Call) -> Optional[Tuple[FunctionInfo, Optional[ast.AST], str]]:
        """(helper, receiver expression for self/cls or None, kind) for a call that can be inlined"""
        fn = call.func
        if any(isinstance(a, ast.Starred) for a in call.args) or any(k.arg is None for k in call.keywords):
            return None
        t: Optional[FunctionInfo] = None
        recv: Optional[ast.AST] = None
        if isinstance(fn, ast.Attribute) and isinstance(fn.value, ast.Name) and fn.value.id in ("self", "cls") and scope.cls is not None \
                and scope.params and scope.params[0] == fn.value.id:
            t = self.p.find_method(scope.cls, fn.attr)
            recv = fn.value
            if t is not None and t.is_static:
                recv = None
        elif isinstance(fn, ast.Attribute) and isinstance(fn.value, ast.Name) and self._instance_class(scope, fn.value.id) is not None:
            # a method called on a local that is bound once to an instance of a (helper) class of the program
            kcls = self._instance_class(scope, fn.value.id)
            t = self.p.find_method(kcls, fn.attr)
            recv = fn.value
            if t is not None and t.is_static:
                recv = None
            if t is not None and (self.p.subclasses(kcls) or t.is_property):
                t = None
        else:
            r = self.p.resolve_expr(scope.module, fn, scope)
            if r.kind == "func" and r.func is not None:
                t = r.func
                if t.cls is not None and not t.is_static:
                    if self._is_classmethod(t) and isinstance(fn, ast.Attribute):
                        recv = fn.value  # ClassName.method(...)
                    else:
                        return None  # unbound instance method
        if t is None or t is scope or not self.inlinable(t):
            return None
        if t.cls is not None and recv is None and not t.is_static:
            return None
        return t, recv, "gen" if _is_generator(t.node) else "fn"


def _is_stmt_yield(fn: ast.FunctionDef, y: ast.Yield) -> bool:
    for n in ast.walk(fn):
        if isinstance(n, ast.Expr) and n.value is y:
            return True
    return False


def _local_names(fn: ast.FunctionDef) -> Set[str]:
    names = {a.arg for a in fn.args.posonlyargs + fn.args.args + fn.args.kwonlyargs}
    for st in ast.walk(fn):
        if isinstance(st, (ast.FunctionDef, ast.ClassDef)) and st is not fn and any(st in getattr(h, "body", []) for h in [fn]):
            names.add(st.name)
    for n in own_nodes(fn):
        if isinstance(n, ast.Name) and isinstance(n.ctx, (ast.Store, ast.Del)):
            names.add(n.id)
        elif isinstance(n, ast.ExceptHandler) and n.name:
            names.add(n.name)
        elif isinstance(n, ast.comprehension):
            for x in ast.walk(n.target):
                if isinstance(x, ast.Name):
                    names.add(x.id)
    return names


def _imported_names(fn: ast.FunctionDef) -> Set[str]:
    out = set()
    for n in own_nodes(fn):
        if isinstance(n, (ast.Import, ast.ImportFrom)):
            for a in n.names:
                out.add(a.asname or a.name.split(".")[0])
    return out


# ------------------------------------------------------------------------------------------------ rewriting
class _Rename(ast.NodeTransformer):
    def __init__(self, mapping: Dict[str, ast.AST]):
        self.m = mapping

    def visit_Name(self, n: ast.Name):
        rep = self.m.get(n.id)
        if rep is None:
            return n
        if isinstance(rep, str):
            return ast.copy_location(ast.Name(id=rep, ctx=n.ctx), n)
        new = copy.deepcopy(rep)
        return ast.copy_location(new, n)

    def visit_ExceptHandler(self, h):
        rep = self.m.get(h.name) if h.name else None
        if isinstance(rep, str):
            h.name = rep
        return self.generic_visit(h)

    def visit_Lambda(self, n: ast.Lambda):
        shadow = {a.arg for a in n.args.posonlyargs + n.args.args + n.args.kwonlyargs}
        if n.args.vararg:
            shadow.add(n.args.vararg.arg)
        if n.args.kwarg:
            shadow.add(n.args.kwarg.arg)
        hidden = {k: self.m.pop(k) for k in list(self.m) if k in shadow}
        try:
            return self.generic_visit(n)
        finally:
            self.m.update(hidden)


def _contains_return(st: ast.AST) -> bool:
    return any(isinstance(x, ast.Return) for x in ast.walk(st))


class _Returns:
    """rewrite the ``return`` statements of an inlined body: the body will sit in a one-shot ``while True``"""

    def __init__(self, target: Optional[ast.AST], flag: str):
        self.target, self.flag = target, flag
        self.used_flag = False

    def block(self, stmts: List[ast.stmt], depth: int) -> List[ast.stmt]:
        out: List[ast.stmt] = []
        for s in stmts:
            if isinstance(s, ast.Return):
                if self.target is not None:
                    val = s.value if s.value is not None else ast.Constant(value=None)
                    out.append(ast.copy_location(ast.Assign(targets=[copy.deepcopy(self.target)], value=val), s))
                elif s.value is not None and not isinstance(s.value, (ast.Constant, ast.Name)):
                    out.append(ast.copy_location(ast.Expr(value=s.value), s))
                if depth > 0:
                    self.used_flag = True
                    out.append(ast.copy_location(ast.Assign(targets=[ast.Name(id=self.flag, ctx=ast.Store())], value=ast.Constant(value=True)), s))
                out.append(ast.copy_location(ast.Break(), s))
            elif isinstance(s, (ast.For, ast.While)):
                had = _contains_return(s)
                s.body = self.block(s.body, depth + 1)
                s.orelse = self.block(s.orelse, depth)
                out.append(s)
                if had:
                    self.used_flag = True
                    out.append(ast.copy_location(ast.If(test=ast.Name(id=self.flag, ctx=ast.Load()), body=[ast.Break()], orelse=[]), s))
            elif isinstance(s, ast.If):
                s.body = self.block(s.body, depth)
                s.orelse = self.block(s.orelse, depth)
                out.append(s)
            elif isinstance(s, (ast.With,)):
                s.body = self.block(s.body, depth)
                out.append(s)
            elif isinstance(s, ast.Try):
                s.body = self.block(s.body, depth)
                for h in s.handlers:
                    h.body = self.block(h.body, depth)
                s.orelse = self.block(s.orelse, depth)
                s.finalbody = self.block(s.finalbody, depth)
                out.append(s)
            elif hasattr(ast, "Match") and isinstance(s, ast.Match):
                for c in s.cases:
                    c.body = self.block(c.body, depth)
                out.append(s)
            else:
                out.append(s)
        return out


def _has_loop_control(body: List[ast.stmt]) -> bool:
    """break / continue that belong to the loop whose body this is"""
    def walk(stmts) -> bool:
        for s in stmts:
            if isinstance(s, (ast.Break, ast.Continue)):
                return True
            if isinstance(s, (ast.For, ast.While, ast.FunctionDef, ast.ClassDef)):
                if isinstance(s, (ast.For, ast.While)) and walk(s.orelse):
                    return True
                continue
            for fld in ("body", "orelse", "finalbody"):
                sub = getattr(s, fld, None)
                if isinstance(sub, list) and sub and isinstance(sub[0], ast.stmt) and walk(sub):
                    return True
            for h in getattr(s, "handlers", []) or []:
                if walk(h.body):
                    return True
        return False
    return walk(body)


def _continue_to_break(stmts: List[ast.stmt]) -> List[ast.stmt]:
    """own-level ``continue`` -> ``break`` (the statements are about to become the body of a one-shot loop)"""
    out = []
    for s in stmts:
        if isinstance(s, ast.Continue):
            out.append(ast.copy_location(ast.Break(), s))
            continue
        if isinstance(s, (ast.For, ast.While)):
            s.orelse = _continue_to_break(s.orelse)
        elif not isinstance(s, (ast.FunctionDef, ast.ClassDef)):
            for fld in ("body", "orelse", "finalbody"):
                sub = getattr(s, fld, None)
                if isinstance(sub, list) and sub and isinstance(sub[0], ast.stmt):
                    setattr(s, fld, _continue_to_break(sub))
            for h in getattr(s, "handlers", []) or []:
                h.body = _continue_to_break(h.body)
        out.append(s)
    return out


def _yields_in_tail_position(fn: ast.FunctionDef) -> bool:
    """every ``yield`` of the generator is the last thing its innermost enclosing loop does in an iteration (and it has such
    a loop): a ``continue`` placed where the yield is then continues exactly that loop"""
    ok = True
    found = False

    def walk(stmts: List[ast.stmt], loop_tail: Optional[bool]):
        # loop_tail: None outside any loop; True if this block's last statement ends the loop iteration
        nonlocal ok, found
        for i, s in enumerate(stmts):
            last = i == len(stmts) - 1
            tail = bool(loop_tail) and last
            if isinstance(s, ast.Expr) and isinstance(s.value, (ast.Yield, ast.YieldFrom)):
                found = True
                if isinstance(s.value, ast.YieldFrom) or not tail:
                    ok = False
            elif isinstance(s, (ast.For, ast.While)):
                walk(s.body, True)
                walk(s.orelse, tail if loop_tail is not None else None)
            elif isinstance(s, ast.If):
                walk(s.body, tail if loop_tail is not None else None)
                walk(s.orelse, tail if loop_tail is not None else None)
            elif isinstance(s, (ast.With,)):
                walk(s.body, tail if loop_tail is not None else None)
            elif isinstance(s, ast.Try):
                for b in [s.body, s.orelse, s.finalbody] + [h.body for h in s.handlers]:
                    if any(isinstance(x, (ast.Yield, ast.YieldFrom)) for y in b for x in ast.walk(y)):
                        ok = False
    walk(fn.body, None)
    return ok and found


class _YieldTo(ast.NodeTransformer):
    """``yield e`` -> ``<target> = e; <body>`` (for-loop over an inlined generator)"""

    def __init__(self, target: ast.AST, body: List[ast.stmt]):
        self.target, self.body = target, body
        self.count = 0

    def visit_Expr(self, n: ast.Expr):
        if isinstance(n.value, ast.Yield):
            self.count += 1
            val = n.value.value if n.value.value is not None else ast.Constant(value=None)
            return [ast.copy_location(ast.Assign(targets=[copy.deepcopy(self.target)], value=val), n)] + [copy.deepcopy(s) for s in self.body]
        if isinstance(n.value, ast.YieldFrom):
            self.count += 1
            return [ast.copy_location(ast.For(target=copy.deepcopy(self.target), iter=n.value.value, body=[copy.deepcopy(s) for s in self.body],
                                              orelse=[]), n)]
        return n


# safe positions for hoisting a call out of an expression
def _safe_calls(node: ast.AST):
    if isinstance(node, (ast.Lambda, ast.ListComp, ast.SetComp, ast.DictComp, ast.GeneratorExp, ast.FunctionDef, ast.ClassDef,
                         ast.YieldFrom, ast.Await, ast.NamedExpr)):
        return
    if isinstance(node, ast.BoolOp):
        yield from _safe_calls(node.values[0])
        return
    if isinstance(node, ast.IfExp):
        yield from _safe_calls(node.test)
        return
    if isinstance(node, ast.Compare) and len(node.ops) > 1:
        yield from _safe_calls(node.left)
        yield from _safe_calls(node.comparators[0])
        return
    for ch in ast.iter_child_nodes(node):
        yield from _safe_calls(ch)
    if isinstance(node, ast.Call):
        yield node


class _Replace(ast.NodeTransformer):
    def __init__(self, old: ast.AST, new: ast.AST):
        self.old, self.new = old, new

    def visit(self, node):
        if node is self.old:
            return self.new
        return super().visit(node)


class Inliner:
    def __init__(self, p: Program, vocab: Optional[Set[str]] = None):
        self.p = p
        self.sel = Selector(p, vocab if vocab is not None else vocabulary())
        self.counter = 0
        self.log: List[Tuple[str, str]] = []  # (caller, helper)
        self.need_imports: Dict[str, Set[Tuple[str, str]]] = {}  # caller module -> {(helper module, name)}

    # -------------------------------------------------------------------------------- one call
    def _fresh(self, base: str) -> str:
        self.counter += 1
        return f"_h{self.counter}_{base}"

    def _free_names_ok(self, scope: FunctionInfo, t: FunctionInfo, body: List[ast.stmt], renamed: Set[str]) -> Optional[Set[Tuple[str, str]]]:
        """imports the caller's module needs so that the helper's global names mean the same there; None on a clash"""
        if t.module is scope.module:
            return set()
        need: Set[Tuple[str, str]] = set()
        hm, cm = t.module, scope.module
        local_imports = _imported_names(t.node)
        scope_locals = _local_names(scope.node) | _imported_names(scope.node)
        p = scope.parent
        while p is not None:
            scope_locals |= _local_names(p.node)
            p = p.parent
        for st in body:
            for n in ast.walk(st):
                if not (isinstance(n, ast.Name) and isinstance(n.ctx, ast.Load)):
                    continue
                nm = n.id
                if nm in renamed or nm in local_imports or nm.startswith("_h"):
                    continue
                rh = self.p.lookup(hm, nm) if (nm in hm.bindings or hm.stars or hm.loader) else None
                if rh is None or rh.kind == "unknown":
                    if hasattr(builtins, nm):
                        if nm in cm.bindings or nm in scope_locals:
                            return None
                        continue
                    continue  # unknown in the helper's module as well: nothing to preserve
                if nm in scope_locals:
                    return None
                if nm in cm.bindings or cm.stars or cm.loader:
                    rc = self.p.lookup(cm, nm)
                    if rc.kind != "unknown":
                        same = (rc.kind == rh.kind and rc.func is rh.func and rc.cls is rh.cls and rc.name == rh.name
                                and (rc.module is rh.module or rc.kind in ("func", "class")))
                        if rc.kind == "value" and rh.kind == "value":
                            same = rc.binding is rh.binding or (rc.module is rh.module and rc.name == rh.name)
                        if not same:
                            return None
                        continue
                need.add((hm.name, nm))
        return need

    def inline_call(self, scope: FunctionInfo, call: ast.Call, mode: str, target: Optional[ast.AST], at: ast.stmt, depth: int,
                    loop: Optional[ast.For] = None) -> Optional[List[ast.stmt]]:
        got = self.sel.target_of(scope, call)
        if got is None:
            return None
        t, recv, kind = got
        if (kind == "gen") != (mode in ("yieldfrom", "for")):
            return None
        if mode == "return" and _is_generator(scope.node):
            return None
        a = t.node.args
        pos = [x.arg for x in a.posonlyargs + a.args]
        names = pos + [x.arg for x in a.kwonlyargs]
        defaults: Dict[str, ast.AST] = dict(zip(pos[len(pos) - len(a.defaults):], a.defaults))
        for k, dv in zip(a.kwonlyargs, a.kw_defaults):
            if dv is not None:
                defaults[k.arg] = dv
        mapping: Dict[str, object] = {}
        locals_ = _local_names(t.node)
        # the helper's locals keep their names (an extracted helper usually took them along) unless the caller has a
        # variable of that name; parameters bound to a compound argument become temporaries (see forward_substitute)
        clash = _local_names(scope.node) | set(scope.params)
        q = scope.parent
        while q is not None:
            clash |= _local_names(q.node)
            q = q.parent
        pnames = set(names)
        for n in locals_:
            if n in clash or n in pnames:
                mapping[n] = self._fresh(n)
        pre: List[ast.stmt] = []
        params = list(names)
        if t.cls is not None and not t.is_static:
            if not params:
                return None
            selfname = params.pop(0)
            if isinstance(recv, ast.Name):
                mapping[selfname] = recv.id
            else:
                tmp = self._fresh(selfname)
                pre.append(ast.copy_location(ast.Assign(targets=[ast.Name(id=tmp, ctx=ast.Store())], value=copy.deepcopy(recv)), at))
                mapping[selfname] = tmp
        bound: Dict[str, ast.AST] = {}
        pparams = [x for x in params if x in pos]
        if len(call.args) > len(pparams):
            return None
        for nm, arg in zip(pparams, call.args):
            bound[nm] = arg
        extra: List[ast.keyword] = []
        for kw in call.keywords:
            if kw.arg in bound:
                return None
            if kw.arg not in params:
                if a.kwarg is None:
                    return None
                extra.append(kw)
                continue
            bound[kw.arg] = kw.value
        if a.kwarg is not None:
            # **kwargs of the helper: the literal dictionary of the surplus keywords of this call
            mapping[a.kwarg.arg] = ast.copy_location(ast.Dict(keys=[ast.Constant(value=k.arg) for k in extra], values=[k.value for k in extra]), at)
        stored = {n.id for n in own_nodes(t.node) if isinstance(n, ast.Name) and isinstance(n.ctx, (ast.Store, ast.Del))}
        for nm in params:
            val = bound.get(nm, defaults.get(nm))
            if val is None:
                return None
            if nm not in stored and isinstance(val, (ast.Constant, ast.Name)):
                mapping[nm] = val  # an argument that is a plain name or a literal stands for the parameter itself
                continue
            pre.append(ast.copy_location(ast.Assign(targets=[ast.Name(id=mapping[nm], ctx=ast.Store())], value=copy.deepcopy(val)), at))
        # helper calls among the arguments are expanded in the caller's scope
        pre = self.block(scope, pre, depth)
        body = [copy.deepcopy(s) for s in t.node.body if not (isinstance(s, ast.Expr) and isinstance(s.value, ast.Constant))]
        if not body:
            body = [ast.copy_location(ast.Pass(), at)]
        # nested helpers are expanded in the helper's own scope first
        if depth > 1:
            tscope = FunctionInfo(qualname=t.qualname, name=t.name, module=t.module, node=t.node, cls=t.cls, parent=t.parent)
            tscope.is_static = t.is_static
            body = self.block(tscope, body, depth - 1)
        # names brought in by the nested expansions are locals of this body as well
        for s_ in body:
            for x in ast.walk(s_):
                if isinstance(x, ast.Name) and isinstance(x.ctx, (ast.Store, ast.Del)) and x.id not in locals_:
                    locals_.add(x.id)
                    if x.id in clash and not _is_temp(x.id):
                        mapping[x.id] = self._fresh(x.id)
        need = self._free_names_ok(scope, t, body, set(locals_))
        if need is None:
            return None
        body = [_Rename(mapping).visit(s) for s in body]
        if mode == "return":
            # `return helper(..)`: the helper's own returns are the caller's; a helper that falls off its end returns None
            if not _always_assigns(t.node):
                body.append(ast.copy_location(ast.Return(value=ast.Constant(value=None)), at))
            if need:
                self.need_imports.setdefault(scope.module.name, set()).update(need)
            self.log.append((scope.qualname, t.qualname))
            return pre + body
        flag = self._fresh("ret")
        rw = _Returns(target if mode == "assign" else None, flag)
        if mode == "for":
            assert loop is not None
            if loop.orelse or _own_level(loop.body, (ast.Break,)):
                return None
            wrap_body = False
            if _own_level(loop.body, (ast.Continue,)) and not _yields_in_tail_position(t.node):
                # `continue` means "resume after the yield": the body goes into a one-shot loop and its `continue`s leave it
                wrap_body = True
            body = rw.block(body, 0)
            lbody = loop.body
            if wrap_body:
                lbody = [ast.copy_location(ast.While(test=ast.Constant(value=True),
                                                     body=_continue_to_break([copy.deepcopy(x) for x in loop.body]) + [ast.copy_location(ast.Break(), at)],
                                                     orelse=[]), at)]
            yt = _YieldTo(loop.target, lbody)
            new_body = []
            for s in body:
                r = yt.visit(s)
                new_body += r if isinstance(r, list) else [r]
            if yt.count == 0 or yt.count > 3:
                return None
            body = new_body
        else:
            body = rw.block(body, 0)
            if mode == "yieldfrom":
                pass
        has_break = any(isinstance(x, ast.Break) for s in body for x in ast.walk(s))
        straight = False
        if not rw.used_flag and body and isinstance(body[-1], ast.Break):
            # the only rewritten return is the trailing one: no wrapper loop needed
            inner_breaks = [x for s in body[:-1] for x in _own_breaks(s)]
            if not inner_breaks:
                body = body[:-1]
                straight = True
        elif not has_break:
            straight = True
        if mode == "assign" and target is not None and not _always_assigns(t.node):
            pre.append(ast.copy_location(ast.Assign(targets=[copy.deepcopy(target)], value=ast.Constant(value=None)), at))
        if rw.used_flag:
            pre.append(ast.copy_location(ast.Assign(targets=[ast.Name(id=flag, ctx=ast.Store())], value=ast.Constant(value=False)), at))
        if straight:
            out = pre + (body or [])
        else:
            if not isinstance(body[-1], ast.Break):
                body.append(ast.copy_location(ast.Break(), at))
            out = pre + [ast.copy_location(ast.While(test=ast.Constant(value=True), body=body, orelse=[]), at)]
        if need:
            self.need_imports.setdefault(scope.module.name, set()).update(need)
        self.log.append((scope.qualname, t.qualname))
        return out

    # -------------------------------------------------------------------------------- statements
    def _hoist(self, scope: FunctionInfo, st: ast.stmt, exprs: List[ast.AST], depth: int) -> List[ast.stmt]:
        """statements to run before ``st`` (which is edited in place): inlined helper calls nested in ``exprs``"""
        pre: List[ast.stmt] = []
        for _ in range(12):
            found = None
            for e in exprs:
                for c in _safe_calls(e):
                    got = self.sel.target_of(scope, c)
                    if got is not None and got[2] == "fn":
                        found = c
                        break
                if found is not None:
                    break
            if found is None:
                break
            tmp = self._fresh("v")
            tgt = ast.Name(id=tmp, ctx=ast.Store())
            rep = self.inline_call(scope, found, "assign", tgt, st, depth)
            if rep is None:
                # cannot be inlined after all: make sure we do not loop on it
                self.sel._memo[got[0].qualname] = False
                continue
            pre += rep
            new = ast.copy_location(ast.Name(id=tmp, ctx=ast.Load()), found)
            _Replace(found, new).visit(st)
            exprs = _stmt_exprs(st)
        return pre

    def _inline_expression_helpers(self, scope: FunctionInfo, st: ast.stmt) -> None:
        """a module-level helper of the same module whose body is one `return <expression>`, called with plain names / constants /
        attribute chains: the call is replaced by that expression where it stands - also in the right operand of and / or, in a
        conditional expression or a comprehension, where nothing may be hoisted (nothing is: the arguments have no effects)"""
        def simple(e: ast.AST) -> bool:
            if isinstance(e, (ast.Name, ast.Constant)):
                return True
            return isinstance(e, ast.Attribute) and simple(e.value)

        def once(e: ast.AST) -> bool:
            # may be evaluated where the parameter stands, provided the parameter is read exactly once: str(x), xs[0], str(xs[0])
            if simple(e):
                return True
            if isinstance(e, ast.Subscript) and not isinstance(e.slice, ast.Slice):
                return once(e.value) and simple(e.slice)
            return isinstance(e, ast.Call) and isinstance(e.func, ast.Name) and e.func.id in ("str", "repr", "len", "int", "list", "tuple") \
                and len(e.args) == 1 and not e.keywords and once(e.args[0])
        for _ in range(6):
            done = False
            for e in _stmt_exprs(st):
                for c in [x for x in ast.walk(e) if isinstance(x, ast.Call)]:
                    got = self.sel.target_of(scope, c)
                    if got is None or got[2] != "fn" or got[1] is not None:
                        continue
                    t = got[0]
                    if t.module is not scope.module or t.cls is not None:
                        continue
                    body = [b for b in t.node.body if not (isinstance(b, ast.Expr) and isinstance(b.value, ast.Constant) and isinstance(b.value.value, str))]
                    if len(body) != 1 or not isinstance(body[0], ast.Return) or body[0].value is None:
                        continue
                    a = t.node.args
                    if a.vararg or a.kwarg or a.kwonlyargs or a.posonlyargs:
                        continue
                    names = [x.arg for x in a.args]
                    if len(c.args) > len(names) or not all(once(x) for x in c.args) or not all(k.arg in names and once(k.value) for k in c.keywords):
                        continue
                    uses = {}
                    for x in ast.walk(body[0].value):
                        if isinstance(x, ast.Name) and isinstance(x.ctx, ast.Load):
                            uses[x.id] = uses.get(x.id, 0) + 1
                    bound_args = dict(zip(names, c.args))
                    bound_args.update({k.arg: k.value for k in c.keywords})
                    if any(not simple(v_) and uses.get(nm_, 0) != 1 for nm_, v_ in bound_args.items()):
                        continue
                    mapping: Dict[str, ast.AST] = {}
                    for nm, av in zip(names, c.args):
                        mapping[nm] = av
                    for k in c.keywords:
                        mapping[k.arg] = k.value
                    defaults = dict(zip(names[len(names) - len(a.defaults):], a.defaults))
                    missing = [nm for nm in names if nm not in mapping]
                    if any(nm not in defaults or not isinstance(defaults[nm], ast.Constant) for nm in missing):
                        continue
                    for nm in missing:
                        mapping[nm] = defaults[nm]
                    expr = copy.deepcopy(body[0].value)
                    if any(isinstance(x, (ast.Yield, ast.YieldFrom, ast.Await, ast.NamedExpr, ast.Lambda)) for x in ast.walk(expr)):
                        continue
                    # locals of the expression other than the parameters (comprehension variables) must not clash with the caller
                    bound = {x.id for x in ast.walk(expr) if isinstance(x, ast.Name) and isinstance(x.ctx, ast.Store)}
                    caller_names = {x.id for x in ast.walk(scope.node) if isinstance(x, ast.Name)}
                    if bound & caller_names:
                        continue
                    new_e = _Subst({k_: copy.deepcopy(v_) for k_, v_ in mapping.items()}).visit(expr)
                    _Replace(c, ast.copy_location(new_e, c)).visit(st)
                    self.log.append((scope.qualname, t.qualname))
                    self.used.add(t.qualname) if hasattr(self, "used") else None
                    done = True
                    break
                if done:
                    break
            if not done:
                break

    def stmt(self, scope: FunctionInfo, st: ast.stmt, depth: int) -> List[ast.stmt]:
        if depth <= 0 or isinstance(st, (ast.FunctionDef, ast.AsyncFunctionDef, ast.ClassDef)):
            return [st]
        self._inline_expression_helpers(scope, st)
        # whole-statement forms
        if isinstance(st, ast.Expr) and isinstance(st.value, ast.Call):
            rep = self.inline_call(scope, st.value, "expr", None, st, depth)
            if rep is not None:
                return self._pre_args(scope, st, st.value, rep, depth)
        if isinstance(st, ast.Expr) and isinstance(st.value, ast.YieldFrom) and isinstance(st.value.value, ast.Call):
            rep = self.inline_call(scope, st.value.value, "yieldfrom", None, st, depth)
            if rep is not None:
                return rep
            got = self.sel.target_of(scope, st.value.value)
            if got is not None and got[2] == "fn":
                # `yield from helper(..)` where the helper *returns* an iterable: bind it first (fuse_generators takes over)
                tmp = self._fresh("it")
                rep = self.inline_call(scope, st.value.value, "assign", ast.Name(id=tmp, ctx=ast.Store()), st, depth)
                if rep is not None:
                    st.value.value = ast.copy_location(ast.Name(id=tmp, ctx=ast.Load()), st)
                    return rep + [st]
        if isinstance(st, ast.Return) and isinstance(st.value, ast.Call):
            rep = self.inline_call(scope, st.value, "return", None, st, depth)
            if rep is not None:
                return rep
        if isinstance(st, ast.Assign) and len(st.targets) == 1 and isinstance(st.value, ast.Call) and isinstance(st.targets[0], (ast.Name, ast.Tuple, ast.Attribute, ast.Subscript)):
            rep = self.inline_call(scope, st.value, "assign", st.targets[0], st, depth)
            if rep is not None:
                return rep
        if isinstance(st, ast.For) and isinstance(st.iter, ast.Call):
            got = self.sel.target_of(scope, st.iter)
            if got is not None and got[2] == "gen" and not st.orelse and not _own_level(st.body, (ast.Break,)):
                st.body = self.block(scope, st.body, depth)
                rep = self.inline_call(scope, st.iter, "for", None, st, depth, loop=st)
                if rep is not None:
                    return rep
                return [st]
        pre = self._hoist(scope, st, _stmt_exprs(st), depth)
        for fld in ("body", "orelse", "finalbody"):
            sub = getattr(st, fld, None)
            if isinstance(sub, list) and sub and isinstance(sub[0], ast.stmt):
                setattr(st, fld, self.block(scope, sub, depth))
        for h in getattr(st, "handlers", []) or []:
            h.body = self.block(scope, h.body, depth)
        if hasattr(ast, "Match") and isinstance(st, ast.Match):
            for c in st.cases:
                c.body = self.block(scope, c.body, depth)
        return pre + [st]

    def _pre_args(self, scope, st, call, rep, depth):
        return rep

    def block(self, scope: FunctionInfo, body: List[ast.stmt], depth: int) -> List[ast.stmt]:
        out: List[ast.stmt] = []
        for st in body:
            out += self.stmt(scope, st, depth)
        return out


def _own_breaks(s: ast.stmt):
    """break statements of ``s`` that would leave the enclosing loop of ``s``"""
    if isinstance(s, ast.Break):
        yield s
        return
    if isinstance(s, (ast.For, ast.While)):
        for x in s.orelse:
            yield from _own_breaks(x)
        return
    if isinstance(s, (ast.FunctionDef, ast.ClassDef)):
        return
    for fld in ("body", "orelse", "finalbody"):
        sub = getattr(s, fld, None)
        if isinstance(sub, list):
            for x in sub:
                if isinstance(x, ast.stmt):
                    yield from _own_breaks(x)
    for h in getattr(s, "handlers", []) or []:
        for x in h.body:
            yield from _own_breaks(x)


def _always_assigns(fn: ast.FunctionDef) -> bool:
    """every path of the helper ends in a ``return`` (so the target is always assigned)"""
    def ends(stmts) -> bool:
        if not stmts:
            return False
        last = stmts[-1]
        if isinstance(last, (ast.Return, ast.Raise)):
            return True
        if isinstance(last, ast.If):
            return ends(last.body) and ends(last.orelse)
        if isinstance(last, ast.Try):
            return (ends(last.body) or ends(last.orelse)) and all(ends(h.body) for h in last.handlers) or ends(last.finalbody)
        if isinstance(last, ast.With):
            return ends(last.body)
        return False
    return ends(fn.body)


def _stmt_exprs(st: ast.stmt) -> List[ast.AST]:
    if isinstance(st, (ast.Expr, ast.Return)):
        return [st.value] if st.value is not None else []
    if isinstance(st, ast.Assign):
        return [st.value] + [t for t in st.targets if not isinstance(t, ast.Name)]
    if isinstance(st, (ast.AugAssign, ast.AnnAssign)):
        return [st.value] if st.value is not None else []
    if isinstance(st, ast.If):
        return [st.test]
    if isinstance(st, ast.For):
        return [st.iter]
    if isinstance(st, ast.With):
        return [i.context_expr for i in st.items]
    if isinstance(st, ast.Raise):
        return [x for x in (st.exc, st.cause) if x is not None]
    if isinstance(st, ast.Delete):
        return list(st.targets)
    return []


# ------------------------------------------------------------------------------------------------ table-driven code
def _own_level(stmts: List[ast.stmt], kinds) -> bool:
    """a statement of one of ``kinds`` that belongs to the loop whose body ``stmts`` is"""
    for s in stmts:
        if isinstance(s, kinds):
            return True
        if isinstance(s, (ast.For, ast.While, ast.FunctionDef, ast.ClassDef)):
            if isinstance(s, (ast.For, ast.While)) and _own_level(s.orelse, kinds):
                return True
            continue
        for fld in ("body", "orelse", "finalbody"):
            sub = getattr(s, fld, None)
            if isinstance(sub, list) and sub and isinstance(sub[0], ast.stmt) and _own_level(sub, kinds):
                return True
        for h in getattr(s, "handlers", []) or []:
            if _own_level(h.body, kinds):
                return True
    return False


class _Subst(ast.NodeTransformer):
    def __init__(self, mapping: Dict[str, ast.AST]):
        self.m = mapping

    def visit_Name(self, n: ast.Name):
        if isinstance(n.ctx, ast.Load) and n.id in self.m:
            return ast.copy_location(copy.deepcopy(self.m[n.id]), n)
        return n

    def visit_Lambda(self, n: ast.Lambda):
        shadow = {a.arg for a in n.args.args}
        if shadow & set(self.m):
            return n
        return self.generic_visit(n)


def _beta(fn: ast.AST) -> int:
    """``(lambda: e)()`` -> ``e``; also through a local name bound once to a lambda"""
    lambdas: Dict[str, ast.Lambda] = {}
    stores: Dict[str, int] = {}
    for n in ast.walk(fn):
        if isinstance(n, ast.Name) and isinstance(n.ctx, ast.Store):
            stores[n.id] = stores.get(n.id, 0) + 1
    for n in ast.walk(fn):
        if isinstance(n, ast.Assign) and len(n.targets) == 1 and isinstance(n.targets[0], ast.Name) and isinstance(n.value, ast.Lambda) \
                and stores.get(n.targets[0].id) == 1:
            lambdas[n.targets[0].id] = n.value
    count = 0

    class B(ast.NodeTransformer):
        def visit_Call(self, c: ast.Call):
            nonlocal count
            self.generic_visit(c)
            lam = c.func if isinstance(c.func, ast.Lambda) else (lambdas.get(c.func.id) if isinstance(c.func, ast.Name) else None)
            if lam is None or c.keywords or lam.args.vararg or lam.args.kwarg or lam.args.kwonlyargs or lam.args.defaults:
                return c
            ps = [a.arg for a in lam.args.posonlyargs + lam.args.args]
            if len(ps) != len(c.args) or not all(isinstance(a, (ast.Name, ast.Constant)) for a in c.args):
                return c
            count += 1
            body = copy.deepcopy(lam.body)
            if ps:
                body = _Subst(dict(zip(ps, c.args))).visit(body)
            return ast.copy_location(body, c)

    B().visit(fn)
    return count


def unroll_tables(fn: ast.AST) -> int:
    """``for a, b in ((x1, y1), (x2, y2)): body`` over a literal table of at most 8 rows -> the bodies in sequence inside a
    one-shot loop (so that ``break`` keeps its meaning); the loop variables are assigned (lambdas are substituted, so
    that a table of thunks becomes the calls themselves).  Returns the number of loops unrolled."""
    stores: Dict[str, int] = {}
    for n in ast.walk(fn):
        if isinstance(n, ast.Name) and isinstance(n.ctx, ast.Store):
            stores[n.id] = stores.get(n.id, 0) + 1
    tables: Dict[str, ast.AST] = {}
    for n in ast.walk(fn):
        if isinstance(n, ast.Assign) and len(n.targets) == 1 and isinstance(n.targets[0], ast.Name) and isinstance(n.value, (ast.Tuple, ast.List)) \
                and stores.get(n.targets[0].id) == 1:
            tables[n.targets[0].id] = n.value
    mutated = {x.func.value.id for x in ast.walk(fn) if isinstance(x, ast.Call) and isinstance(x.func, ast.Attribute)
               and isinstance(x.func.value, ast.Name) and x.func.attr in ("append", "extend", "insert", "pop", "remove", "sort", "reverse", "clear")}
    count = 0
    for holder in list(ast.walk(fn)):
        for fld in ("body", "orelse", "finalbody"):
            blk = getattr(holder, fld, None)
            if not (isinstance(blk, list) and blk and isinstance(blk[0], ast.stmt)):
                continue
            i = 0
            while i < len(blk):
                st = blk[i]
                i += 1
                if not isinstance(st, ast.For):
                    continue
                table = st.iter
                if isinstance(table, ast.Name) and table.id in tables and table.id not in mutated:
                    table = tables[table.id]
                if not isinstance(table, (ast.Tuple, ast.List)) or not (1 <= len(table.elts) <= 8):
                    continue
                if any(isinstance(e, ast.Starred) for e in table.elts) or _own_level(st.body, (ast.Continue,)):
                    continue
                tnames = [t.id for t in (st.target.elts if isinstance(st.target, ast.Tuple) else [st.target]) if isinstance(t, ast.Name)]
                arity = len(st.target.elts) if isinstance(st.target, ast.Tuple) else 0
                if (arity and len(tnames) != arity) or (not arity and not isinstance(st.target, ast.Name)):
                    continue
                if arity and not all(isinstance(e, (ast.Tuple, ast.List)) and len(e.elts) == arity for e in table.elts):
                    continue
                has_lambda = any(isinstance(x, ast.Lambda) for e in table.elts for x in (e.elts if arity else [e]))
                if not has_lambda and not arity:
                    continue  # a plain loop over constants: nothing is hidden by it
                body_stores = {x.id for s_ in st.body for x in ast.walk(s_) if isinstance(x, ast.Name) and isinstance(x.ctx, ast.Store)}
                if set(tnames) & body_stores:
                    continue
                new: List[ast.stmt] = []
                for row in table.elts:
                    vals = list(row.elts) if arity else [row]
                    sub: Dict[str, ast.AST] = {}
                    for nm, v in zip(tnames, vals):
                        if isinstance(v, (ast.Lambda, ast.Name, ast.Constant)):
                            sub[nm] = v
                        if not isinstance(v, ast.Lambda):
                            new.append(ast.copy_location(ast.Assign(targets=[ast.Name(id=nm, ctx=ast.Store())], value=copy.deepcopy(v)), st))
                    for s_ in st.body:
                        c = copy.deepcopy(s_)
                        c = _Subst(sub).visit(c) if sub else c
                        new.append(c)
                uses_break = _own_level(st.body, (ast.Break,))
                if uses_break or st.orelse:
                    new += [copy.deepcopy(s_) for s_ in st.orelse]
                    new.append(ast.copy_location(ast.Break(), st))
                    rep = [ast.copy_location(ast.While(test=ast.Constant(value=True), body=new, orelse=[]), st)]
                else:
                    rep = new
                blk[i - 1:i] = rep
                i += len(rep) - 1
                count += 1
    if count:
        _beta(fn)

        class G(ast.NodeTransformer):
            """getattr(x, 'name') with a literal name is x.name"""
            def visit_Call(self, c: ast.Call):
                self.generic_visit(c)
                if isinstance(c.func, ast.Name) and c.func.id == "getattr" and len(c.args) == 2 and not c.keywords \
                        and isinstance(c.args[1], ast.Constant) and isinstance(c.args[1].value, str) and c.args[1].value.isidentifier():
                    return ast.copy_location(ast.Attribute(value=c.args[0], attr=c.args[1].value, ctx=ast.Load()), c)
                return c

        G().visit(fn)
        # a table that is no longer read is dropped (its thunks would otherwise still look like closures)
        loads = {x.id for x in ast.walk(fn) if isinstance(x, ast.Name) and isinstance(x.ctx, ast.Load)}
        for holder in list(ast.walk(fn)):
            for fld in ("body", "orelse", "finalbody"):
                blk = getattr(holder, fld, None)
                if isinstance(blk, list) and blk and isinstance(blk[0], ast.stmt):
                    keep = [x for x in blk if not (isinstance(x, ast.Assign) and len(x.targets) == 1 and isinstance(x.targets[0], ast.Name)
                                                   and x.targets[0].id in tables and x.targets[0].id not in loads)]
                    if len(keep) != len(blk):
                        blk[:] = keep or [ast.copy_location(ast.Pass(), blk[0])]
    return count


# ------------------------------------------------------------------------------------------------ pipelines
def _blocks(fn: ast.AST):
    for holder in list(ast.walk(fn)):
        for fld in ("body", "orelse", "finalbody"):
            blk = getattr(holder, fld, None)
            if isinstance(blk, list) and blk and isinstance(blk[0], ast.stmt):
                yield blk
        if isinstance(holder, ast.ExceptHandler):
            pass


def fuse_generators(fn: ast.AST) -> int:
    """``items = (f(x) for x in xs if c)`` ... ``for y in items: body``  ->  ``for x in xs: if c: y = f(x); body`` when the
    generator expression (or list comprehension) is bound once and only iterated by that loop; also the direct form
    ``for y in (f(x) for x in xs)``."""
    count = 0
    for _ in range(6):
        loads: Dict[str, int] = {}
        stores: Dict[str, int] = {}
        for n in ast.walk(fn):
            if isinstance(n, ast.Name):
                d = loads if isinstance(n.ctx, ast.Load) else stores
                d[n.id] = d.get(n.id, 0) + 1
        gens: Dict[str, Tuple[List[ast.stmt], ast.stmt, ast.AST]] = {}
        for blk in _blocks(fn):
            for st in blk:
                if isinstance(st, ast.Assign) and len(st.targets) == 1 and isinstance(st.targets[0], ast.Name) \
                        and isinstance(st.value, (ast.GeneratorExp, ast.ListComp)) and stores.get(st.targets[0].id) == 1 \
                        and loads.get(st.targets[0].id) == 1:
                    gens[st.targets[0].id] = (blk, st, st.value)
        done = False
        for blk in _blocks(fn):
            for i, st in enumerate(blk):
                if isinstance(st, ast.Expr) and isinstance(st.value, ast.YieldFrom):
                    # `yield from (e for x in xs if c)` -> `for x in xs: if c: yield e`
                    v = st.value.value
                    comp, src = None, None
                    if isinstance(v, (ast.GeneratorExp, ast.ListComp)):
                        comp = v
                    elif isinstance(v, ast.Name) and v.id in gens and gens[v.id][0] is blk:
                        src = gens[v.id]
                        comp = src[2]
                    if comp is not None and len(comp.generators) == 1 and not comp.generators[0].is_async:
                        g = comp.generators[0]
                        inner: List[ast.stmt] = [ast.copy_location(ast.Expr(value=ast.Yield(value=comp.elt)), st)]
                        for cond in reversed(g.ifs):
                            inner = [ast.copy_location(ast.If(test=cond, body=inner, orelse=[]), st)]
                        blk[i] = ast.copy_location(ast.For(target=g.target, iter=g.iter, body=inner, orelse=[]), st)
                        if src is not None:
                            blk.remove(src[1])
                        count += 1
                        done = True
                        break
                    continue
                if not isinstance(st, ast.For) or st.orelse:
                    continue
                comp = None
                src = None
                if isinstance(st.iter, (ast.GeneratorExp, ast.ListComp)):
                    comp = st.iter
                elif isinstance(st.iter, ast.Name) and st.iter.id in gens and gens[st.iter.id][0] is blk:
                    src = gens[st.iter.id]
                    comp = src[2]
                if comp is None or len(comp.generators) != 1 or comp.generators[0].is_async:
                    continue
                g = comp.generators[0]
                if src is not None:
                    # nothing between the binding and the loop may rebind what the generator reads
                    j = blk.index(src[1])
                    reads = {x.id for x in ast.walk(comp) if isinstance(x, ast.Name)}
                    between = {x.id for s_ in blk[j + 1:i] for x in ast.walk(s_) if isinstance(x, ast.Name) and isinstance(x.ctx, ast.Store)}
                    if reads & between:
                        continue
                inner: List[ast.stmt] = [ast.copy_location(ast.Assign(targets=[st.target], value=comp.elt), st)] + st.body
                for cond in reversed(g.ifs):
                    inner = [ast.copy_location(ast.If(test=cond, body=inner, orelse=[]), st)]
                new_for = ast.copy_location(ast.For(target=g.target, iter=g.iter, body=inner, orelse=[]), st)
                blk[i] = new_for
                if src is not None:
                    blk.remove(src[1])
                count += 1
                done = True
                break
            if done:
                break
        if not done:
            break
    return count


_OPERATOR_FUNCS = {"iadd": ("aug", ast.Add), "iconcat": ("aug", ast.Add), "add": ("bin", ast.Add), "concat": ("bin", ast.Add),
                   "or_": ("bin", ast.BitOr), "ior": ("aug", ast.BitOr), "and_": ("bin", ast.BitAnd), "iand": ("aug", ast.BitAnd)}
_BARE_OPERATORS = {"iadd", "iconcat", "concat", "ior", "iand"}  # names that are only plausible as `from operator import ...`


def unreduce(fn: ast.AST) -> int:
    """``t = reduce(lambda acc, x: e, xs, init)`` -> ``acc = init; for x in xs: acc = e; t = acc``"""
    count = 0
    taken = {x.id for x in ast.walk(fn) if isinstance(x, ast.Name)} | {a.arg for a in ast.walk(fn) if isinstance(a, ast.arg)}
    for blk in _blocks(fn):
        i = 0
        while i < len(blk):
            st = blk[i]
            i += 1
            if not (isinstance(st, (ast.Assign, ast.Return)) and isinstance(st.value, ast.Call)):
                continue
            c = st.value
            fnm = norm(c.func)
            if fnm not in ("reduce", "functools.reduce") or len(c.args) not in (2, 3) or c.keywords:
                continue
            opname = norm(c.args[0]) if isinstance(c.args[0], (ast.Name, ast.Attribute)) else ""
            opname = opname[len("operator."):] if opname.startswith("operator.") else (opname if opname in _BARE_OPERATORS else "")
            if opname in _OPERATOR_FUNCS:
                an, xn = "_h0_acc", "_h0_item"
                k = 0
                while an in taken or xn in taken:
                    k += 1
                    an, xn = f"_h0_acc{k}", f"_h0_item{k}"
                taken |= {an, xn}
                lam = ast.Lambda(args=ast.arguments(posonlyargs=[], args=[ast.arg(arg=an), ast.arg(arg=xn)], kwonlyargs=[], kw_defaults=[], defaults=[]),
                                 body=ast.copy_location(ast.BinOp(left=ast.Name(id=an, ctx=ast.Load()), op=_OPERATOR_FUNCS[opname][1](),
                                                                  right=ast.Name(id=xn, ctx=ast.Load())), c))
            elif isinstance(c.args[0], (ast.Name, ast.Attribute)):
                # reduce(f, xs, init) with a named function: as if written with `lambda acc, item: f(acc, item)`
                an, xn = "_h0_acc", "_h0_item"
                k = 0
                while an in taken or xn in taken:
                    k += 1
                    an, xn = f"_h0_acc{k}", f"_h0_item{k}"
                taken |= {an, xn}
                lam = ast.Lambda(args=ast.arguments(posonlyargs=[], args=[ast.arg(arg=an), ast.arg(arg=xn)], kwonlyargs=[], kw_defaults=[], defaults=[]),
                                 body=ast.copy_location(ast.Call(func=c.args[0], args=[ast.Name(id=an, ctx=ast.Load()), ast.Name(id=xn, ctx=ast.Load())],
                                                                 keywords=[]), c))
            elif isinstance(c.args[0], ast.Lambda):
                lam = c.args[0]
            else:
                continue
            ps = [a.arg for a in lam.args.args]
            if len(ps) != 2 or lam.args.vararg or lam.args.kwarg or lam.args.defaults:
                continue
            inner_taken = taken - set(ps)
            acc, x = ps
            sub: Dict[str, ast.AST] = {}
            if acc in inner_taken:
                count_name = f"_h0_{acc}"
                sub[acc] = ast.Name(id=count_name, ctx=ast.Load())
                acc = count_name
            if x in inner_taken:
                xn = f"_h0_{x}"
                sub[x] = ast.Name(id=xn, ctx=ast.Load())
                x = xn
            body = _Subst(sub).visit(copy.deepcopy(lam.body)) if sub else copy.deepcopy(lam.body)
            step: ast.stmt = ast.copy_location(ast.Assign(targets=[ast.Name(id=acc, ctx=ast.Store())], value=body), st)
            if opname in _OPERATOR_FUNCS and _OPERATOR_FUNCS[opname][0] == "aug":
                # operator.iadd(acc, x) is `acc += x`: in place when the accumulator is a list
                step = ast.copy_location(ast.AugAssign(target=ast.Name(id=acc, ctx=ast.Store()), op=_OPERATOR_FUNCS[opname][1](),
                                                       value=ast.Name(id=x, ctx=ast.Load())), st)
            xs = c.args[1]
            pre: List[ast.stmt] = []
            loop_target: ast.AST = ast.Name(id=x, ctx=ast.Store())
            if isinstance(xs, (ast.GeneratorExp, ast.ListComp)) and len(xs.generators) == 1 and not xs.generators[0].ifs and not xs.generators[0].is_async \
                    and not ({n_.id for n_ in ast.walk(xs.generators[0].target) if isinstance(n_, ast.Name)} & (taken - {acc, x})):
                # reduce(f, (e for y in ys), ...): one loop over ys, the item computed first
                pre = [ast.copy_location(ast.Assign(targets=[ast.Name(id=x, ctx=ast.Store())], value=xs.elt), st)]
                loop_target = xs.generators[0].target
                xs = xs.generators[0].iter
            if len(c.args) == 3:
                rep: List[ast.stmt] = [
                    ast.copy_location(ast.Assign(targets=[ast.Name(id=acc, ctx=ast.Store())], value=c.args[2]), st),
                    ast.copy_location(ast.For(target=loop_target, iter=xs, body=pre + [step], orelse=[]), st)]
            else:
                # no initial value: the first item is the accumulator itself (not a copy), an empty iterable is a TypeError
                flag = f"_h0_first_{acc}"
                taken.add(flag)
                first = ast.copy_location(ast.If(test=ast.Name(id=flag, ctx=ast.Load()), body=[
                    ast.copy_location(ast.Assign(targets=[ast.Name(id=acc, ctx=ast.Store())], value=ast.Name(id=x, ctx=ast.Load())), st),
                    ast.copy_location(ast.Assign(targets=[ast.Name(id=flag, ctx=ast.Store())], value=ast.Constant(value=False)), st)],
                    orelse=[step]), st)
                rep = [ast.copy_location(ast.Assign(targets=[ast.Name(id=flag, ctx=ast.Store())], value=ast.Constant(value=True)), st),
                       ast.copy_location(ast.For(target=loop_target, iter=xs, body=pre + [first], orelse=[]), st),
                       ast.copy_location(ast.If(test=ast.Name(id=flag, ctx=ast.Load()), body=[ast.copy_location(ast.Raise(
                           exc=ast.Call(func=ast.Name(id="TypeError", ctx=ast.Load()),
                                        args=[ast.Constant(value="reduce() of empty iterable with no initial value")], keywords=[]), cause=None), st)],
                           orelse=[]), st)]
            if isinstance(st, ast.Assign):
                if not (len(st.targets) == 1 and isinstance(st.targets[0], ast.Name) and st.targets[0].id == acc):
                    rep.append(ast.copy_location(ast.Assign(targets=st.targets, value=ast.Name(id=acc, ctx=ast.Load())), st))
            else:
                rep.append(ast.copy_location(ast.Return(value=ast.Name(id=acc, ctx=ast.Load())), st))
            blk[i - 1:i] = rep
            i += len(rep) - 1
            count += 1
    return count


def uncomprehend(fn: ast.AST, wants) -> int:
    """``t = [e for x in xs if c]`` -> ``t = []; for x in xs: if c: t.append(e)`` when ``wants(comprehension)`` (it contains
    a call that can only be expanded at statement level)"""
    count = 0
    for blk in _blocks(fn):
        i = 0
        while i < len(blk):
            st = blk[i]
            i += 1
            if not (isinstance(st, ast.Assign) and len(st.targets) == 1 and isinstance(st.targets[0], ast.Name)
                    and isinstance(st.value, ast.ListComp) and len(st.value.generators) == 1 and not st.value.generators[0].is_async):
                continue
            comp = st.value
            if not wants(comp):
                continue
            g = comp.generators[0]
            tname = st.targets[0].id
            reads = {x.id for x in ast.walk(comp) if isinstance(x, ast.Name) and isinstance(x.ctx, ast.Load)}
            out = tname
            pre: List[ast.stmt] = []
            post: List[ast.stmt] = []
            if tname in reads:
                out = f"_h0_{tname}"  # `xs = [.. for x in xs]`: build aside, then rebind
                post = [ast.copy_location(ast.Assign(targets=[ast.Name(id=tname, ctx=ast.Store())], value=ast.Name(id=out, ctx=ast.Load())), st)]
            inner: List[ast.stmt] = [ast.copy_location(ast.Expr(value=ast.Call(
                func=ast.Attribute(value=ast.Name(id=out, ctx=ast.Load()), attr="append", ctx=ast.Load()), args=[comp.elt], keywords=[])), st)]
            for cond in reversed(g.ifs):
                inner = [ast.copy_location(ast.If(test=cond, body=inner, orelse=[]), st)]
            rep = [ast.copy_location(ast.Assign(targets=[ast.Name(id=out, ctx=ast.Store())], value=ast.List(elts=[], ctx=ast.Load())), st),
                   ast.copy_location(ast.For(target=g.target, iter=g.iter, body=inner, orelse=[]), st)] + post
            blk[i - 1:i] = rep
            i += len(rep) - 1
            count += 1
    return count


def push_continuation(fn: ast.AST) -> int:
    """A temporary that is assigned at several places inside a one-shot ``while True`` (the returns of an inlined helper)
    and used once, by the assignment that directly follows the loop: that assignment is moved to each of those places."""
    count = 0
    for _ in range(20):
        done = False
        for blk in _blocks(fn):
            for i in range(len(blk) - 1):
                w, nxt = blk[i], blk[i + 1]
                if not (isinstance(w, ast.While) and isinstance(w.test, ast.Constant) and w.test.value is True and not w.orelse):
                    continue
                if isinstance(nxt, ast.If) and isinstance(nxt.test, ast.UnaryOp) and isinstance(nxt.test.op, ast.Not) \
                        and isinstance(nxt.test.operand, ast.Name) and _is_temp(nxt.test.operand.id):
                    # `if not t: A else: B` is `if t: B else: A`
                    nxt.test, nxt.body, nxt.orelse = nxt.test.operand, (nxt.orelse or [ast.copy_location(ast.Pass(), nxt)]), nxt.body
                if isinstance(nxt, ast.If) and isinstance(nxt.test, ast.Name) and _is_temp(nxt.test.id) and _push_if(fn, blk, i, w, nxt):
                    count += 1
                    done = True
                    break
                if not isinstance(nxt, (ast.Assign, ast.AugAssign, ast.Expr, ast.Return)) or nxt.value is None:
                    continue
                uses = [x for x in _safe_names(nxt.value) if _is_temp(x.id)]
                for u in uses:
                    nm = u.id
                    total_loads = sum(1 for x in ast.walk(fn) if isinstance(x, ast.Name) and x.id == nm and isinstance(x.ctx, ast.Load))
                    sites = [(b2, s_) for b2 in _blocks(w) for s_ in b2 if isinstance(s_, ast.Assign) and len(s_.targets) == 1
                             and isinstance(s_.targets[0], ast.Name) and s_.targets[0].id == nm]
                    all_stores = sum(1 for x in ast.walk(fn) if isinstance(x, ast.Name) and x.id == nm and isinstance(x.ctx, ast.Store))
                    if total_loads != 1 or len(sites) < 2 or len(sites) != all_stores:
                        continue
                    # only worth it (and only done) when the values are tuple displays that the moved statement takes apart:
                    # for plain values the data flow says the same and nothing gets duplicated
                    if not all(isinstance(s_.value, ast.Tuple) for _, s_ in sites):
                        continue
                    # what the moved assignment writes may not be read inside the loop after the sites; keep it simple: the
                    # sites are each directly followed by `break`
                    if not all(b2.index(s_) + 1 < len(b2) and isinstance(b2[b2.index(s_) + 1], ast.Break) for b2, s_ in sites):
                        continue
                    for b2, s_ in sites:
                        moved = copy.deepcopy(nxt)
                        for x in ast.walk(moved):
                            pass
                        tgt_use = [x for x in _safe_names(moved.value) if x.id == nm][0]
                        _Replace(tgt_use, s_.value).visit(moved)
                        b2[b2.index(s_)] = ast.copy_location(moved, s_)
                    del blk[i + 1]
                    count += 1
                    done = True
                    break
                if done:
                    break
            if done:
                break
        if not done:
            break
    return count


def _push_if(fn: ast.AST, blk: List[ast.stmt], i: int, w: ast.While, nxt: ast.If) -> bool:
    """``while True: .. _t = True; break .. _t = False; break`` + ``if _t: A else: B``  ->  A / B at the respective places"""
    nm = nxt.test.id
    total_loads = sum(1 for x in ast.walk(fn) if isinstance(x, ast.Name) and x.id == nm and isinstance(x.ctx, ast.Load))
    sites = [(b2, s_) for b2 in _blocks(w) for s_ in b2 if isinstance(s_, ast.Assign) and len(s_.targets) == 1
             and isinstance(s_.targets[0], ast.Name) and s_.targets[0].id == nm]
    all_stores = sum(1 for x in ast.walk(fn) if isinstance(x, ast.Name) and x.id == nm and isinstance(x.ctx, ast.Store))
    if total_loads != 1 or not sites or len(sites) != all_stores:
        return False
    if not all(isinstance(s_.value, ast.Constant) and isinstance(s_.value.value, bool) for _, s_ in sites):
        return False
    if not all(b2.index(s_) + 1 < len(b2) and isinstance(b2[b2.index(s_) + 1], ast.Break) for b2, s_ in sites):
        return False
    # the moved branches run inside the one-shot loop: they may not contain a break / continue of their own level
    if _own_level(nxt.body, (ast.Break, ast.Continue)) or _own_level(nxt.orelse, (ast.Break, ast.Continue)):
        return False
    for b2, s_ in sites:
        branch = nxt.body if s_.value.value else nxt.orelse
        k = b2.index(s_)
        b2[k:k + 1] = [copy.deepcopy(x) for x in branch]
    del blk[i + 1]
    return True


def fold_tuples(fn: ast.AST) -> int:
    """``(a,) + (b, c)`` -> ``(a, b, c)``; ``x, y = (e1, e2)`` -> ``x = e1; y = e2`` when no later element reads an earlier
    target (the right-hand side is evaluated as a whole in the original)"""
    count = 0

    class T(ast.NodeTransformer):
        def visit_BinOp(self, n: ast.BinOp):
            nonlocal count
            self.generic_visit(n)
            if isinstance(n.op, ast.Add) and isinstance(n.left, ast.Tuple) and isinstance(n.right, ast.Tuple) \
                    and not any(isinstance(e, ast.Starred) for e in n.left.elts + n.right.elts):
                count += 1
                return ast.copy_location(ast.Tuple(elts=n.left.elts + n.right.elts, ctx=ast.Load()), n)
            return n

    T().visit(fn)
    for blk in _blocks(fn):
        i = 0
        while i < len(blk):
            st = blk[i]
            i += 1
            if not (isinstance(st, ast.Assign) and len(st.targets) == 1 and isinstance(st.targets[0], ast.Tuple)
                    and isinstance(st.value, ast.Tuple) and len(st.targets[0].elts) == len(st.value.elts)):
                continue
            ts, vs = st.targets[0].elts, st.value.elts
            if not all(isinstance(t, ast.Name) for t in ts) or any(isinstance(v, ast.Starred) for v in vs):
                continue
            ok = True
            for j in range(len(vs)):
                reads = {x.id for x in ast.walk(vs[j]) if isinstance(x, ast.Name)}
                if reads & {t.id for t in ts[:j]}:
                    ok = False
            if not ok:
                continue
            rep = [ast.copy_location(ast.Assign(targets=[t], value=v), st) for t, v in zip(ts, vs)
                   if not (isinstance(v, ast.Name) and v.id == t.id)]
            blk[i - 1:i] = rep or [ast.copy_location(ast.Pass(), st)]
            i += len(rep or [1]) - 1
            count += 1
    return count


# ------------------------------------------------------------------------------------------------ control-flow normal form
def _terminal(stmts: List[ast.stmt]) -> bool:
    """the block cannot fall through"""
    if not stmts:
        return False
    last = stmts[-1]
    if isinstance(last, (ast.Return, ast.Raise, ast.Continue, ast.Break)):
        return True
    if isinstance(last, ast.If):
        return bool(last.orelse) and _terminal(last.body) and _terminal(last.orelse)
    return False


def _pure_name(e: ast.AST) -> bool:
    return isinstance(e, ast.Name)


def _own_continues(s: ast.stmt):
    if isinstance(s, ast.Continue):
        yield s
        return
    if isinstance(s, (ast.For, ast.While, ast.FunctionDef, ast.ClassDef)):
        if isinstance(s, (ast.For, ast.While)):
            for x in s.orelse:
                yield from _own_continues(x)
        return
    for fld in ("body", "orelse", "finalbody"):
        sub = getattr(s, fld, None)
        if isinstance(sub, list):
            for x in sub:
                if isinstance(x, ast.stmt):
                    yield from _own_continues(x)
    for h in getattr(s, "handlers", []) or []:
        for x in h.body:
            yield from _own_continues(x)


def _unwrap_oneshot(stmts: List[ast.stmt], budget: List[int]) -> Optional[List[ast.stmt]]:
    """the body of a `while True:` every path of which ends in break / return / raise, as straight-line code with if / else:
    `if c: A; break` + REST  ->  `if c: A` / `else: REST`.  None when a path falls through to the next iteration or when the
    rewriting would copy statements more than the budget allows."""
    if not stmts:
        return None  # falls through: a real loop
    s, rest = stmts[0], stmts[1:]
    if isinstance(s, ast.Break):
        return []
    if isinstance(s, (ast.Return, ast.Raise)):
        return [s]
    if isinstance(s, ast.If):
        body_falls = not _terminal(s.body)
        else_falls = not s.orelse or not _terminal(s.orelse)
        if body_falls and else_falls and rest:
            budget[0] -= len(rest)
            if budget[0] < 0:
                return None
        nb = _unwrap_oneshot(list(s.body) + ([copy.deepcopy(x) for x in rest] if body_falls else []), budget)
        ne = _unwrap_oneshot(list(s.orelse) + (list(rest) if else_falls else []), budget)
        if nb is None or ne is None:
            return None
        out_if = ast.copy_location(ast.If(test=s.test, body=nb or [ast.copy_location(ast.Pass(), s)], orelse=ne), s)
        return [out_if]
    if isinstance(s, ast.With) and s.body and isinstance(s.body[-1], ast.Break) and not any(True for b_ in s.body[:-1] for _ in _own_breaks(b_)) \
            and not any(True for _ in _own_continues(s)) and len(s.body) > 1:
        # `with cm: ...; break`: leaving the block through break runs the same __exit__ as falling out of it
        return [ast.copy_location(ast.With(items=s.items, body=s.body[:-1]), s)]
    if any(True for _ in _own_breaks(s)) or any(True for _ in _own_continues(s)):
        return None
    tail = _unwrap_oneshot(rest, budget)
    return None if tail is None else [s] + tail


_MISSING = object()
_MARKER = object()
_NOT_MARKER = object()


def _sentinel_of(e: ast.AST) -> Optional[str]:
    """a value that can serve as 'no result' marker: None / False / a free name written in capitals or with a leading underscore"""
    if isinstance(e, ast.Constant) and (e.value is None or e.value is False):
        return repr(e.value)
    if isinstance(e, ast.Name) and (e.id.isupper() or e.id.startswith("_")) and not e.id.startswith("_h"):
        return e.id
    return None


def control_flow_normal_form(fn: ast.AST) -> int:
    """Equivalent spellings of one decision are brought to one form (all steps preserve behaviour):
    conditional expressions that are the whole value of a return / yield / assignment become if statements; a `return v`
    that follows an if / elif chain is moved into its branches, and `v = e; return v` becomes `return e`;
    `if not v: return d` + `return v` becomes `return v or d`, `if not v: v = d` becomes `v = v or d`;
    a for/else whose loop only leaves by `break` and whose continuation is terminal gets the continuation at the breaks;
    `for x in xs: if c: break` + `else:` becomes `if not any(c for x in xs):`; a flag loop becomes `flag = any([..])`."""
    total = 0
    for _ in range(12):
        changed = 0
        for blk in list(_blocks(fn)):
            i = 0
            while i < len(blk):
                st = blk[i]
                nxt = blk[i + 1] if i + 1 < len(blk) else None
                # N10 a one-shot `while True:` (what an inlined helper with early returns leaves behind) -> if / elif / else
                if isinstance(st, ast.While) and isinstance(st.test, ast.Constant) and st.test.value is True and not st.orelse \
                        and not any(True for b_ in st.body for _ in _own_continues(b_)):
                    flat = _unwrap_oneshot(list(st.body), [12])
                    if flat is not None:
                        blk[i:i + 1] = flat
                        changed += 1
                        continue
                # N11 `if ..: v = K else: v = e` ; `if v is K: <terminal>`  ->  the terminal block goes where K is assigned
                if isinstance(st, ast.If) and st.orelse and isinstance(nxt, ast.If) and isinstance(nxt.test, ast.Compare) and len(nxt.test.ops) == 1 \
                        and isinstance(nxt.test.ops[0], ast.Is) and _pure_name(nxt.test.left) and _sentinel_of(nxt.test.comparators[0]) \
                        and _terminal(nxt.body) and _stmt_count_block(nxt.body) <= 6:
                    vname, k = nxt.test.left.id, _sentinel_of(nxt.test.comparators[0])

                    def leaves(node: ast.If):
                        out_ = [node.body]
                        if len(node.orelse) == 1 and isinstance(node.orelse[0], ast.If):
                            out_ += leaves(node.orelse[0])
                        else:
                            out_.append(node.orelse)
                        return out_
                    lv = leaves(st)
                    hits = [b_ for b_ in lv if b_ and isinstance(b_[-1], ast.Assign) and len(b_[-1].targets) == 1 and _pure_name(b_[-1].targets[0])
                            and b_[-1].targets[0].id == vname and _sentinel_of(b_[-1].value) == k]
                    reads_v = any(isinstance(x, ast.Name) and x.id == vname for y in nxt.body for x in ast.walk(y))
                    if hits and all(b_ for b_ in lv) and not getattr(nxt, "_n11_done", False):
                        for b_ in hits:
                            b_[-1:] = ([b_[-1]] if reads_v else []) + [copy.deepcopy(x) for x in nxt.body]
                        nxt._n11_done = True
                        changed += 1
                        continue
                # N11b every branch binds `v` to a constant, then `if v:` / `if not v:` / `if v is K:` -> each branch gets the arm it selects
                if isinstance(st, ast.If) and st.orelse and isinstance(nxt, ast.If) and not getattr(nxt, "_n11_done", False):
                    tst = nxt.test
                    neg = False
                    if isinstance(tst, ast.UnaryOp) and isinstance(tst.op, ast.Not):
                        tst, neg = tst.operand, True
                    vname = tst.id if isinstance(tst, ast.Name) else (
                        tst.left.id if isinstance(tst, ast.Compare) and len(tst.ops) == 1 and isinstance(tst.ops[0], (ast.Is, ast.IsNot))
                        and isinstance(tst.left, ast.Name) and (isinstance(tst.comparators[0], ast.Constant) or (
                            isinstance(tst.comparators[0], ast.Name) and tst.comparators[0].id.startswith("_")
                            and tst.comparators[0].id.strip("_").isupper())) else None)
                    if vname:
                        def leaves2(node: ast.If):
                            out_ = [node.body]
                            if len(node.orelse) == 1 and isinstance(node.orelse[0], ast.If):
                                out_ += leaves2(node.orelse[0])
                            else:
                                out_.append(node.orelse)
                            return out_
                        lv = leaves2(st)
                        assigns_v = [b_ and isinstance(b_[-1], ast.Assign) and len(b_[-1].targets) == 1 and _pure_name(b_[-1].targets[0])
                                     and b_[-1].targets[0].id == vname for b_ in lv]
                        consts = [b_[-1].value.value if ok_ and isinstance(b_[-1].value, ast.Constant) else _MISSING for b_, ok_ in zip(lv, assigns_v)]
                        # an identity marker (`_AMBIGUOUS = object()`): a branch either binds the marker or something that is not it
                        marker = tst.comparators[0].id if isinstance(tst, ast.Compare) and isinstance(tst.comparators[0], ast.Name) else None
                        if marker is not None:
                            consts = [(_MARKER if isinstance(b_[-1].value, ast.Name) and b_[-1].value.id == marker else _NOT_MARKER) if ok_ else _MISSING
                                      for b_, ok_ in zip(lv, assigns_v)]
                        loads = sum(1 for x in ast.walk(fn) if isinstance(x, ast.Name) and x.id == vname and isinstance(x.ctx, ast.Load))
                        size = _stmt_count_block(nxt.body) + _stmt_count_block(nxt.orelse)
                        # a leaf that binds the flag to an expression gets the test itself (truth test of the flag only)
                        n_expr = sum(1 for c_ in consts if c_ is _MISSING)
                        computed_ok = isinstance(tst, ast.Name) and n_expr <= 1 and loads == 1 and any(c_ is not _MISSING for c_ in consts)
                        if all(assigns_v) and (n_expr == 0 or computed_ok) and size * len(lv) <= 24:
                            for b_, c_ in zip(lv, consts):
                                if c_ is _MISSING:
                                    cond = b_[-1].value
                                    if neg:
                                        cond = ast.UnaryOp(op=ast.Not(), operand=cond)
                                    b_[-1:] = [ast.copy_location(ast.If(test=cond, body=[copy.deepcopy(x) for x in nxt.body] or [ast.Pass()],
                                                                        orelse=[copy.deepcopy(x) for x in nxt.orelse]), b_[-1])]
                                    continue
                                if isinstance(tst, ast.Name):
                                    outcome = bool(c_)
                                else:
                                    same = (c_ is _MARKER) if marker is not None else (c_ is tst.comparators[0].value)
                                    outcome = same if isinstance(tst.ops[0], ast.Is) else not same
                                outcome = (not outcome) if neg else outcome
                                arm = nxt.body if outcome else nxt.orelse
                                b_[-1:] = ([b_[-1]] if loads > 1 else []) + [copy.deepcopy(x) for x in arm]
                                if not b_:
                                    b_.append(ast.copy_location(ast.Pass(), nxt))
                            del blk[i + 1]
                            changed += 1
                            continue
                # N1 conditional expression as the whole value
                if isinstance(st, ast.Return) and isinstance(st.value, ast.IfExp):
                    v = st.value
                    blk[i] = ast.copy_location(ast.If(test=v.test, body=[ast.copy_location(ast.Return(value=v.body), st)],
                                                      orelse=[ast.copy_location(ast.Return(value=v.orelse), st)]), st)
                    changed += 1
                    continue
                if isinstance(st, ast.Expr) and isinstance(st.value, ast.Yield) and isinstance(st.value.value, ast.IfExp):
                    v = st.value.value
                    blk[i] = ast.copy_location(ast.If(test=v.test, body=[ast.copy_location(ast.Expr(value=ast.Yield(value=v.body)), st)],
                                                      orelse=[ast.copy_location(ast.Expr(value=ast.Yield(value=v.orelse)), st)]), st)
                    changed += 1
                    continue
                if isinstance(st, ast.Assign) and len(st.targets) == 1 and isinstance(st.value, ast.IfExp) and isinstance(st.targets[0], (ast.Name, ast.Attribute)):
                    v = st.value
                    blk[i] = ast.copy_location(ast.If(test=v.test, body=[ast.copy_location(ast.Assign(targets=[copy.deepcopy(st.targets[0])], value=v.body), st)],
                                                      orelse=[ast.copy_location(ast.Assign(targets=[copy.deepcopy(st.targets[0])], value=v.orelse), st)]), st)
                    changed += 1
                    continue
                # N3 `v = e; return v`
                if isinstance(st, ast.Assign) and len(st.targets) == 1 and _pure_name(st.targets[0]) and isinstance(nxt, ast.Return) \
                        and _pure_name(nxt.value) and nxt.value.id == st.targets[0].id and not isinstance(st.value, (ast.Yield, ast.YieldFrom, ast.Await)):
                    blk[i:i + 2] = [ast.copy_location(ast.Return(value=st.value), st)]
                    changed += 1
                    continue
                # N4 `if not v: return d` ; `return v`   and   `if not v: v = d`
                if isinstance(st, ast.If) and not st.orelse and len(st.body) == 1 and isinstance(st.test, ast.UnaryOp) and isinstance(st.test.op, ast.Not) \
                        and _pure_name(st.test.operand):
                    vname = st.test.operand.id
                    b0 = st.body[0]
                    if isinstance(b0, ast.Return) and b0.value is not None and isinstance(nxt, ast.Return) and _pure_name(nxt.value) and nxt.value.id == vname:
                        blk[i:i + 2] = [ast.copy_location(ast.Return(value=ast.BoolOp(op=ast.Or(), values=[ast.Name(id=vname, ctx=ast.Load()), b0.value])), st)]
                        changed += 1
                        continue
                    if isinstance(b0, ast.Assign) and len(b0.targets) == 1 and _pure_name(b0.targets[0]) and b0.targets[0].id == vname:
                        blk[i] = ast.copy_location(ast.Assign(targets=[ast.Name(id=vname, ctx=ast.Store())],
                                                              value=ast.BoolOp(op=ast.Or(), values=[ast.Name(id=vname, ctx=ast.Load()), b0.value])), st)
                        changed += 1
                        continue
                # `if v: return v else: return d`
                if isinstance(st, ast.If) and _pure_name(st.test) and len(st.body) == 1 and len(st.orelse) == 1 and isinstance(st.body[0], ast.Return) \
                        and isinstance(st.orelse[0], ast.Return) and _pure_name(st.body[0].value) and st.body[0].value.id == st.test.id \
                        and st.orelse[0].value is not None:
                    blk[i] = ast.copy_location(ast.Return(value=ast.BoolOp(op=ast.Or(), values=[ast.Name(id=st.test.id, ctx=ast.Load()), st.orelse[0].value])), st)
                    changed += 1
                    continue
                # N9 `if v: T = v else: T = d`  ->  `T = v or d`
                if isinstance(st, ast.If) and _pure_name(st.test) and len(st.body) == 1 and len(st.orelse) == 1 and isinstance(st.body[0], ast.Assign) \
                        and isinstance(st.orelse[0], ast.Assign) and len(st.body[0].targets) == 1 and len(st.orelse[0].targets) == 1 \
                        and norm(st.body[0].targets[0]) == norm(st.orelse[0].targets[0]) and _pure_name(st.body[0].value) \
                        and st.body[0].value.id == st.test.id:
                    blk[i] = ast.copy_location(ast.Assign(targets=st.body[0].targets, value=ast.BoolOp(op=ast.Or(), values=[
                        ast.Name(id=st.test.id, ctx=ast.Load()), st.orelse[0].value])), st)
                    changed += 1
                    continue
                # N2 a return after an if chain goes into the branches
                if isinstance(st, ast.If) and isinstance(nxt, ast.Return) and i + 2 == len(blk) and not _terminal([st]):
                    def sink(node: ast.If):
                        if not _terminal(node.body):
                            node.body.append(copy.deepcopy(nxt))
                        if len(node.orelse) == 1 and isinstance(node.orelse[0], ast.If):
                            sink(node.orelse[0])
                        elif not node.orelse:
                            node.orelse = [copy.deepcopy(nxt)]
                        elif not _terminal(node.orelse):
                            node.orelse.append(copy.deepcopy(nxt))
                    if _stmt_count_block([st]) <= 40:
                        sink(st)
                        del blk[i + 1]
                        changed += 1
                        continue
                # N8 `if c: t = a else: t = b` ; `<use of t, once>`  ->  the use goes into both branches
                if isinstance(st, ast.If) and st.orelse and isinstance(nxt, (ast.Expr, ast.Return, ast.Assign)) and st.body and \
                        isinstance(st.body[-1], ast.Assign) and isinstance(st.orelse[-1], ast.Assign) and len(st.orelse) >= 1 \
                        and not (len(st.orelse) == 1 and isinstance(st.orelse[0], ast.If)):
                    a_, b_ = st.body[-1], st.orelse[-1]
                    if len(a_.targets) == 1 and len(b_.targets) == 1 and _pure_name(a_.targets[0]) and _pure_name(b_.targets[0]) \
                            and a_.targets[0].id == b_.targets[0].id:
                        tname = a_.targets[0].id
                        loads = [x for x in ast.walk(fn) if isinstance(x, ast.Name) and x.id == tname and isinstance(x.ctx, ast.Load)]
                        stores = [x for x in ast.walk(fn) if isinstance(x, ast.Name) and x.id == tname and isinstance(x.ctx, ast.Store)]
                        uses = [x for e_ in _stmt_exprs(nxt) for x in _safe_names(e_) if x.id == tname]
                        if len(loads) == 1 and len(uses) == 1 and len(stores) == 2 and nxt.value is not None:
                            for branch, asg in ((st.body, a_), (st.orelse, b_)):
                                moved = copy.deepcopy(nxt)
                                u = [x for e_ in _stmt_exprs(moved) for x in _safe_names(e_) if x.id == tname][0]
                                _Replace(u, asg.value).visit(moved)
                                branch[-1] = ast.copy_location(moved, asg)
                            del blk[i + 1]
                            changed += 1
                            continue
                # N5 for/else: the loop only leaves by break, what follows is terminal -> it goes to the breaks
                if isinstance(st, ast.For) and st.orelse and _terminal(st.orelse) and i + 1 < len(blk):
                    rest = blk[i + 1:]
                    brks = [b for b in _own_breaks_list(st.body)]
                    if _terminal(rest) and brks and len(rest) <= 4 and not any(isinstance(x, (ast.Break, ast.Continue)) for r_ in rest for x in ast.walk(r_)):
                        if _replace_breaks(st.body, rest):
                            orelse = st.orelse
                            st.orelse = []
                            blk[i + 1:] = orelse
                            changed += 1
                            continue
                # N7a `for x in xs: if c: break` + else
                if isinstance(st, ast.For) and st.orelse and len(st.body) == 1 and isinstance(st.body[0], ast.If) and not st.body[0].orelse \
                        and len(st.body[0].body) == 1 and isinstance(st.body[0].body[0], ast.Break):
                    gen = ast.GeneratorExp(elt=st.body[0].test, generators=[ast.comprehension(target=st.target, iter=st.iter, ifs=[], is_async=0)])
                    test = ast.UnaryOp(op=ast.Not(), operand=ast.Call(func=ast.Name(id="any", ctx=ast.Load()), args=[gen], keywords=[]))
                    blk[i] = ast.copy_location(ast.If(test=test, body=st.orelse, orelse=[]), st)
                    changed += 1
                    continue
                # N7c `for x in xs: if c: BODY; break` + else: ELSE  (BODY does not read x)  ->  `if any(c for x in xs): BODY else: ELSE`
                if isinstance(st, ast.For) and st.orelse and len(st.body) == 1 and isinstance(st.body[0], ast.If) and not st.body[0].orelse \
                        and len(st.body[0].body) >= 2 and isinstance(st.body[0].body[-1], ast.Break):
                    inner = st.body[0].body[:-1]
                    tnames = {x.id for x in ast.walk(st.target) if isinstance(x, ast.Name)}
                    in_loop = {id(x) for x in ast.walk(st.body[0].test)} | {id(x) for x in ast.walk(st.target)}
                    reads_elsewhere = any(isinstance(x, ast.Name) and x.id in tnames and id(x) not in in_loop for x in ast.walk(fn))
                    if not reads_elsewhere and not any(isinstance(x, (ast.Break, ast.Continue)) for y in inner for x in ast.walk(y)):
                        gen = ast.GeneratorExp(elt=st.body[0].test, generators=[ast.comprehension(target=st.target, iter=st.iter, ifs=[], is_async=0)])
                        test = ast.Call(func=ast.Name(id="any", ctx=ast.Load()), args=[gen], keywords=[])
                        blk[i] = ast.copy_location(ast.If(test=test, body=inner, orelse=st.orelse), st)
                        changed += 1
                        continue
                # N7b flag loop: `f = False; for x in xs: if c: f = True`
                if isinstance(st, ast.Assign) and len(st.targets) == 1 and _pure_name(st.targets[0]) and isinstance(st.value, ast.Constant) \
                        and st.value.value is False and isinstance(nxt, ast.For) and not nxt.orelse and len(nxt.body) == 1 \
                        and isinstance(nxt.body[0], ast.If) and not nxt.body[0].orelse and len(nxt.body[0].body) == 1:
                    a = nxt.body[0].body[0]
                    if isinstance(a, ast.Assign) and len(a.targets) == 1 and _pure_name(a.targets[0]) and a.targets[0].id == st.targets[0].id \
                            and isinstance(a.value, ast.Constant) and a.value.value is True:
                        lst = ast.ListComp(elt=nxt.body[0].test, generators=[ast.comprehension(target=nxt.target, iter=nxt.iter, ifs=[], is_async=0)])
                        blk[i:i + 2] = [ast.copy_location(ast.Assign(targets=[st.targets[0]], value=ast.Call(func=ast.Name(id="any", ctx=ast.Load()),
                                                                                                                args=[lst], keywords=[])), st)]
                        changed += 1
                        continue
                i += 1
        total += changed
        if not changed:
            break

    class Flat(ast.NodeTransformer):
        """`a or (b or c)` is `a or b or c`"""
        def visit_BoolOp(self, n: ast.BoolOp):
            self.generic_visit(n)
            vals = []
            for v in n.values:
                if isinstance(v, ast.BoolOp) and type(v.op) is type(n.op):
                    vals += v.values
                else:
                    vals.append(v)
            n.values = vals
            return n

    if total:
        Flat().visit(fn)
    return total


def _stmt_count_block(stmts) -> int:
    return sum(1 for s in stmts for n in ast.walk(s) if isinstance(n, ast.stmt))


def _own_breaks_list(stmts: List[ast.stmt]) -> List[ast.Break]:
    out = []
    for s in stmts:
        out += list(_own_breaks(s))
    return out


def _replace_breaks(stmts: List[ast.stmt], rest: List[ast.stmt]) -> bool:
    """every own-level `break` of the loop body -> a copy of ``rest``"""
    done = False
    i = 0
    while i < len(stmts):
        s = stmts[i]
        if isinstance(s, ast.Break):
            stmts[i:i + 1] = [copy.deepcopy(r) for r in rest]
            i += len(rest)
            done = True
            continue
        if isinstance(s, (ast.For, ast.While, ast.FunctionDef, ast.ClassDef)):
            if isinstance(s, (ast.For, ast.While)) and _replace_breaks(s.orelse, rest):
                done = True
        else:
            for fld in ("body", "orelse", "finalbody"):
                sub = getattr(s, fld, None)
                if isinstance(sub, list) and sub and isinstance(sub[0], ast.stmt) and _replace_breaks(sub, rest):
                    done = True
            for h in getattr(s, "handlers", []) or []:
                if _replace_breaks(h.body, rest):
                    done = True
        i += 1
    return done


# ------------------------------------------------------------------------------------------------ literal indirections
def fold_literal_indirections(fn: ast.AST) -> int:
    """``getattr(x, 'name')`` -> ``x.name``;  ``f(a, **{'k': v})`` -> ``f(a, k=v)``"""
    count = 0

    class G(ast.NodeTransformer):
        def visit_Call(self, c: ast.Call):
            nonlocal count
            self.generic_visit(c)
            new_kw = []
            for k in c.keywords:
                if k.arg is None and isinstance(k.value, ast.Dict) and all(
                        isinstance(x, ast.Constant) and isinstance(x.value, str) and x.value.isidentifier() for x in k.value.keys):
                    new_kw += [ast.keyword(arg=x.value, value=v) for x, v in zip(k.value.keys, k.value.values)]
                    count += 1
                else:
                    new_kw.append(k)
            c.keywords = new_kw
            if isinstance(c.func, ast.Name) and c.func.id == "getattr" and len(c.args) == 2 and not c.keywords \
                    and isinstance(c.args[1], ast.Constant) and isinstance(c.args[1].value, str) and c.args[1].value.isidentifier():
                count += 1
                return ast.copy_location(ast.Attribute(value=c.args[0], attr=c.args[1].value, ctx=ast.Load()), c)
            return c

    G().visit(fn)
    return count


# ------------------------------------------------------------------------------------------------ constant tests
def fold_constant_tests(fn: ast.AST) -> int:
    """``not True`` / ``False and x`` / ``if False: ..`` left behind by a literal argument: evaluated"""
    count = 0

    def truth(e: ast.AST) -> Optional[bool]:
        if isinstance(e, ast.Constant) and isinstance(e.value, (bool, int, str, type(None))):
            return bool(e.value)
        return None

    class E(ast.NodeTransformer):
        def visit_UnaryOp(self, n: ast.UnaryOp):
            nonlocal count
            self.generic_visit(n)
            if isinstance(n.op, ast.Not):
                t = truth(n.operand)
                if t is not None:
                    count += 1
                    return ast.copy_location(ast.Constant(value=not t), n)
            return n

        def visit_BoolOp(self, n: ast.BoolOp):
            nonlocal count
            self.generic_visit(n)
            is_and = isinstance(n.op, ast.And)
            vals = []
            for v in n.values:
                t = truth(v)
                if t is None:
                    vals.append(v)
                    continue
                if t != is_and:
                    # False in an `and` / True in an `or`: decided here (what came before has no side effect we keep only if constant)
                    if not vals:
                        count += 1
                        return ast.copy_location(ast.Constant(value=not is_and) if isinstance(v.value, bool) else v, n)
                    vals.append(v)
                    break
                count += 1  # True in an `and` / False in an `or`: dropped
            if not vals:
                return ast.copy_location(ast.Constant(value=is_and), n)
            if len(vals) == 1:
                return vals[0]
            n.values = vals
            return n

    E().visit(fn)
    for blk in _blocks(fn):
        i = 0
        while i < len(blk):
            st = blk[i]
            i += 1
            if isinstance(st, ast.If):
                t = truth(st.test)
                if t is None:
                    continue
                rep = st.body if t else st.orelse
                blk[i - 1:i] = rep or ([ast.copy_location(ast.Pass(), st)] if len(blk) == 1 else [])
                i += len(rep) - 1
                count += 1
    return count


# ------------------------------------------------------------------------------------------------ class constants
def fold_module_constants(p: Program, scope: FunctionInfo, fn: ast.AST, vocab: Set[str]) -> int:
    """a module-level name bound once to a string / number literal, never declared global, named like a constant (capitals or a leading
    underscore) and mentioned by no rule -> the literal.  `_LAST_SYMBOL = ">"` ... `value=_LAST_SYMBOL` reads `value='>'`."""
    m = scope.module
    if m.kind not in ("library", "config"):
        return 0
    local = {a.arg for a in ast.walk(fn) if isinstance(a, ast.arg)} | {x.id for x in ast.walk(fn) if isinstance(x, ast.Name) and isinstance(x.ctx, (ast.Store, ast.Del))}
    declared_global = {nm for g in ast.walk(m.tree) if isinstance(g, ast.Global) for nm in g.names}
    count = 0

    class F(ast.NodeTransformer):
        def visit_Name(self, n: ast.Name):
            nonlocal count
            if not isinstance(n.ctx, ast.Load) or n.id in local or n.id in declared_global or n.id in vocab:
                return n
            if not (n.id.isupper() or (n.id.startswith("_") and not n.id.startswith("__"))):
                return n
            bs = m.bindings.get(n.id) or []
            if len(bs) != 1 or bs[0].kind != "assign":
                return n
            if isinstance(bs[0].value, ast.Tuple) and bs[0].value.elts and all(isinstance(e_, ast.Constant) and (
                    e_.value is None or isinstance(e_.value, (str, int))) for e_ in bs[0].value.elts):
                count += 1
                return ast.copy_location(copy.deepcopy(bs[0].value), n)  # an immutable tuple of literals, e.g. `_UNRESOLVED = (None, None)`
            if not isinstance(bs[0].value, ast.Constant):
                return n
            v = bs[0].value.value
            if isinstance(v, bool) or not isinstance(v, (str, int)):
                return n
            count += 1
            return ast.copy_location(ast.Constant(value=v), n)

    F().visit(fn)
    if count:
        class J(ast.NodeTransformer):
            """f'{'v'}{n:03d}' (a folded constant inside an f-string) reads f'v{n:03d}'"""
            def visit_JoinedStr(self, n: ast.JoinedStr):
                self.generic_visit(n)
                vals = []
                for v in n.values:
                    if isinstance(v, ast.FormattedValue) and isinstance(v.value, ast.Constant) and isinstance(v.value.value, str) \
                            and v.conversion == -1 and v.format_spec is None:
                        v = ast.copy_location(ast.Constant(value=v.value.value), v)
                    if isinstance(v, ast.Constant) and vals and isinstance(vals[-1], ast.Constant):
                        vals[-1] = ast.copy_location(ast.Constant(value=str(vals[-1].value) + str(v.value)), vals[-1])
                    else:
                        vals.append(v)
                n.values = vals
                return n
        J().visit(fn)
    return count


_FINAL_ATTR_WRITERS = ("__init__", "_init", "__new__", "__setstate__")


def eliminate_final_attr_aliases(p: Program, scope: FunctionInfo, fn: ast.AST) -> int:
    """`v = self.attr` (one binding of v, attr assigned nowhere in the program outside the constructors) ... uses of v -> `self.attr`"""
    finals = getattr(p, "_final_attrs", None)
    if finals is None:
        written: Dict[str, Set[str]] = {}
        for f in p.functions.values():
            if f.module.kind == "dep":
                continue
            for n in ast.walk(f.node):
                if isinstance(n, ast.Attribute) and isinstance(n.ctx, (ast.Store, ast.Del)):
                    written.setdefault(n.attr, set()).add(f.name)
                elif isinstance(n, ast.Call) and isinstance(n.func, ast.Name) and n.func.id == "setattr":
                    written.setdefault("*", set()).add(f.name)
        for m_ in p.modules.values():
            if m_.kind == "dep":
                continue
            for st in m_.tree.body:
                for n in ast.walk(st) if not isinstance(st, (ast.FunctionDef, ast.ClassDef)) else []:
                    if isinstance(n, ast.Attribute) and isinstance(n.ctx, (ast.Store, ast.Del)):
                        written.setdefault(n.attr, set()).add("<module>")
        finals = {a for a, fs in written.items() if fs <= set(_FINAL_ATTR_WRITERS)}
        p._final_attrs = finals
    if scope.name in _FINAL_ATTR_WRITERS:
        return 0
    count = 0
    for blk in list(_blocks(fn)):
        for st in list(blk):
            tgt, val = None, None
            if isinstance(st, ast.Assign) and len(st.targets) == 1 and isinstance(st.targets[0], ast.Name):
                tgt, val = st.targets[0].id, st.value
            elif isinstance(st, ast.AnnAssign) and isinstance(st.target, ast.Name) and st.value is not None:
                tgt, val = st.target.id, st.value
            if tgt is None or not (isinstance(val, ast.Attribute) and isinstance(val.value, ast.Name) and val.value.id == "self" and val.attr in finals):
                continue
            stores = [x for x in ast.walk(fn) if isinstance(x, ast.Name) and x.id == tgt and isinstance(x.ctx, (ast.Store, ast.Del))]
            if len(stores) != 1 or any(isinstance(a, ast.arg) and a.arg == tgt for a in ast.walk(fn)):
                continue
            if any(isinstance(x, (ast.Lambda, ast.FunctionDef)) and any(isinstance(y, ast.Name) and y.id == tgt for y in ast.walk(x)) for x in ast.walk(fn)
                   if x is not fn):
                continue

            class R(ast.NodeTransformer):
                def visit_Name(self, n: ast.Name):
                    if n.id == tgt and isinstance(n.ctx, ast.Load):
                        return ast.copy_location(ast.Attribute(value=ast.Name(id="self", ctx=ast.Load()), attr=val.attr, ctx=ast.Load()), n)
                    return n
            blk.remove(st)
            R().visit(fn)
            count += 1
    return count



def fold_class_constants(p: Program, scope: FunctionInfo, fn: ast.AST) -> int:
    """``C.attr`` -> the literal, where C is a class of the program whose body binds ``attr`` once to a literal and nothing
    assigns ``<anything>.attr`` anywhere in the program"""
    count = 0
    assigned_attrs = getattr(p, "_assigned_attrs", None)
    if assigned_attrs is None:
        assigned_attrs = set()
        for m in p.modules.values():
            if m.kind == "dep":
                continue
            for c in m.classes.values():
                for n in ast.walk(c.node):
                    if isinstance(n, ast.Call) and isinstance(n.func, ast.Name) and n.func.id == "setattr" and n.args \
                            and isinstance(n.args[0], ast.Name) and n.args[0].id in ("self", "cls"):
                        n._sa_local = True
                        assigned_attrs.add(("class", c.qualname))
            for n in ast.walk(m.tree):
                if isinstance(n, ast.Attribute) and isinstance(n.ctx, (ast.Store, ast.Del)):
                    assigned_attrs.add(n.attr)
                elif isinstance(n, ast.Call) and isinstance(n.func, ast.Name) and n.func.id == "setattr":
                    if len(n.args) > 1 and isinstance(n.args[1], ast.Constant):
                        assigned_attrs.add(n.args[1].value)
                    elif not getattr(n, "_sa_local", False):
                        assigned_attrs.add("*")
        p._assigned_attrs = assigned_attrs
    if "*" in assigned_attrs:
        return 0

    class F(ast.NodeTransformer):
        def visit_Attribute(self, n: ast.Attribute):
            nonlocal count
            self.generic_visit(n)
            if isinstance(n.ctx, ast.Load) and isinstance(n.value, ast.Name) and n.attr not in assigned_attrs:
                r = p.resolve_expr(scope.module, n.value, scope)
                if r.kind == "class" and r.cls is not None and not p.subclasses(r.cls) and ("class", r.cls.qualname) not in assigned_attrs:
                    v = r.cls.attrs.get(n.attr)
                    if isinstance(v, ast.Constant) and isinstance(v.value, (str, int, bool, type(None))):
                        count += 1
                        return ast.copy_location(ast.Constant(value=v.value), n)
            return n

    F().visit(fn)
    return count


# ------------------------------------------------------------------------------------------------ tidy up
def _is_temp(name: str) -> bool:
    return bool(re.match(r"_h\d+_", name))


def forward_substitute(fn: ast.AST, also=None):
    """``_hN_x = E`` immediately followed by the only use of ``_hN_x`` (in the head of the next statement) -> the use
    is replaced by ``E``.  Temporaries introduced by the inliner, and - when ``also(name)`` says so - single-use locals of the
    author (`finder = FindInAll()` / `results = finder.find(..)` / `return list(results)` reads `return list(FindInAll().find(..))`);
    only adjacent statements, so nothing is evaluated in another order than written."""
    params = {a.arg for a in ast.walk(fn) if isinstance(a, ast.arg)}
    _is_temp_orig = globals()["_is_temp"]

    def _is_temp(nm: str) -> bool:  # widened locally
        return _is_temp_orig(nm) or (also is not None and nm not in params and also(nm))
    for _ in range(40):
        loads: Dict[str, int] = {}
        stores: Dict[str, int] = {}
        for n in ast.walk(fn):
            if isinstance(n, ast.Name) and _is_temp(n.id):
                d = loads if isinstance(n.ctx, ast.Load) else stores
                d[n.id] = d.get(n.id, 0) + 1
        changed = False
        for holder in ast.walk(fn):
            for fld in ("body", "orelse", "finalbody"):
                blk = getattr(holder, fld, None)
                if not (isinstance(blk, list) and blk and isinstance(blk[0], ast.stmt)):
                    continue
                i = 0
                while i < len(blk) - 1:
                    st, nxt = blk[i], blk[i + 1]
                    if isinstance(st, ast.Assign) and len(st.targets) == 1 and isinstance(st.targets[0], ast.Name) and _is_temp(st.targets[0].id):
                        nm = st.targets[0].id
                        if stores.get(nm, 0) == 1 and loads.get(nm, 0) == 1:
                            use = None
                            for e in _stmt_exprs(nxt):
                                for x in _safe_names(e):
                                    if x.id == nm:
                                        use = x
                            if use is not None:
                                _Replace(use, st.value).visit(nxt)
                                del blk[i]
                                loads[nm] = 0
                                changed = True
                                continue
                        if stores.get(nm, 0) == 1 and isinstance(st.value, ast.Name) and isinstance(st.value.ctx, ast.Load) \
                                and _stable_name(fn, st.value.id):
                            # a plain copy of a name that is bound once: the temporary is that name
                            src = st.value.id
                            for x in ast.walk(fn):
                                if isinstance(x, ast.Name) and x.id == nm and isinstance(x.ctx, ast.Load):
                                    x.id = src
                            del blk[i]
                            changed = True
                            continue
                        elif stores.get(nm, 0) == 1 and loads.get(nm, 0) == 0 and isinstance(st.value, (ast.Name, ast.Constant)):
                            del blk[i]
                            changed = True
                            continue
                    i += 1
        # `x = _hN_t` where the temporary is bound once and only read here, and x is bound only here: the temporary *is* x
        name_stores: Dict[str, int] = {}
        for n in ast.walk(fn):
            if isinstance(n, ast.Name) and isinstance(n.ctx, (ast.Store, ast.Del)):
                name_stores[n.id] = name_stores.get(n.id, 0) + 1
            elif isinstance(n, ast.arg):
                name_stores[n.arg] = name_stores.get(n.arg, 0) + 1
        for holder in ast.walk(fn):
            for fld in ("body", "orelse", "finalbody"):
                blk = getattr(holder, fld, None)
                if not (isinstance(blk, list) and blk and isinstance(blk[0], ast.stmt)):
                    continue
                for st in list(blk):
                    if isinstance(st, ast.Assign) and len(st.targets) == 1 and isinstance(st.targets[0], ast.Name) and isinstance(st.value, ast.Name) \
                            and _is_temp(st.value.id) and not _is_temp(st.targets[0].id):
                        t, x = st.value.id, st.targets[0].id
                        later = {id(n) for s_ in blk[blk.index(st) + 1:] for n in ast.walk(s_)}
                        x_loads = [n for n in ast.walk(fn) if isinstance(n, ast.Name) and n.id == x and isinstance(n.ctx, ast.Load)]
                        if stores.get(t, 0) == 1 and name_stores.get(x, 0) == 1 and all(id(n) in later for n in x_loads):
                            for n in ast.walk(fn):
                                if isinstance(n, ast.Name) and n.id == t:
                                    n.id = x
                            blk.remove(st)
                            if not blk:
                                blk.append(ast.copy_location(ast.Pass(), st))
                            stores[t] = loads[t] = 0
                            changed = True
        if not changed:
            break


def _stable_name(fn: ast.AST, name: str) -> bool:
    """bound at most once in the function (a parameter, or a single assignment)"""
    n = 0
    for x in ast.walk(fn):
        if isinstance(x, ast.Name) and x.id == name and isinstance(x.ctx, (ast.Store, ast.Del)):
            n += 1
        elif isinstance(x, ast.arg) and x.arg == name:
            n += 1
    return n <= 1


def _safe_names(node: ast.AST):
    if isinstance(node, (ast.Lambda, ast.ListComp, ast.SetComp, ast.DictComp, ast.GeneratorExp, ast.FunctionDef, ast.ClassDef)):
        return
    if isinstance(node, ast.Name) and isinstance(node.ctx, ast.Load):
        yield node
    for ch in ast.iter_child_nodes(node):
        yield from _safe_names(ch)


# ------------------------------------------------------------------------------------------------ driver
def normalise(p: Program, vocab: Optional[Set[str]] = None) -> Tuple[Dict[str, ast.Module], Dict]:
    """-> ({relpath: transformed module tree}, report)"""
    if vocab is None:
        vocab = vocabulary()
    inl = Inliner(p, vocab)
    n_unrolled = 0
    n_cf = 0
    new_trees: Dict[str, ast.Module] = {}
    changed: Set[str] = set()
    # copies of the module trees, with a map from original function nodes to their copies
    copies: Dict[str, ast.Module] = {}
    node_map: Dict[int, ast.AST] = {}
    for m in p.modules.values():
        if m.kind not in ("library", "config"):
            continue
        cp = copy.deepcopy(m.tree)
        copies[m.name] = cp
        for a, b in zip(ast.walk(m.tree), ast.walk(cp)):
            if isinstance(a, (ast.FunctionDef, ast.AsyncFunctionDef)):
                node_map[id(a)] = b
    for f in list(p.functions.values()):
        if f.module.name not in copies or f.module.name in SKIP_MODULES:
            continue
        tgt = node_map.get(id(f.node))
        if tgt is None:
            continue
        before = len(inl.log)

        def _wants(comp, _f=f):
            return any(isinstance(x, ast.Call) and inl.sel.target_of(_f, x) is not None for x in ast.walk(comp))

        fused = unrolled = 0
        for _round in range(3):
            mark = (len(inl.log), fused, unrolled)
            if f.parent is None:
                fused += fuse_generators(tgt)
                fused += uncomprehend(tgt, _wants)
            fused += unreduce(tgt)
            # the scope used for resolution is the original function; the body rewritten is the copy's
            tgt.body = inl.block(f, tgt.body, MAX_DEPTH)
            if f.parent is None:
                unrolled += unroll_tables(tgt)
            if mark == (len(inl.log), fused, unrolled):
                break
        n_unrolled += unrolled + fused
        pre = fold_module_constants(p, f, tgt, vocab) + eliminate_final_attr_aliases(p, f, tgt)
        _src0 = ast.dump(tgt)
        forward_substitute(tgt, also=lambda nm: nm not in vocab and not nm.startswith("__"))
        if pre or ast.dump(tgt) != _src0:
            changed.add(f.module.name)
        cf = control_flow_normal_form(tgt) if f.parent is None or True else 0
        n_cf += cf
        if cf:
            changed.add(f.module.name)
            _src1 = ast.dump(tgt)
            forward_substitute(tgt, also=lambda nm: nm not in vocab and not nm.startswith("__"))
        if len(inl.log) > before or unrolled or fused:
            _beta(tgt)
            fold_class_constants(p, f, tgt)
            fold_constant_tests(tgt)
            fold_literal_indirections(tgt)
            forward_substitute(tgt)
            if push_continuation(tgt):
                forward_substitute(tgt)
            if fold_tuples(tgt):
                forward_substitute(tgt)
            changed.add(f.module.name)
    # module-level code (the configuration loaders run their loops there): the module body as a pseudo function
    for m in p.modules.values():
        if m.name not in copies or m.name in SKIP_MODULES:
            continue
        tree = copies[m.name]
        plain = [st for st in tree.body if not isinstance(st, (ast.FunctionDef, ast.AsyncFunctionDef, ast.ClassDef))]
        if not any(isinstance(x, ast.Call) for st in plain for x in ast.walk(st)):
            continue
        pseudo_node = ast.FunctionDef(name="<module>", args=ast.arguments(posonlyargs=[], args=[], kwonlyargs=[], kw_defaults=[], defaults=[]),
                                      body=[st for st in m.tree.body if not isinstance(st, (ast.FunctionDef, ast.AsyncFunctionDef, ast.ClassDef))],
                                      decorator_list=[], lineno=1, col_offset=0)
        scope = FunctionInfo(qualname=f"{m.name}.<module>", name="<module>", module=m, node=pseudo_node)
        holder = ast.FunctionDef(name="<module>", args=pseudo_node.args, body=tree.body, decorator_list=[], lineno=1, col_offset=0)
        before = len(inl.log)

        def _wants_m(comp, _f=scope):
            return any(isinstance(x, ast.Call) and inl.sel.target_of(_f, x) is not None for x in ast.walk(comp))

        fused = 0
        for _round in range(3):
            mark = (len(inl.log), fused)
            fused += fuse_generators(holder)
            fused += unreduce(holder)
            holder.body = inl.block(scope, holder.body, MAX_DEPTH)
            if mark == (len(inl.log), fused):
                break
        if len(inl.log) > before:
            forward_substitute(holder)
            if fold_tuples(holder):
                forward_substitute(holder)
            n_unrolled += fused
            tree.body = holder.body
            changed.add(m.name)
    if not inl.log and not n_unrolled and not n_cf:
        return {}, {"inlined_calls": 0, "helpers": [], "removed": [], "unrolled_tables": 0, "control_flow_rewrites": 0}
    helpers = sorted({h for _, h in inl.log})
    # imports needed by cross-module inlining
    for mname, needs in inl.need_imports.items():
        tree = copies[mname]
        idx = 0
        for i, st in enumerate(tree.body):
            if isinstance(st, (ast.Import, ast.ImportFrom)) or (i == 0 and isinstance(st, ast.Expr) and isinstance(st.value, ast.Constant)):
                idx = i + 1
        for hm, nm in sorted(needs):
            imp = ast.ImportFrom(module=hm, names=[ast.alias(name=nm, asname=None)], level=0)
            imp.lineno = imp.end_lineno = 1
            imp.col_offset = imp.end_col_offset = 0
            tree.body.insert(idx, imp)
            idx += 1
        changed.add(mname)
    # helpers with no remaining use are dropped from the normal form
    removed: List[str] = []
    remaining: Dict[str, int] = {}
    hnames = {p.functions[h].name for h in helpers}
    for mname, tree in copies.items():
        for n in ast.walk(tree):
            if isinstance(n, ast.Name) and n.id in hnames and isinstance(n.ctx, ast.Load):
                remaining[n.id] = remaining.get(n.id, 0) + 1
            elif isinstance(n, ast.Attribute) and n.attr in hnames:
                remaining[n.attr] = remaining.get(n.attr, 0) + 1
    for h in helpers:
        f = p.functions[h]
        if remaining.get(f.name, 0) == 0:
            tree = copies[f.module.name]
            holder = None
            node = node_map.get(id(f.node))
            for n in ast.walk(tree):
                for fld in ("body", "orelse", "finalbody"):
                    sub = getattr(n, fld, None)
                    if isinstance(sub, list) and node in sub:
                        holder = sub
            if holder is not None:
                holder.remove(node)
                if not holder:
                    holder.append(ast.Pass(lineno=getattr(node, "lineno", 1), col_offset=0))
                removed.append(h)
                changed.add(f.module.name)
    for mname in changed:
        tree = copies[mname]
        ast.fix_missing_locations(tree)
        new_trees[p.modules[mname].relpath] = tree
    report = {"inlined_calls": len(inl.log), "helpers": helpers, "removed": removed, "unrolled_tables": n_unrolled,
              "control_flow_rewrites": n_cf,
              "callers": sorted({c for c, _ in inl.log})}
    return new_trees, report
