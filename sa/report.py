"""E8/E9 - rule runtime and reporting: instances, findings, known-findings matching, evidence."""
from __future__ import annotations

import json
import os
import time
from dataclasses import dataclass, field
from typing import Any, Dict, List, Optional, Tuple

from .program import AnalysisError

VERIF = os.path.dirname(os.path.dirname(os.path.abspath(__file__)))
KNOWN_FINDINGS = os.path.join(VERIF, "known_findings.json")


@dataclass
class Instance:
    rule: str
    site: str
    verdict: str  # 'ok' | 'violation' | 'note'
    why: str
    nontrivial: bool = True

    def as_dict(self) -> Dict[str, Any]:
        return {"rule": self.rule, "site": self.site, "verdict": self.verdict, "why": self.why}


@dataclass
class Finding:
    rule: str
    key: List[str]  # stable identity: never a line number
    message: str
    file: str = ""
    line: int = 0
    chain: List[str] = field(default_factory=list)
    prop: str = ""

    def as_dict(self) -> Dict[str, Any]:
        return {"property": self.prop, "rule": self.rule, "key": self.key, "message": self.message,
                "file": self.file, "line": self.line, "chain": self.chain}


class RuleResult:
    def __init__(self, rule: str):
        self.rule = rule
        self.instances: List[Instance] = []
        self.findings: List[Finding] = []

    def ok(self, site: str, why: str, nontrivial: bool = True):
        self.instances.append(Instance(self.rule, site, "ok", why, nontrivial))

    def note(self, site: str, why: str):
        self.instances.append(Instance(self.rule, site, "note", why, False))

    def violation(self, key: List[str], message: str, file: str = "", line: int = 0, chain: Optional[List[str]] = None,
                  site: Optional[str] = None):
        k = [str(x) for x in key]
        if any(f.rule == self.rule and f.key == k for f in self.findings):
            return  # one finding per (rule, key): several resolution targets of one site are one construct
        self.instances.append(Instance(self.rule, site or " :: ".join(k), "violation", message, True))
        self.findings.append(Finding(self.rule, k, message, file, line, chain or []))

    def require(self, cond: bool, what: str):
        """instance floors and anchors: failing one means the *analyser* cannot answer"""
        if not cond:
            raise AnalysisError(f"{self.rule}: {what}")

    def floor(self, n: int, minimum: int, what: str):
        if n < minimum:
            raise AnalysisError(f"{self.rule}: only {n} {what}, confirmed floor is {minimum} (vacuous pass refused)")

    def merge(self, other: "RuleResult"):
        self.instances += other.instances
        self.findings += other.findings


def load_known() -> List[Dict[str, Any]]:
    if not os.path.exists(KNOWN_FINDINGS):
        return []
    with open(KNOWN_FINDINGS) as f:
        return json.load(f).get("findings", [])


def match_known(f: Finding, known: List[Dict[str, Any]]) -> Optional[Dict[str, Any]]:
    for k in known:
        if k.get("status") != "open":
            continue
        if k.get("property") == f.prop and k.get("rule") == f.rule and [str(x) for x in k.get("key", [])] == f.key:
            return k
    return None
