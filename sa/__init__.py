"""Static analysis of MichaelHaussmann/spil against properties C01-C20.

Nothing in this package imports or executes code of /repo: every fact is computed from source text
(ast, re._parser on literals, constant folding of configuration modules).
"""
