"""Differential self-test of sa/normalise.py on SYNTHETIC programs (no repository code is involved): every case is a
small module with anchor functions (named in VOCAB) and helpers; the module is normalised, both versions are executed
on a set of inputs and must agree on results and raised exception types.  Run: /venv/bin/python -m sa.tests.test_normalise"""
from __future__ import annotations

import ast
import os
import shutil
import sys
import tempfile
import textwrap
import warnings

from ..normalise import normalise
from ..program import Program

VOCAB = {"anchor", "anchor2", "Anchor", "run"}

CASES = {
    "early_returns": ('''
        def _h(x, y=2):
            if x < 0:
                return "neg"
            if x == 0:
                return None
            z = x * y
            return z
        def anchor(a):
            r = _h(a)
            s = _h(a, y=a)
            return (r, s, _h(-a) or "none")
        ''', [(1,), (0,), (-3,), (5,)]),
    "loop_returns": ('''
        def _find(xs, k):
            for i, x in enumerate(xs):
                if x == k:
                    return i
                for y in range(x):
                    if y == k * 10:
                        return -2
            return -1
        def anchor(xs, k):
            pos = _find(xs, k)
            if pos >= 0:
                return ("found", pos)
            return ("missing", _find(xs[::-1], k))
        ''', [([1, 2, 3], 2), ([1, 2, 3], 9), ([], 1), ([30, 2], 2)]),
    "generator_for": ('''
        def _pairs(d):
            for k in sorted(d):
                v = d[k]
                if v is None:
                    continue
                yield k, v * 2
        def anchor(d):
            out = []
            for k, v in _pairs(d):
                if v > 10:
                    continue
                out.append((k, v))
            return out
        def _gen2(n):
            yield n
            yield n + 1
        def anchor2(n):
            tot = 0
            for a in _gen2(n):
                tot += a
            return tot
        ''', [({"a": 1, "b": None, "c": 9},), ({},)]),
    "generator_for_nontail": ('''
        def _walk(parts):
            parts = list(parts)
            while parts:
                yield parts[-1], len(parts)
                parts.pop()
        def anchor(parts, skip):
            out = []
            for p, n in _walk(parts):
                if p in skip:
                    continue
                for q in range(n):
                    if q == 1:
                        continue
                    out.append((p, q))
            return out
        ''', [(["a", "b", "c"], {"b"}), ([], set()), (["x"], set())]),
    "yield_from": ('''
        def _inner(xs):
            for x in xs:
                if x % 2:
                    yield x
        def _ret_gen(xs):
            return (x * 3 for x in xs if x)
        def anchor(xs):
            yield 0
            yield from _inner(xs)
            yield from _ret_gen(xs)
        def run(xs):
            return list(anchor(xs))
        ''', [([1, 2, 3, 0],), ([],)]),
    "methods_and_classes": ('''
        class _Store:
            limit = 3
            def __init__(self):
                self.data = {}
            def room(self):
                if len(self.data) >= self.limit:
                    self.data.popitem()
            @staticmethod
            def key(a, k):
                return (tuple(a), tuple(sorted(k.items())))
            @classmethod
            def make(cls):
                return cls.limit * 2
        class Anchor:
            def __init__(self):
                self.n = 0
            def _bump(self, by=1):
                self.n += by
                return self.n
            def run(self, xs):
                store = _Store()
                for x in xs:
                    store.room()
                    store.data[_Store.key([x], {"a": x})] = self._bump(x)
                return sorted(store.data.values()), _Store.make()
        def run(xs):
            return Anchor().run(xs)
        ''', [([1, 2, 3, 4, 5],), ([],)]),
    "tables": ('''
        def anchor(a=None, b=None, c=None):
            table = ((a, lambda: ("A", a)), (b, lambda: ("B", b)), (c, lambda: ("C", c)))
            result = None
            for arg, build in table:
                if arg:
                    result = build()
                    break
            else:
                result = ("none", None)
            return result
        class _O:
            x = 1
            y = 2
        def anchor2(o=None):
            o = o or _O()
            tot = []
            for name, scale in (("x", 10), ("y", 100)):
                tot.append(getattr(o, name) * scale)
            return tot
        ''', [(1,), (None, 2), (None, None, 3), ()]),
    "reduce_and_pipes": ('''
        from functools import reduce
        def _apply(acc, d):
            for k, v in d.items():
                acc = acc.replace(k, v)
            return acc
        def _split(v, prefix):
            if prefix and str(v).startswith(prefix):
                return str(v)[len(prefix):], True
            return v, False
        def anchor(s, ds, prefix="~"):
            s = reduce(_apply, (d for d in ds if d), s)
            items = ((k,) + _split(v, prefix) for k, v in sorted({"a": "~x", "b": s}.items()))
            out = {}
            for k, v, opt in items:
                if not opt:
                    out[k] = v
            kept = [x for x in ds if _keep(x)]
            return s, out, len(kept), reduce(lambda a, f: f(a), [str.upper, str.strip], " " + s)
        def _keep(d):
            if not d:
                return False
            return len(d) < 2
        ''', [("abc", [{"a": "1"}, {}, {"b": "2", "c": "3"}]), ("", [])]),
    "kwargs_and_clash": ('''
        def _delegate(obj, method, *, extra=None, **kwargs):
            result = getattr(obj, method)(**kwargs)
            if extra:
                result = (result, extra)
            return result
        class _T:
            def get(self, a=0, b=0):
                return a - b
        def anchor(result):
            r1 = _delegate(_T(), "get", a=result, b=1)
            r2 = _delegate(_T(), "get", extra="e", b=result)
            return result, r1, r2
        ''', [(5,), (0,)]),
    "exceptions": ('''
        def _check(x):
            try:
                if x == 1:
                    raise KeyError(x)
                if x == 2:
                    return "two"
            except KeyError:
                return "caught"
            finally:
                pass
            if x == 3:
                raise ValueError("three")
            return "end"
        def anchor(x):
            a = _check(x)
            return a + "!"
        ''', [(1,), (2,), (3,), (4,)]),
    "cf_single_exit": ('''
        LOG = []
        def t(x):
            LOG.append(("t", x))
            return x
        def anchor(d, key):
            if not d:
                t("empty")
                result = ()
            elif key not in d:
                t("nokey")
                result = ()
            else:
                fields = {}
                for k, v in d.items():
                    fields[k] = v
                    if k == key:
                        break
                else:
                    raise KeyError(key)
                result = tuple(fields.items())
            return result, tuple(LOG)
        def anchor2(a, b):
            LOG.clear()
            x = t(a) if t(b) else t(-1)
            y = x or t("dflt")
            if not y:
                y = t("again")
            return (y if y != 3 else t("three")), tuple(LOG)
        ''', [({}, 1), ({1: 2}, 3), ({1: 2, 3: 4, 5: 6}, 3), ({1: 2}, 1), (0, 0), (3, 1), (0, 1), (2, 0)]),
    "cf_for_else": ('''
        LOG = []
        def t(x):
            LOG.append(x)
            return x
        def anchor(xs, s):
            LOG.clear()
            kind = "none"
            for sym in xs:
                if t(sym) in s:
                    t("hit")
                    kind = "search"
                    break
            else:
                t("miss")
                return ("plain", tuple(LOG))
            return (kind, tuple(LOG))
        def anchor2(xs, s):
            LOG.clear()
            found = False
            for x in xs:
                if t(x) in s:
                    found = True
            for x in xs:
                if x == s:
                    break
            else:
                t("no-equal")
            return found, tuple(LOG)
        def run(xs, s):
            LOG.clear()
            for x in xs:
                t(x)
                if x in s:
                    break
            else:
                raise ValueError(tuple(LOG))
            r = t(("ok", x))
            return r, tuple(LOG)
        ''', [("*>", "a/*"), ("*>", "a/b"), ("", "a"), ("ab", "b"), (["a", "b"], "b")]),
    "cf_sink_and_or": ('''
        LOG = []
        def t(x):
            LOG.append(x)
            return x
        def anchor(c, v):
            LOG.clear()
            if t(c):
                arg = t("left")
            else:
                arg = t("right")
            out = (t("call"), arg)
            if v:
                conf = v
            else:
                conf = t("default")
            return out, conf, tuple(LOG)
        def anchor2(v, w):
            LOG.clear()
            if v:
                return v
            else:
                return w or (t("x") or t(0) or "end")
        ''', [(0, 0), (1, 0), (0, "u"), (1, "u"), ("", "")]),
    "reduce_no_init_and_operators": ('''
        from functools import reduce
        import operator
        from operator import iadd
        STORE = {"a": [1], "b": [2, 3], "c": []}
        def _get(k):
            return STORE[k]
        def anchor(keys):
            STORE.update({"a": [1], "b": [2, 3], "c": []})
            out = reduce(iadd, (_get(k) for k in keys))
            return out, {k: list(v) for k, v in STORE.items()}
        def anchor2(keys):
            STORE.update({"a": [1], "b": [2, 3], "c": []})
            out = reduce(operator.add, [STORE[k] for k in keys], [])
            tot = reduce(lambda acc, k: acc + len(STORE[k]), keys, 0)
            return out, tot, {k: list(v) for k, v in STORE.items()}
        ''', [(["a", "b"],), (["b", "a", "c"],), (["c"],), ([],), (["x"],)]),
    "cf_oneshot_sentinel": ('''
        LOG = []
        _NOTHING = object()
        def t(x):
            LOG.append(x)
            return x
        def _choose(kind, options, text):
            if len(options) == 1:
                return options[0]
            if kind in options:
                return kind
            if any(s in text for s in "*>"):
                t("search")
                return options[0]
            return None
        def _read(store, key):
            if key not in store:
                return None
            with store[key] as h:
                return h.get() or {}
        class _H:
            def __init__(self, v): self.v = v
            def __enter__(self): t("enter"); return self
            def __exit__(self, *a): t("exit"); return False
            def get(self): return self.v
        def anchor(kind, options, text):
            LOG.clear()
            chosen = _choose(kind, options, text)
            if chosen is None:
                t("refused")
                return ("refused", kind, tuple(LOG))
            return ("ok", chosen, tuple(LOG))
        def anchor2(key, new):
            LOG.clear()
            store = {"a": _H({"x": 1}), "b": _H(None)}
            previous = _read(store, key)
            if previous is not None:
                previous.update(new)
                new = previous
            return new, tuple(LOG)
        ''', [("k", ["k"], "a"), ("k", ["a", "k"], "a"), ("k", ["a", "b"], "a/*"), ("k", ["a", "b"], "a"), ("k", [], "x"),
                ("a", {"y": 2}), ("b", {"y": 2}), ("zz", {"y": 2})]),
    "another_hand": ('''
        LOG = []
        _ANY = "*"
        _PAIR = (None, None)
        _AMBIGUOUS = object()
        def t(x):
            LOG.append(x)
            return x
        def _segments(s):
            return s.split("/")
        def _needs(s):
            if not s:
                return True
            if "*" in s:
                return True
            as_text = str(s)
            return as_text.upper() != as_text
        def _pick(kind, options):
            if len(options) == 1:
                return options[0]
            if kind in options:
                return kind
            return _AMBIGUOUS
        class Anchor:
            def __init__(self, fields):
                self._fields = fields
            def run(self, key):
                own = self._fields
                if not own or key not in own:
                    return _PAIR
                finder = t("finder")
                results = (finder, [k for k in own if k != _ANY])
                return results
        def anchor(s, key):
            LOG.clear()
            if _needs(s):
                parts = t("unfold")
            else:
                t("plain")
                parts = [s]
            ordered = sorted(["b/a", "a/c", "a/b"], key=_segments)
            grouped = [x for x in ordered if not s or _segments(x)[:1] != _segments(str(s))[:1] or t("same")]
            return parts, grouped, Anchor({"k": 1, "*": 2}).run(key), Anchor({}).run(key), tuple(LOG)
        def anchor2(kind, options, text):
            LOG.clear()
            chosen = _pick(kind, options)
            if chosen is _AMBIGUOUS:
                if "*" in text:
                    t("search")
                    chosen = options[0] if options else None
                else:
                    t("refused")
                    return ("refused", tuple(LOG))
            return ("ok", chosen, tuple(LOG))
        ''', [("a/b", "k"), ("", "k"), ("A/B", "zz"), ("a/*", "*"), ("k", ["k"], "x"), ("k", ["a", "k"], "x"), ("k", ["a", "b"], "a/*"),
                ("k", ["a", "b"], "a"), ("k", [], "*")]),
}

CROSS = {
    "spil/other.py": '''
        import json
        SEP = "/"
        def split_query(s):
            head, _, tail = s.partition("?")
            return head, tail
        def dump(x):
            return json.dumps(x, sort_keys=True) + SEP
        ''',
    "spil/mod.py": '''
        from spil.other import split_query, dump
        def anchor(s):
            string, query = split_query(s)
            return dump({"s": string, "q": query})
        ''',
}


def _mk_repo(files) -> str:
    d = tempfile.mkdtemp(prefix="sa_nf_test_")
    os.makedirs(os.path.join(d, "spil"))
    os.makedirs(os.path.join(d, "spil_hamlet_conf"))
    open(os.path.join(d, "spil", "__init__.py"), "w").write("")
    for rel, src in files.items():
        os.makedirs(os.path.dirname(os.path.join(d, rel)), exist_ok=True)
        open(os.path.join(d, rel), "w").write(textwrap.dedent(src))
    return d


def _call(ns, name, args):
    try:
        fn = ns.get("run") if name == "run" else ns.get(name)
        if fn is None:
            return ("absent",)
        r = fn(*args)
        if hasattr(r, "__next__"):
            r = list(r)
        return ("ok", repr(r))
    except Exception as e:  # noqa
        return ("exc", type(e).__name__)


def run_case(name, src, inputs) -> list:
    d = _mk_repo({"spil/mod.py": src})
    problems = []
    try:
        with warnings.catch_warnings():
            warnings.simplefilter("ignore")
            p = Program(d)
            trees, report = normalise(p, VOCAB)
        if not trees:
            return [f"{name}: nothing was normalised"]
        new_src = ast.unparse(trees["spil/mod.py"])
        ns_a, ns_b = {"__name__": "a"}, {"__name__": "b"}
        exec(compile(textwrap.dedent(src), "orig", "exec"), ns_a)
        exec(compile(new_src, "normal", "exec"), ns_b)
        for fname in ("anchor", "anchor2", "run"):
            if fname not in ns_a:
                continue
            for args in inputs:
                import copy as _c
                ra, rb = _call(ns_a, fname, _c.deepcopy(args)), _call(ns_b, fname, _c.deepcopy(args))
                if ra != rb:
                    problems.append(f"{name}.{fname}{args}: original {ra} != normal form {rb}\n{new_src}")
        if report["inlined_calls"] == 0 and not report.get("unrolled_tables") and not report.get("control_flow_rewrites"):
            problems.append(f"{name}: report says nothing happened")
    finally:
        shutil.rmtree(d, ignore_errors=True)
    return problems


def run_cross() -> list:
    d = _mk_repo(CROSS)
    try:
        with warnings.catch_warnings():
            warnings.simplefilter("ignore")
            p = Program(d)
            trees, report = normalise(p, VOCAB)
        if "spil/mod.py" not in trees:
            return ["cross: mod.py not normalised"]
        sys.path.insert(0, d)
        try:
            for m in [k for k in sys.modules if k == "spil" or k.startswith("spil.")]:
                del sys.modules[m]
            ns_a, ns_b = {"__name__": "a"}, {"__name__": "b"}
            exec(compile(textwrap.dedent(CROSS["spil/mod.py"]), "orig", "exec"), ns_a)
            exec(compile(ast.unparse(trees["spil/mod.py"]), "normal", "exec"), ns_b)
            out = []
            for s in ("a/b?x=1", "a", ""):
                ra, rb = _call(ns_a, "anchor", (s,)), _call(ns_b, "anchor", (s,))
                if ra != rb:
                    out.append(f"cross anchor({s!r}): {ra} != {rb}\n{ast.unparse(trees['spil/mod.py'])}")
            return out
        finally:
            sys.path.remove(d)
            for m in [k for k in sys.modules if k == "spil" or k.startswith("spil.")]:
                del sys.modules[m]
    finally:
        shutil.rmtree(d, ignore_errors=True)


def main() -> int:
    problems = []
    for name, (src, inputs) in CASES.items():
        try:
            problems += run_case(name, src, inputs)
        except Exception as e:  # noqa
            import traceback
            problems.append(f"{name}: crashed: {traceback.format_exc()}")
    try:
        problems += run_cross()
    except Exception:
        import traceback
        problems.append("cross: crashed: " + traceback.format_exc())
    for pr in problems:
        print("FAIL", pr)
    print(f"normalise self-test: {len(CASES) + 1} cases, {len(problems)} problems")
    return 1 if problems else 0


if __name__ == "__main__":
    sys.exit(main())
