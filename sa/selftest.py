"""Rule self-test (thorough tier).

The variant bank lives in /verif:
  seeded/<id>/patch.diff            changes that break a property (written by independent sub-agents, confirmed by
                                    running their demonstration with and without the change)
  seeded_fixes/<commit>/patch.diff  each `fix:` commit of /repo, reverted
  benign/<id>/patch.diff            behaviour-preserving refactorings (must stay silent)
  seeded_neutralised/<id>/…         changes that no longer break anything (must stay silent)
  evolutions/<id>/patch.diff        well-formed evolutions of the shipped configuration (silent, except documented ones)
  repaired/<id>/patch.diff          seeded commits of round 4 with the regression taken out (must stay silent, except for the
                                    conservative alarms documented per variant in its meta.json)
Each meta.json lists ``expected_checks``: the properties whose check is known to fire on that variant.

For property P the self-test applies every variant that concerns P to a scratch copy of the *current* tree of
/repo (python sources only, under /tmp, removed afterwards), runs P's quick check on it and compares:
a broken variant must fire, a benign one must stay silent.  A variant whose patch no longer applies is skipped.
The verdict on /repo itself is computed before and independently of this (sa/check.py).
"""
from __future__ import annotations

import json
import os
import shutil
import subprocess
import tempfile
from concurrent.futures import ThreadPoolExecutor
from typing import Dict, List, Tuple

VERIF = os.path.dirname(os.path.dirname(os.path.abspath(__file__)))
BROKEN_DIRS = ("seeded", "seeded_fixes")
SILENT_DIRS = ("benign", "seeded_neutralised")


def _copy_tree(repo: str) -> str:
    d = tempfile.mkdtemp(prefix="sa_selftest_", dir="/tmp")
    subprocess.run(["rsync", "-a", "--include=*/", "--include=*.py", "--exclude=*", "--exclude=data/", "--prune-empty-dirs",
                    os.path.join(repo, "spil"), os.path.join(repo, "spil_hamlet_conf"), os.path.join(repo, "spil_plugins"), d + "/"],
                   check=True)
    return d


def _variants(prop: str) -> List[Tuple[str, str, str]]:
    """(name, patch path, expectation 'fire'|'silent')"""
    out = []
    for dn in BROKEN_DIRS:
        base = os.path.join(VERIF, dn)
        for v in sorted(os.listdir(base)) if os.path.isdir(base) else []:
            mp = os.path.join(base, v, "meta.json")
            pp = os.path.join(base, v, "patch.diff")
            if not (os.path.exists(mp) and os.path.exists(pp)):
                continue
            try:
                meta = json.load(open(mp))
            except Exception:
                continue
            if prop in meta.get("expected_checks", []):
                out.append((f"{dn}/{v}", pp, "fire"))
    for dn in SILENT_DIRS:
        base = os.path.join(VERIF, dn)
        for v in sorted(os.listdir(base)) if os.path.isdir(base) else []:
            pp = os.path.join(base, v, "patch.diff")
            if os.path.exists(pp):
                # a recorded false alarm (DESIGN.md section 23) is accepted for exactly the listed properties of exactly that variant
                try:
                    kfa = (json.load(open(os.path.join(base, v, "meta.json"))).get("known_false_alarm") or {}).get("checks", [])
                except Exception:
                    kfa = []
                out.append((f"{dn}/{v}", pp, "either" if prop in kfa else "silent"))
    # repaired commits: silent, except where meta.json documents a conservative alarm of this property (then either outcome is
    # accepted: the alarm is a known over-approximation, its disappearance an improvement)
    for bank in ("repaired", "evolutions"):
        base = os.path.join(VERIF, bank)
        for v in sorted(os.listdir(base)) if os.path.isdir(base) else []:
            pp = os.path.join(base, v, "patch.diff")
            mp = os.path.join(base, v, "meta.json")
            if not os.path.exists(pp):
                continue
            try:
                meta = json.load(open(mp))
            except Exception:
                meta = {}
            documented = prop in (meta.get("conservative_alarm") or {}).get("checks", [])
            out.append((f"{bank}/{v}", pp, "either" if documented else "silent"))
    return out


def _run_one(args) -> Tuple[str, str, str]:
    name, patch, expect, prop, repo = args
    d = _copy_tree(repo)
    try:
        r = subprocess.run(["git", "apply", "--unsafe-paths", "--directory", d, patch], cwd=d, capture_output=True, text=True)
        if r.returncode != 0:
            r = subprocess.run(["patch", "-p1", "-s", "--dry-run", "-i", patch], cwd=d, capture_output=True, text=True)
            if r.returncode != 0:
                return name, expect, "skipped"
            subprocess.run(["patch", "-p1", "-s", "-i", patch], cwd=d, capture_output=True, text=True)
        r = subprocess.run(["/venv/bin/python", "-m", "sa.check", prop, "--tier", "quick", "--repo", d, "--no-evidence"],
                           cwd=VERIF, capture_output=True, text=True)
        got = {0: "silent", 1: "fire"}.get(r.returncode, "analysis-error")
        return name, expect, got
    finally:
        shutil.rmtree(d, ignore_errors=True)


def run_for(prop: str, repo: str) -> Dict:
    vs = _variants(prop)
    jobs = [(n, p, e, prop, repo) for n, p, e in vs]
    with ThreadPoolExecutor(max_workers=int(os.environ.get("SA_JOBS", "14"))) as ex:
        results = list(ex.map(_run_one, jobs))
    fired = [n for n, e, g in results if e == "fire" and g == "fire"]
    silent = [n for n, e, g in results if e == "silent" and g == "silent"]
    skipped = [n for n, e, g in results if g == "skipped"]
    # a benign variant that ends as analysis-error is not an alarm (exit 2 is never a verdict), but it is reported
    inconclusive = [n for n, e, g in results if g == "analysis-error"]
    documented = [n for n, e, g in results if e == "either" and g == "fire" and not n.startswith("benign/")]
    known_false = [n for n, e, g in results if e == "either" and g == "fire" and n.startswith("benign/")]
    failures = [f"{n}: expected {e}, got {g}" for n, e, g in results if g not in ("skipped", "analysis-error") and g != e and e != "either"]
    return {
        "repaired_commits_with_documented_conservative_alarm": len(documented),
        "refactorings_with_recorded_false_alarm": known_false,
        "variants": len(results),
        "broken_variants_fired": len(fired),
        "benign_variants_silent": len(silent),
        "skipped_patch_does_not_apply": len(skipped),
        "inconclusive_analysis_error": inconclusive,
        "failed": len(failures),
        "failures": failures,
        "samples": [n for n in fired[:4]] + [n for n in silent[:2]],
    }
