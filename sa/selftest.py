"""Rule self-test (thorough tier): AST-computed broken variants and benign twins (built below)."""


def run_for(prop, repo):
    return {"variants": 0, "failed": 0, "note": "self-test bank not built yet"}
