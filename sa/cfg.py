"""E3 - statement-level control-flow graph for one function body, with dominators and
path queries.  Only the statement kinds the analysed code base uses are modelled:

if / for / while (+ else) / try-except(-else)(-finally, simplified) / with / return / raise /
continue / break / assert / simple statements (incl. yield expressions).

Node kinds:
  entry, exit (normal return), raise (exceptional exit),
  stmt   - a simple statement,
  test   - the condition of an if / while / assert  (edges labelled 'true' / 'false'),
  loop   - the head of a for loop                 (edges labelled 'iter' / 'done'),
  with   - evaluation of the context expressions,
  handler- entry of an except clause.
Exceptional edges (label 'exc') run from every node inside a try body to each handler of that try,
and onwards to the enclosing try (or the raise exit) when no handler is a catch-all.
"""
from __future__ import annotations

import ast
from typing import Dict, Iterable, List, Optional, Sequence, Set, Tuple


class Node:
    __slots__ = ("id", "kind", "ast", "succ", "pred", "handlers_ctx")

    def __init__(self, id: int, kind: str, node: Optional[ast.AST]):
        self.id = id
        self.kind = kind
        self.ast = node
        self.succ: List[Tuple[int, str]] = []
        self.pred: List[Tuple[int, str]] = []

    @property
    def lineno(self) -> int:
        return getattr(self.ast, "lineno", 0)

    def exprs(self) -> List[ast.AST]:
        """The expressions evaluated *at* this node (not those of nested blocks)."""
        n = self.ast
        if n is None:
            return []
        if self.kind == "test":
            return [n.test]  # If / While / Assert
        if self.kind == "loop":
            return [n.iter, n.target]
        if self.kind == "with":
            out = []
            for it in n.items:
                out.append(it.context_expr)
                if it.optional_vars is not None:
                    out.append(it.optional_vars)
            return out
        if self.kind == "handler":
            return [n.type] if n.type is not None else []
        return [n]

    def __repr__(self):
        return f"<{self.kind}#{self.id} L{self.lineno}>"


CATCH_ALL = {"Exception", "BaseException"}


def _handler_names(h: ast.ExceptHandler) -> List[str]:
    if h.type is None:
        return ["BaseException"]
    ts = h.type.elts if isinstance(h.type, ast.Tuple) else [h.type]
    out = []
    for t in ts:
        if isinstance(t, ast.Name):
            out.append(t.id)
        elif isinstance(t, ast.Attribute):
            out.append(t.attr)
        else:
            out.append("?")
    return out


class CFG:
    def __init__(self, fn_node: ast.AST, body: Optional[Sequence[ast.stmt]] = None):
        self.fn = fn_node
        self.nodes: List[Node] = []
        self.entry = self._new("entry", None)
        self.exit = self._new("exit", None)
        self.raise_exit = self._new("raise", None)
        self._loops: List[Tuple[int, int]] = []  # (continue target, break target placeholder list id)
        self._break_lists: List[List[int]] = []
        self._try_stack: List[List[int]] = []  # handler node ids of enclosing trys, innermost last
        self._try_catchall: List[bool] = []
        self._owner: Dict[int, int] = {}
        body = list(body if body is not None else fn_node.body)
        last = self._block(body, [self.entry.id])
        for p in last:
            if isinstance(p, tuple):
                self._edge(p[0], self.exit.id, p[1])
            else:
                self._edge(p, self.exit.id, "fall")
        self._index_exprs()
        self._dom: Optional[Dict[int, Set[int]]] = None
        self._pdom: Optional[Dict[int, Set[int]]] = None

    # ---------------------------------------------------------------- construction
    def _new(self, kind: str, node) -> Node:
        n = Node(len(self.nodes), kind, node)
        self.nodes.append(n)
        return n

    def _edge(self, a: int, b: int, label: str = ""):
        if (b, label) not in self.nodes[a].succ:
            self.nodes[a].succ.append((b, label))
            self.nodes[b].pred.append((a, label))

    def _exc_edges(self, nid: int):
        """exceptional successors of node nid given the current try context"""
        for depth in range(len(self._try_stack) - 1, -1, -1):
            for h in self._try_stack[depth]:
                self._edge(nid, h, "exc")
            if self._try_catchall[depth]:
                return
        self._edge(nid, self.raise_exit.id, "exc")

    def _link(self, preds: List, nid: int):
        for p in preds:
            if isinstance(p, tuple):
                self._edge(p[0], nid, p[1])
            else:
                self._edge(p, nid, "")

    def _block(self, body: Sequence[ast.stmt], preds: List) -> List:
        """Adds the statements; returns the list of dangling predecessors (ids or (id,label))."""
        for st in body:
            preds = self._stmt(st, preds)
        return preds

    def _stmt(self, st: ast.stmt, preds: List) -> List:
        if isinstance(st, (ast.FunctionDef, ast.AsyncFunctionDef, ast.ClassDef)):
            n = self._new("stmt", st)
            self._link(preds, n.id)
            return [n.id]
        if isinstance(st, ast.If):
            t = self._new("test", st)
            self._link(preds, t.id)
            self._exc_edges(t.id)
            out = self._block(st.body, [(t.id, "true")])
            out2 = self._block(st.orelse, [(t.id, "false")]) if st.orelse else [(t.id, "false")]
            return out + out2
        if isinstance(st, ast.While):
            t = self._new("test", st)
            self._link(preds, t.id)
            self._exc_edges(t.id)
            self._loops.append((t.id, len(self._break_lists)))
            self._break_lists.append([])
            out = self._block(st.body, [(t.id, "true")])
            self._link(out, t.id)
            self._loops.pop()
            breaks = self._break_lists.pop()
            const_true = isinstance(st.test, ast.Constant) and bool(st.test.value)
            done = [] if const_true else [(t.id, "false")]
            if st.orelse:
                done = self._block(st.orelse, done)
            return done + breaks
        if isinstance(st, (ast.For, ast.AsyncFor)):
            h = self._new("loop", st)
            self._link(preds, h.id)
            self._exc_edges(h.id)
            self._loops.append((h.id, len(self._break_lists)))
            self._break_lists.append([])
            out = self._block(st.body, [(h.id, "iter")])
            self._link(out, h.id)
            self._loops.pop()
            breaks = self._break_lists.pop()
            done: List = [(h.id, "done")]
            if st.orelse:
                done = self._block(st.orelse, done)
            return done + breaks
        if isinstance(st, (ast.With, ast.AsyncWith)):
            w = self._new("with", st)
            self._link(preds, w.id)
            self._exc_edges(w.id)
            return self._block(st.body, [w.id])
        if isinstance(st, ast.Try):
            handler_nodes = [self._new("handler", h) for h in st.handlers]
            catchall = any(set(_handler_names(h)) & CATCH_ALL for h in st.handlers)
            self._try_stack.append([h.id for h in handler_nodes])
            self._try_catchall.append(catchall)
            out = self._block(st.body, preds)
            self._try_stack.pop()
            self._try_catchall.pop()
            if st.orelse:
                out = self._block(st.orelse, out)
            for hn, h in zip(handler_nodes, st.handlers):
                out = out + self._block(h.body, [hn.id])
            if st.finalbody:
                out = self._block(st.finalbody, out)
            return out
        if isinstance(st, ast.Return):
            n = self._new("stmt", st)
            self._link(preds, n.id)
            self._exc_edges(n.id)
            self._edge(n.id, self.exit.id, "return")
            return []
        if isinstance(st, ast.Raise):
            n = self._new("stmt", st)
            self._link(preds, n.id)
            self._exc_edges(n.id)
            return []
        if isinstance(st, ast.Continue):
            n = self._new("stmt", st)
            self._link(preds, n.id)
            if self._loops:
                self._edge(n.id, self._loops[-1][0], "continue")
            return []
        if isinstance(st, ast.Break):
            n = self._new("stmt", st)
            self._link(preds, n.id)
            if self._loops:
                self._break_lists[self._loops[-1][1]].append(n.id)
            return []
        if isinstance(st, ast.Assert):
            t = self._new("test", st)
            self._link(preds, t.id)
            self._exc_edges(t.id)
            return [(t.id, "true")]
        # simple statement
        n = self._new("stmt", st)
        self._link(preds, n.id)
        self._exc_edges(n.id)
        return [n.id]

    def _index_exprs(self):
        for n in self.nodes:
            if n.ast is not None:
                self._owner.setdefault(id(n.ast), n.id)  # the compound statement itself maps to its head node
            for e in n.exprs():
                for sub in _walk_no_defs(e):
                    self._owner.setdefault(id(sub), n.id)

    # ---------------------------------------------------------------- queries
    def node_of(self, sub: ast.AST) -> Optional[Node]:
        nid = self._owner.get(id(sub))
        return self.nodes[nid] if nid is not None else None

    def stmt_nodes(self) -> Iterable[Node]:
        return [n for n in self.nodes if n.kind not in ("entry", "exit", "raise")]

    def succs(self, nid: int, exceptional: bool = True) -> List[int]:
        return [b for b, lab in self.nodes[nid].succ if exceptional or lab != "exc"]

    def reachable(self, src: int, avoid: Iterable[int] = (), exceptional: bool = True,
                  skip_edges: Iterable[Tuple[int, str]] = ()) -> Set[int]:
        """Nodes reachable from src (src included) without entering any node of ``avoid`` and
        without following edges (node, label) of ``skip_edges``."""
        avoid = set(avoid)
        skip = set(skip_edges)
        seen = {src}
        stack = [src]
        while stack:
            a = stack.pop()
            for b, lab in self.nodes[a].succ:
                if (not exceptional and lab == "exc") or (a, lab) in skip or b in avoid or b in seen:
                    continue
                seen.add(b)
                stack.append(b)
        return seen

    def path_exists(self, src: int, dst: int, avoid: Iterable[int] = (), exceptional: bool = True,
                    skip_edges: Iterable[Tuple[int, str]] = ()) -> bool:
        return dst in self.reachable(src, avoid, exceptional, skip_edges)

    def _dominators(self, root: int, succ_fn, all_nodes: List[int]) -> Dict[int, Set[int]]:
        # iterative data-flow; graphs are tiny
        preds: Dict[int, List[int]] = {n: [] for n in all_nodes}
        reach = set()
        stack = [root]
        while stack:
            a = stack.pop()
            if a in reach:
                continue
            reach.add(a)
            for b in succ_fn(a):
                preds[b].append(a)
                stack.append(b)
        dom = {n: set(reach) for n in reach}
        dom[root] = {root}
        changed = True
        while changed:
            changed = False
            for n in reach:
                if n == root:
                    continue
                ps = [dom[p] for p in preds[n] if p in reach]
                new = set.intersection(*ps) if ps else set()
                new = new | {n}
                if new != dom[n]:
                    dom[n] = new
                    changed = True
        return dom

    def dominators(self) -> Dict[int, Set[int]]:
        """dom[n] = nodes that are on every path entry -> n (normal and exceptional edges)."""
        if self._dom is None:
            self._dom = self._dominators(self.entry.id, lambda a: [b for b, _ in self.nodes[a].succ],
                                         [n.id for n in self.nodes])
        return self._dom

    def dominates(self, a: int, b: int) -> bool:
        d = self.dominators()
        return b in d and a in d[b]

    def post_dominators(self) -> Dict[int, Set[int]]:
        """pdom[n] = nodes on every *normal* path n -> exit (exceptional edges ignored)."""
        if self._pdom is None:
            self._pdom = self._dominators(
                self.exit.id, lambda a: [p for p, lab in self.nodes[a].pred if lab != "exc"], [n.id for n in self.nodes]
            )
        return self._pdom

    def on_all_paths(self, src: int, dst: int, through: Iterable[int], exceptional: bool = False) -> bool:
        """True iff every path src -> dst passes through at least one node of ``through``."""
        through = set(through)
        if src in through or dst in through:
            return True
        return not self.path_exists(src, dst, avoid=through, exceptional=exceptional)

    def enclosing_loops(self, nid: int) -> List[Node]:
        """for/while heads whose body contains node nid (syntactically)."""
        target = self.nodes[nid].ast
        out = []
        for n in self.nodes:
            if n.kind == "loop" or (n.kind == "test" and isinstance(n.ast, ast.While)):
                for sub in ast.walk(n.ast):
                    if sub is target and sub is not n.ast:
                        out.append(n)
                        break
        return out


def _walk_no_defs(node: ast.AST):
    stack = [node]
    while stack:
        n = stack.pop()
        yield n
        for c in ast.iter_child_nodes(n):
            if isinstance(c, (ast.FunctionDef, ast.AsyncFunctionDef, ast.ClassDef)):
                continue
            stack.append(c)


_cfg_cache: Dict[int, CFG] = {}


def cfg_of(fn_node: ast.AST) -> CFG:
    c = _cfg_cache.get(id(fn_node))
    if c is None or c.fn is not fn_node:
        c = CFG(fn_node)
        _cfg_cache[id(fn_node)] = c
    return c
