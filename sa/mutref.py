"""Detection regression of the thorough tier: syntactic mutants that a check is known to report (sa/mutant_reference.json,
written by tools/mutate.py --reference after a full sweep) are re-created from the CURRENT source of /repo by their key
(file, enclosing function, operator, description) - never from stored text or line numbers -, applied one at a time to a
scratch copy of the python sources, and the property's quick check must report each.  A mutant whose key no longer exists in
the tree (the code was rewritten) is skipped and counted."""
from __future__ import annotations

import json
import os
import shutil
import subprocess
import tempfile
from concurrent.futures import ThreadPoolExecutor
from typing import Dict, List

from .mutgen import apply_edit, gen_edits

VERIF = os.path.dirname(os.path.dirname(os.path.abspath(__file__)))
REF = os.path.join(VERIF, "sa", "mutant_reference.json")
PER_PROPERTY = int(os.environ.get("SA_MUTREF_MAX", "24"))


def _copy(repo: str) -> str:
    d = tempfile.mkdtemp(prefix="sa_mutref_", dir="/tmp")
    subprocess.run(["rsync", "-a", "--include=*/", "--include=*.py", "--exclude=*", "--exclude=data/", "--prune-empty-dirs",
                    os.path.join(repo, "spil"), os.path.join(repo, "spil_hamlet_conf"), os.path.join(repo, "spil_plugins"), d + "/"], check=True)
    return d


def _one(args):
    prop, repo, entry = args
    path = os.path.join(repo, entry["file"])
    if not os.path.exists(path):
        return entry, "gone"
    src = open(path, encoding="utf-8").read()
    try:
        edits = [e for e in gen_edits(entry["file"], src) if e.op == entry["op"] and e.func == entry["func"] and e.what == entry["what"]]
    except SyntaxError:
        return entry, "gone"
    if not edits:
        return entry, "gone"
    d = _copy(repo)
    try:
        mutated = apply_edit(src, edits[0])
        try:
            compile(mutated, entry["file"], "exec")
        except SyntaxError:
            return entry, "gone"
        open(os.path.join(d, entry["file"]), "w", encoding="utf-8").write(mutated)
        r = subprocess.run(["/venv/bin/python", "-m", "sa.check", prop, "--tier", "quick", "--repo", d, "--no-evidence"], cwd=VERIF,
                           capture_output=True, text=True)
        return entry, {0: "silent", 1: "fire"}.get(r.returncode, "analysis-error")
    finally:
        shutil.rmtree(d, ignore_errors=True)


def run_for(prop: str, repo: str) -> Dict:
    if not os.path.exists(REF):
        return {"reference": "absent", "mutants": 0, "failed": 0}
    ref = json.load(open(REF))
    mine = [e for e in ref["mutants"] if prop in e["fired"]]
    # a spread over files and operators, deterministic
    mine.sort(key=lambda e: (e["file"], e["func"], e["op"], e["what"]))
    step = max(1, len(mine) // PER_PROPERTY)
    picked = mine[::step][:PER_PROPERTY]
    with ThreadPoolExecutor(max_workers=int(os.environ.get("SA_JOBS", "14"))) as ex:
        results = list(ex.map(_one, [(prop, repo, e) for e in picked]))
    fired = [e for e, g in results if g == "fire"]
    gone = [e for e, g in results if g == "gone"]
    lost = [f"{e['file']}::{e['func']} {e['op']}: {e['what']} -> {g}" for e, g in results if g in ("silent", "analysis-error")]
    return {"reference_size_for_property": len(mine), "mutants": len(picked), "fired": len(fired), "key_no_longer_in_tree": len(gone),
            "failed": len(lost), "failures": lost,
            "samples": [f"{e['file']}::{e['func']} {e['op']}: {e['what']}" for e in fired[:5]]}
