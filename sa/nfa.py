"""Small NFA construction for the regular expressions resolva builds from templates, and language
intersection (product emptiness).  Used by R-DISJ: nothing is ever matched against a string; the
expressions are parsed with re._parser and explored symbolically over a finite alphabet abstraction.

Supported: literals, '.', character sets (literals, ranges, \\d, negation), alternation, groups,
repetition (*, +, ?, {m,n} with n <= 12), anchors (ignored: the template expressions are anchored at
both ends by construction).  Anything else raises Unsupported (the rule reports it as inconclusive).
"""
from __future__ import annotations

import re._constants as C  # type: ignore
import re._parser as P  # type: ignore
from typing import Dict, FrozenSet, List, Optional, Set, Tuple

OTHER = "\uffff"  # stands for every non-word character not mentioned in any of the expressions under comparison
OTHER_W = "\ufffe"  # stands for every word character (\\w) not mentioned
DIGITS = "0123456789"


class Unsupported(Exception):
    pass


class NFA:
    def __init__(self):
        self.n = 0
        self.eps: Dict[int, Set[int]] = {}
        self.tr: Dict[int, List[Tuple[FrozenSet[str], int]]] = {}
        self.start = self.new()
        self.final = self.new()

    def new(self) -> int:
        self.n += 1
        return self.n - 1

    def add_eps(self, a: int, b: int):
        self.eps.setdefault(a, set()).add(b)

    def add(self, a: int, chars: FrozenSet[str], b: int):
        self.tr.setdefault(a, []).append((chars, b))

    def closure(self, states: Set[int]) -> FrozenSet[int]:
        stack = list(states)
        seen = set(states)
        while stack:
            s = stack.pop()
            for t in self.eps.get(s, ()):
                if t not in seen:
                    seen.add(t)
                    stack.append(t)
        return frozenset(seen)

    def step(self, states: FrozenSet[int], ch: str) -> FrozenSet[int]:
        out = set()
        for s in states:
            for chars, t in self.tr.get(s, ()):
                if ch in chars:
                    out.add(t)
        return self.closure(out) if out else frozenset()


def literal_chars(pattern: str) -> Set[str]:
    """characters that occur literally in the expression (the alphabet abstraction is built from them)"""
    out: Set[str] = set()

    def walk(items):
        for op, av in items:
            if op is C.LITERAL or op is C.NOT_LITERAL:
                out.add(chr(av))
            elif op is C.IN:
                for o2, a2 in av:
                    if o2 is C.LITERAL:
                        out.add(chr(a2))
                    elif o2 is C.RANGE:
                        lo, hi = a2
                        if hi - lo > 64:
                            raise Unsupported("wide character range")
                        out.update(chr(x) for x in range(lo, hi + 1))
            elif op is C.BRANCH:
                for b in av[1]:
                    walk(b)
            elif op is C.SUBPATTERN:
                walk(av[3])
            elif op in (C.MAX_REPEAT, C.MIN_REPEAT):
                walk(av[2])

    walk(P.parse(pattern))
    return out


def _is_word(c: str) -> bool:
    return c == OTHER_W or (c != OTHER and (c.isalnum() or c == "_"))


def build(pattern: str, universe: FrozenSet[str]) -> NFA:
    nfa = NFA()

    def charset_of_in(items) -> FrozenSet[str]:
        neg = False
        s: Set[str] = set()
        for op, av in items:
            if op is C.NEGATE:
                neg = True
            elif op is C.LITERAL:
                s.add(chr(av))
            elif op is C.RANGE:
                s.update(chr(x) for x in range(av[0], av[1] + 1))
            elif op is C.CATEGORY:
                if av is C.CATEGORY_DIGIT:
                    s.update(DIGITS)
                elif av is C.CATEGORY_NOT_DIGIT:
                    s.update(universe - set(DIGITS))
                elif av is C.CATEGORY_WORD:
                    s.update(c for c in universe if _is_word(c))
                elif av is C.CATEGORY_NOT_WORD:
                    s.update(c for c in universe if not _is_word(c))
                elif av is C.CATEGORY_SPACE:
                    s.update(c for c in universe if c in " \t\n\r\f\v")
                elif av is C.CATEGORY_NOT_SPACE:
                    s.update(c for c in universe if c not in " \t\n\r\f\v")
                else:
                    raise Unsupported(f"character category {av}")
            else:
                raise Unsupported(f"set item {op}")
        s &= universe
        return frozenset(universe - s) if neg else frozenset(s)

    def seq(items, a: int) -> int:
        cur = a
        for op, av in items:
            cur = one(op, av, cur)
        return cur

    def one(op, av, a: int) -> int:
        if op is C.LITERAL:
            b = nfa.new()
            nfa.add(a, frozenset({chr(av)}) & universe, b)
            return b
        if op is C.NOT_LITERAL:
            b = nfa.new()
            nfa.add(a, frozenset(universe - {chr(av)}), b)
            return b
        if op is C.ANY:
            b = nfa.new()
            nfa.add(a, frozenset(universe - {"\n"}), b)
            return b
        if op is C.IN:
            b = nfa.new()
            nfa.add(a, charset_of_in(av), b)
            return b
        if op is C.BRANCH:
            b = nfa.new()
            for alt in av[1]:
                s = nfa.new()
                nfa.add_eps(a, s)
                e = seq(alt, s)
                nfa.add_eps(e, b)
            return b
        if op is C.SUBPATTERN:
            return seq(av[3], a)
        if op in (C.MAX_REPEAT, C.MIN_REPEAT):
            lo, hi, sub = av
            cur = a
            for _ in range(lo):
                cur = seq(sub, cur)
            if hi is C.MAXREPEAT:
                s = nfa.new()
                nfa.add_eps(cur, s)
                e = seq(sub, s)
                nfa.add_eps(e, s)
                return s
            if hi - lo > 12:
                raise Unsupported("large bounded repetition")
            end = nfa.new()
            nfa.add_eps(cur, end)
            for _ in range(hi - lo):
                cur = seq(sub, cur)
                nfa.add_eps(cur, end)
            return end
        if op is C.AT:
            return a
        raise Unsupported(f"regex construct {op}")

    e = seq(P.parse(pattern), nfa.start)
    nfa.add_eps(e, nfa.final)
    return nfa


def witness_of_intersection(p1: str, p2: str, forbidden: str = "") -> Optional[str]:
    """a string in L(p1) ∩ L(p2) that uses no character of ``forbidden``, or None if there is none"""
    chars = literal_chars(p1) | literal_chars(p2) | set(DIGITS) | {"/", "_", " ", "\n", OTHER, OTHER_W}
    universe = frozenset(chars - set(forbidden))
    a, b = build(p1, universe), build(p2, universe)
    s0 = (a.closure({a.start}), b.closure({b.start}))
    seen = {s0}
    queue: List[Tuple[Tuple[FrozenSet[int], FrozenSet[int]], str]] = [(s0, "")]
    order = sorted(universe, key=lambda c: (c in "\n ", c))  # witnesses prefer printable characters
    while queue:
        (sa, sb), w = queue.pop(0)
        if a.final in sa and b.final in sb:
            return w.replace(OTHER, "?").replace(OTHER_W, "x")
        for ch in order:
            na = a.step(sa, ch)
            if not na:
                continue
            nb = b.step(sb, ch)
            if not nb:
                continue
            st = (na, nb)
            if st not in seen:
                seen.add(st)
                queue.append((st, w + ch))
    return None
