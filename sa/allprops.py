"""All twenty properties on one tree in one process (development aid for the variant tools; the registered checks are
`python -m sa.check <id>`).  Prints one JSON object: {"C01": {"verdict": "ok|fire|error", "rules": [...]}, ...}"""
from __future__ import annotations

import argparse
import json
import sys
import traceback

from .check import run_property
from .context import Ctx
from .report import load_known, match_known


def main(argv=None) -> int:
    ap = argparse.ArgumentParser()
    ap.add_argument("--repo", default="/repo")
    ap.add_argument("--props", default="")
    args = ap.parse_args(argv)
    props = [p for p in args.props.split(",") if p] or [f"C{i:02d}" for i in range(1, 21)]
    out = {}
    try:
        ctx = Ctx(args.repo)
    except Exception as e:  # noqa
        print(json.dumps({"error": f"{type(e).__name__}: {e}"}))
        return 2
    known = load_known()
    for p in props:
        try:
            res, mod = run_property(p, ctx, "quick")
            unl = [f for f in res.findings if match_known(f, known) is None]
            if unl:
                out[p] = {"verdict": "fire", "rules": sorted({f.rule for f in unl}),
                          "first": f"{unl[0].file}:{unl[0].line} {unl[0].rule} {unl[0].message[:160]}"}
            elif res.analysis_errors:
                out[p] = {"verdict": "error", "rules": [], "first": res.analysis_errors[0][:200]}
            else:
                out[p] = {"verdict": "ok", "rules": []}
        except Exception as e:  # noqa
            out[p] = {"verdict": "error", "rules": [], "first": f"{type(e).__name__}: {e}"[:200] + traceback.format_exc()[-300:]}
    print(json.dumps(out))
    return 0


if __name__ == "__main__":
    sys.exit(main())
